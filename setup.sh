#!/bin/bash
# Offline setup: nothing to build (pure Python harness, AgileRL is an editable install of /repo).
set -e
cd "$(dirname "$0")"
/venv/bin/python -c "import agilerl, torch, sys; assert agilerl.__file__.startswith('/repo/'), agilerl.__file__"
mkdir -p evidence replays
echo setup ok
