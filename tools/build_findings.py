#!/usr/bin/env python3
"""Development helper (never run by a check): writes /verif/known_findings.json.

* FIXED: genuine defects repaired by a 'fix:' commit in /repo (commit looked up by subject). They suppress nothing.
* OPEN: genuine defects recorded rather than repaired; entries come from the candidates file produced by
  tools/collect_findings.py on logs of the final tree (exact keys + the failing input as replay_task) and are
  annotated with their root cause through ROOT (first matching key prefix wins).
"""
import json, subprocess, sys, os

HERE = os.path.dirname(os.path.dirname(os.path.abspath(__file__)))

FIXED = [
    ("count vectorised multi-agent transitions", ["C09"], "MultiAgentReplayBuffer.save_to_memory_vect_envs with dict/tuple observations: number of environments taken from len(dict)/len(tuple) (keys MultiAgentReplayBuffer/{dict,tuple}/save/{content,len,exception/IndexError})"),
    ("n-step return must not run past", ["C10"], "MultiStepReplayBuffer: window whose FIRST transition is terminal summed the next episode (keys nstep/E=*/own-terminal-at-window-pos-0)"),
    ("EvolvableNetwork check work on Python 3.12", ["C20", "C01", "C02", "C07", "C17"], "PPO/DDPG/TD3 with default share_encoders=True could not be constructed on Python 3.12 (protocol isinstance always False)"),
    ("clone() must not alias", ["C01", "C05"], "clone() aliased Adam exp_avg/exp_avg_sq/step with the parent (keys <Algo>/clone/independent/shared-storage/optimizer-state.*, .../bystander-changed/learn/optimizer-state.*, .../faithful/same-update)"),
    ("shared encoders really share", ["C01", "C07", "C02", "C08"], "share_encoder_parameters pinned a stale copy: DDPG/TD3/PPO critics differed after clone and after checkpoint load (keys <Algo>/checkpoint/*/network-weights:critic*, target-weights:critic_target*)"),
    ("DQN target network keeps real parameters", ["C08", "C07"], "DQN soft_update was a no-op and checkpoints lost the target (keys DQN[/double]/target-frozen:actor_target, DQN/checkpoint/*/target-weights:actor_target)"),
    ("accept tuple observations in the form", ["C20", "C15"], "preprocess_observation rejected the TensorDict form of Tuple observations that the replay buffer returns"),
    ("TD3.learn and CQN.learn accept", ["C20"], "TD3.learn / CQN.learn unpacked a tuple but the samplers return TensorDicts (keys train_off_policy/TD3/uniform/exception/ValueError@td3.learn, train_offline/CQN/dataset/exception/ValueError@cqn.learn)"),
    ("train_bandits stores the chosen arm", ["C20"], "train_bandits stored the whole float64 context matrix (keys train_bandits/{NeuralUCB,NeuralTS}/uniform/exception/RuntimeError@*)"),
    ("train_multi_agent_on_policy returns only real", ["C20"], "junk entries at the head of the returned fitness list (key train_multi_agent_on_policy/return/fitnesses-shape)"),
    ("IPPO keeps rollout rows", ["C17", "C20"], "IPPO._learn_individual: rows misaligned for >=2 homogeneous agents, next_done stacked on the wrong axis, squeeze() dropped single-step rollouts (keys IPPO/_learn_individual/rows-misaligned/*, .../gae/*, IPPO/learn/exception/*/T=1)"),
    ("train_on_policy keeps done flags scalar", ["C17", "C20"], "train_on_policy on unvectorised envs mixed (1,) and scalar done flags (key PPO/train_on_policy/exception/ValueError@algo_utils.stack_experiences)"),
    ("get_vect_dim compares ranks", ["C15"], "get_vect_dim on MultiBinary compared int with tuple (keys get_vect_dim/MultiBinary/exception/TypeError, IPPO/get_action/MultiBinary/single/exception/TypeError)"),
    ("batch MultiDiscrete observations", ["C15"], "MultiDiscrete (step, env) shaped inputs mis-reshaped (keys preprocess_observation/MultiDiscrete/{se,11}/exception/*)"),
    ("a mutated learning rate reaches every optimizer", ["C02", "C06"], "only the first optimizer registered under a mutated lr was re-created (keys {TD3,MATD3,IPPO}/mutation/optimizer-lr/{hp,none})"),
    ("hyperparameter mutation starts from the individual", ["C06"], "RLParameter.value cached on the config shared by the initial population (key rl_hp/new-value/base=registry-cache-not-own-value/shared-config)"),
    ("clamp the fractional atom index", ["C18"], "Rainbow projection: b > num_atoms-1 in float32 for a target at v_max (keys Rainbow/_dqn_loss/cross-row-leak/next-to-target-at-top-atom, Rainbow/_dqn_loss/exception/IndexError/target-at-top-atom, Rainbow/learn/per/exception/IndexError)"),
    ("keep the action dimension when re-evaluating", ["C16"], "PPO/IPPO batch_actions.squeeze() broadcast over the minibatch for Box(1,)/MultiBinary(1) (keys {PPO,IPPO}/learn/*/{box1,multibinary1}/log_prob)"),
    ("async vector env returns the new episode", ["C12"], "worker returned the terminal observation after an auto-reset; placeholders for absent agents never applied (keys async/step/autoreset/terminal-observation-returned, async/step/agent-left/exception/KeyError)"),
    ("auto-reset wrapper restarts episodes", ["C12"], "PettingZooAutoResetParallelWrapper ignored truncation (key wrapper/step/autoreset-missed/not-all-terminated)"),
    ("close() of the async vector env survives", ["C13"], "close()/wait after a failed or killed worker raised or deadlocked and left workers alive (keys close/fault=*/..., wait/state=unknown/fault=kill/hang)"),
    ("masked random exploration in DQN/CQN", ["C14"], "masked random arg-max tie at draw 0; DQN explored at epsilon=0 when the draw was exactly 0 (keys {DQN,CQN}/get_action/masked-action-returned/*/allowed-random-scores-all-0, DQN/get_action/eps0/not-best-allowed/draw-u=0)"),
    ("MADDPG/MATD3 clamp exploration noise", ["C14"], "training-mode clamp used the bounds of dimension 0 (keys {MADDPG,MATD3}/get_action/training/out-of-bounds/perdim-bounds/dim>0)"),
    ("IPPO accepts array-valued action masks", ["C14", "C16"], "`None in [ndarray]` raised for every mask (keys IPPO/get_action/exception/ValueError*)"),
    ("neural bandits initialise sigma_inv", ["C19"], "sigma_inv initialised to lambda*I instead of I/lambda (keys {NeuralUCB,NeuralTS}/init_params/sigma_inv=lambda*I-not-inverse-of-lambda*I)"),
    ("checkpoints do not store detached copies", ["C19", "C07"], "bandit exp_layer pickled into checkpoints and re-bound as a stale copy (keys {NeuralUCB,NeuralTS}/{load,load_checkpoint}/exp_layer-not-actor-output-layer)"),
    ("ResNet channel mutations keep channel_size", ["C03", "C04"], "np.int64 channel_size broke clone() (keys {EvolvableResNet,DeterministicActor}/clone/exception/AssertionError)"),
    ("regularisation anchor theta_0", ["C01"], "bandit theta_0 stayed attached to the parameter graph: parent and clone computed different updates (keys {NeuralUCB,NeuralTS}/clone/faithful/same-update)"),
    ("test() of the single-agent algorithms", ["C20"], "test() passed batched actions to unvectorised envs (keys train_*/<Algo>/env-rejected-action@<algo>.test)"),
    ("architecture mutations keep the buffers", ["C04"], "BatchNorm buffers reset by every mutation, even a blocked one (keys {EvolvableCNN,EvolvableResNet}/batchnorm-buffer/same-shape/not-preserved, unchanged-architecture/outputs-differ/eval/lost=batchnorm-buffer)"),
    ("keep evaluation-mode actions inside", ["C14"], "MADDPG/MATD3 evaluation-mode actions overshoot bounds that are not exactly representable (keys {MADDPG,MATD3}/get_action/eval/out-of-bounds/asymmetric-bounds/dim*)"),
    ("masked logits are pushed below", ["C14"], "masked logits at -1e8 beat allowed logits at -1e9 (keys {PPO,IPPO}/get_action/masked-action-returned/*/allowed-logits-all--1e9)"),
]

ROOT = [
    ("C01", "", 'activation mutation on networks with a multi-input (Dict/Tuple) encoder: change_activation switches the live encoder output activation but init_dict keeps output_activation=None, so everything rebuilt from init_dict (clone, restored checkpoint, re-created target) has an Identity encoder output where the source has the new activation'),
    ("C07", "", 'activation mutation on networks with a multi-input (Dict/Tuple) encoder: change_activation switches the live encoder output activation but init_dict keeps output_activation=None, so everything rebuilt from init_dict (clone, restored checkpoint, re-created target) has an Identity encoder output where the source has the new activation'),
    ("C02", "", "activation mutation on networks with a multi-input (Dict/Tuple) encoder: change_activation switches the live encoder output activation but init_dict keeps output_activation=None, so the target network re-created from init_dict has an Identity output where the eval network has the new activation (same family as the C05 encoder_activation_output finding)"),
    ("C05", "TS/real/copy-differs-from-source/architecture/encoder_activation_output", "EvolvableNetwork built from a partial encoder_config without 'activation' gets an Identity encoder output activation, but its init_dict rebuilds (clone, target re-creation) with ReLU: networks/base.py output_activation defaulting"),
    ("C06", "rl_hp/lr/optimizer-registered-under-wrong-lr-name", "OptimizerWrapper._infer_lr_name matches learning rates by object identity: when lr_actor and lr_critic are the same float object the critic optimizers are registered under lr_actor"),
    ("C16", "", "squash_output family: TorchDistribution.log_prob re-evaluates with the pre-squash value of the last sample; scale_action cannot take numpy arrays (eval mode); IPPO calls .cpu() on a None entropy; net_config squash_output is forwarded to ValueNetwork"),
    ("C14", "IPPO/get_action/masked-action-returned", "IPPO.extract_action_masks collects the masks in the key order of the infos dict while observations are batched in agent order: with infos listing the agents in another order a masked action can be sampled (same family as C15's IPPO agent-order finding)"),
    ("C14", "", "squash_output family (see C16): PPO/IPPO get_action in eval mode with squash_output raises; IPPO training mode with squash_output hits entropy None"),
    ("C15", "DQN/get_action/batch", "get_action never puts networks in eval mode and the CNN 'layer_norm' is BatchNorm2d: results for one observation depend on the other rows of the batch"),
    ("C15", "PPO-box/get_action/batch", "get_action never puts networks in eval mode and the CNN 'layer_norm' is BatchNorm2d: results for one observation depend on the other rows of the batch"),
    ("C15", "PPO/get_action/batch", "get_action never puts networks in eval mode and the CNN 'layer_norm' is BatchNorm2d: results for one observation depend on the other rows of the batch"),
    ("C15", "IPPO/get_action/agent", "IPPO concatenates observations in dict order but reshapes outputs with the total number of homogeneous agents: agent re-ordering / subsets give wrong rows or raise"),
    ("C15", "disassemble_homogeneous_outputs", "assemble/disassemble_homogeneous_outputs assume every homogeneous agent is present (agent subsets)"),
    ("C15", "MADDPG/get_action", "MADDPG/MATD3 get_action zips agent_ids with obs.values() positionally: agent order / subsets of the observation dict change the result"),
    ("C15", "MATD3/get_action", "MADDPG/MATD3 get_action zips agent_ids with obs.values() positionally: agent order / subsets of the observation dict change the result"),
    ("C15", "stack_critic_observations", "stack_critic_observations uses list(obs.values()) positionally"),
    ("C15", "get_action/Box-r0", "rank-0 Box observations preprocess to (B,) but the MLP encoder expects (B,1)"),
    ("C15", "get_action/Dict[images-only]", "EvolvableMultiInput fails on image-only Dict/Tuple members (torch.cat of feature maps)"),
    ("C15", "get_action/Tuple[images-only]", "EvolvableMultiInput fails on image-only Dict/Tuple members (torch.cat of feature maps)"),
    ("C15", "get_action/", "EvolvableMultiInput fails on rank-2 Box members of Dict/Tuple spaces"),
    ("C03", "EvolvableNetwork/parent-then-nested", "after an in-place add_latent_node (no clone in between) the network's nested encoder.*/head_net.*/feature_net.* mutation methods stay bound to the discarded sub-modules (which share their hidden_size/channel_size lists with the live ones): attributes change, the live model does not, and clone() silently returns freshly initialised weights. Not reachable through Mutations (which mutates clones)"),
    ("C03", "EvolvableMultiInput/parent-then-nested", "after an in-place add_latent_node (no clone in between) the network's nested encoder.*/head_net.*/feature_net.* mutation methods stay bound to the discarded sub-modules (which share their hidden_size/channel_size lists with the live ones): attributes change, the live model does not, and clone() silently returns freshly initialised weights. Not reachable through Mutations (which mutates clones)"),
    ("C04", "EvolvableNetwork/parent-then-nested", "after an in-place add_latent_node (no clone in between) the network's nested encoder.*/head_net.*/feature_net.* mutation methods stay bound to the discarded sub-modules (which share their hidden_size/channel_size lists with the live ones): attributes change, the live model does not, and clone() silently returns freshly initialised weights. Not reachable through Mutations (which mutates clones)"),
    ("C03", "StochasticActor/head_net", "EvolvableDistribution (StochasticActor head) advertises the wrapped MLP's mutation methods but disables the wrapped lists, so every head_net.* mutation is a silent no-op"),
    ("C03", "ValueNetwork/encoder.change_kernel", "single-layer CNN encoder: change_kernel falls back to add_layer, which is disabled inside encoders -> advertised but no effect"),
    ("C03", "", "Conv3d kernels: change_kernel rejects the int kernel size it returns itself; tuple kernels are flattened to ints in init_dict so rebuild/clone() get different shapes (clone swallows the RuntimeError)"),
    ("C04", "", "preserve_parameters skips resized normalisation tensors on purpose ('norm' not in key) and resized BatchNorm buffers: their learned values are lost on node/channel mutations"),
    ("C12", "async/step/action/declared-shape-lost/box1", "_async_worker squeezes actions: a Box(1,) action reaches the sub-environment as a 0-d array (value intact). Not repaired: two pinned tests rely on the squeeze"),
    ("C20", "train_multi_agent_on_policy/IPPO/env-rejected-action", "unvectorised multi-agent environment with discrete actions: IPPO (and MATD3) hand actions of shape (1,) to the environment"),
    ("C20", "train_multi_agent_off_policy/MATD3/env-rejected-action", "unvectorised multi-agent environment with discrete actions: IPPO (and MATD3) hand actions of shape (1,) to the environment"),
]


def commit_of(subject):
    out = subprocess.run(["git", "-C", "/repo", "log", "--format=%h %s", "--grep", subject, "-F"], capture_output=True, text=True).stdout.strip().splitlines()
    return out[0].split()[0] if out else None


def main():
    findings = []
    for subj, props, what in FIXED:
        c = commit_of(subj)
        if c is None:
            print("WARNING: no commit for", subj, file=sys.stderr)
        for p in props:
            findings.append({"property": p, "key": f"fixed:{subj}", "status": "fixed", "commit": c, "what": what})
    cands = []
    for path in sys.argv[1:]:
        cands += json.load(open(path))
    seen = set()
    for e in cands:
        k = (e["property"], e["key"])
        if k in seen:
            continue
        seen.add(k)
        root = next((r for pr, pre, r in ROOT if pr == e["property"] and e["key"].startswith(pre)), None)
        if root is None:
            print("WARNING: no root cause for", k, file=sys.stderr)
            continue
        findings.append({"property": e["property"], "key": e["key"], "status": "open", "what": f"{root} [first failing case: {e['what'][:160]}]", "replay_task": e.get("replay_task")})
    doc = {
        "_comment": "Genuine defects of AgileRL found by the checks. status=open: recorded, not repaired (the check prints KNOWN-FINDING for exactly this key and exits 0); status=fixed: repaired by the named 'fix:' commit in /repo - such entries suppress nothing, the violation is reported again if it returns. Never written at run time (built by tools/build_findings.py during development).",
        "findings": findings,
    }
    with open(os.path.join(HERE, "known_findings.json"), "w") as f:
        json.dump(doc, f, indent=1, default=str)
    print("open:", sum(1 for x in findings if x["status"] == "open"), "fixed:", sum(1 for x in findings if x["status"] == "fixed"))


main()
