#!/usr/bin/env python3
"""Regenerates the generated tables of DESIGN.md Part E (between BEGIN/END markers)."""
import json, os, re, subprocess, glob
HERE = os.path.dirname(os.path.dirname(os.path.abspath(__file__)))
d = json.load(open(os.path.join(HERE, "known_findings.json")))["findings"]
subs = subprocess.run(["git", "-C", "/repo", "log", "--reverse", "--format=%h %s", "--grep", "^fix:"], capture_output=True, text=True).stdout.strip().splitlines()
whats, props = {}, {}
for f in d:
    if f["status"] == "fixed":
        whats[f["commit"]] = f["what"]
        props.setdefault(f["commit"], []).append(f["property"])
fix_lines = [f"| `{l.split(' ',1)[0]}` | {l.split(' ',1)[1][5:]} | {', '.join(sorted(set(props.get(l.split(' ',1)[0], ['?']))))} | {whats.get(l.split(' ',1)[0], '')} |" for l in subs]
opens = {}
for f in d:
    if f["status"] == "open":
        opens.setdefault(f["what"].split(" [first failing case")[0], []).append((f["property"], f["key"]))
open_lines = []
for root, ks in opens.items():
    ps = sorted({p for p, _ in ks})
    open_lines.append(f"* **{', '.join(ps)}** — {root}  \n  keys ({len(ks)}): " + ", ".join(f"`{k}`" for _, k in ks[:8]) + (" …" if len(ks) > 8 else ""))
seeded = ["| name | property | needs to manifest | caught by (tier) | key |", "|---|---|---|---|---|"]
for m in sorted(glob.glob(os.path.join(HERE, "seeded", "*", "meta.json"))):
    j = json.load(open(m))
    seeded.append(f"| {j['name']} | {j['property']} | {j['needs']} | {j['caught']} | {j.get('key','')} |")
suite = open(os.path.join(HERE, "notes", "suite_result.txt")).read().strip().splitlines() if os.path.exists(os.path.join(HERE, "notes", "suite_result.txt")) else ["(pending)"]
s = open(os.path.join(HERE, "DESIGN.md")).read()
for tag, lines in (("FIXES", fix_lines), ("OPEN", open_lines), ("SEEDED", seeded), ("SUITE", suite)):
    s = re.sub(rf"<!-- BEGIN:{tag} -->.*?<!-- END:{tag} -->", f"<!-- BEGIN:{tag} -->\n" + "\n".join(lines) + f"\n<!-- END:{tag} -->", s, flags=re.S)
open(os.path.join(HERE, "DESIGN.md"), "w").write(s)
print("DESIGN.md tables updated:", len(fix_lines), "fixes,", len(open_lines), "open root causes,", len(seeded) - 2, "seeded")
