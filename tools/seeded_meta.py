#!/usr/bin/env python3
"""Writes seeded/<name>/meta.json from result.txt and the table below (development helper)."""
import json, os, re
HERE = os.path.dirname(os.path.dirname(os.path.abspath(__file__)))
NEEDS = {
 "C09-m3": ("C09", "ReplayBuffer.sample fast path for batch_size >= len(buffer) returns a view of the ring storage instead of a copy: only when the batch covers the whole buffer, the caller keeps it and a later add() wraps onto those slots (the handed-out batch changes)", ""),
 "C10-m3": ("C10", "n-step reward computed by a backward recursion masked by each environment's own done flag while next_obs/done still come from the forward scan that stops at the first step where ANY environment ended - two sites that each look right: >=2 envs, n>=3, one env ending inside a window in which another does not", ""),
 "C11-m3": ("C11", "max-weight minimum taken over min_tree.min(0, size-1) with an exclusive end: the last stored slot is left out; only when the unique lowest priority sits at index size-1 (update_priorities on the last slot of a full buffer) - weights exceed 1", ""),
 "C12-m3": ("C12", "worker caches which agents have left (placeholder written once) and clears the cache on an explicit reset only, not on auto-reset: an agent that leaves >=2 steps before the end of its episode keeps the placeholder observation for the whole next episode", "missed by the first C12 version (agent_0 always left exactly one step before the end, so its first absent step was the auto-reset step); caught after adding leave=2 (two steps before the end) to families A, B and W"),
 "C01-m1": ("C01", "tournament_selection with elitism returns the SAME object as elite and new_pop[0]; visible only when the new generation is trained/mutated and the elite is looked at afterwards", "missed by the first C01/C05 versions; caught after adding the sibling identity/storage scan to C01's tournament op and C05's judge_select"),
 "C01-m2": ("C01", "deepcopy of optimizer state moved into OptimizerWrapper but forgotten for the multi-agent branch: MADDPG/MATD3/IPPO clones share Adam moments; needs a learn step before cloning and training of another family member afterwards", ""),
 "C02-m1": ("C02", "rl_hp mutation re-creates only the first optimizer registered under the mutated lr (TD3/MATD3 critic_2, IPPO critics) - needs an algorithm with two optimizers on one lr and that lr being sampled", ""),
 "C02-m2": ("C02", "multi-agent architecture mutation hands every critic sub-agent 0's mutation arguments; needs >=2 sub-agents and a node/latent mutation whose draws differ", ""),
 "C05-m1": ("C05", "rank uses sum(last k)/eval_loop instead of the mean: wrong only for eval_loop>1 with histories shorter than the window (unequal lengths)", ""),
 "C05-m2": ("C05", "highest index cached on the selector object: duplicates only when one selector serves a second population with higher indices", "missed by the first C05 version; caught after adding the selector-reuse layer"),
 "C06-m1": ("C06", "clip-after-cast: a clipped value takes the bound's python type instead of dtype; needs bounds of another number type than dtype and a mutation past the bound", ""),
 "C06-m2": ("C06", "after reinit_opt the old optimizer state (incl. old lr) is loaded back; only when the optimizer already has state, i.e. a learn step before the lr mutation", "missed by the first C06 version (fresh agents only); caught after adding the 'created-trained' population kind; C02 also catches it"),
 "C07-m1": ("C07", "Algo.load runs the mutation hooks after loading the state dicts: DQN's restored target is overwritten by the online network (only load(), only after a learn step with tau<1)", ""),
 "C07-m2": ("C07", "optimizer.load_state_dict skipped when the saved optimizer has no per-parameter state: a stale lr survives in-place load_checkpoint into an agent with another lr, only for checkpoints taken right after a mutation / before learning", ""),
 "C08-m1": ("C08", "DQN soft_update caches the (online,target) parameter pairs on first use: after any Mutations.mutation() or load_checkpoint() into the same object the live target never moves", ""),
 "C08-m2": ("C08", "CQN: (1-done) mask moved into the plain branch only, the double-Q branch is unmasked; needs double=True and a batch with a done row", ""),
 "C09-m1": ("C09", "wrap-around branch copies data[:rem] instead of data[n:]: only a vectorised add of width>=2 that crosses the end of the storage", ""),
 "C09-m2": ("C09", "MultiAgentReplayBuffer pairs agent_ids positionally with dict.values(): only when a stored field dict lists the agents in another key order", "missed by the first C09 version (dicts always in agent order); caught after adding key-order variation (and key order in the canonical state)"),
 "C10-m1": ("C10", "first-slot terminal guard uses .all() instead of .any(): >=2 envs, n>=2, one env terminal on slot 0 while another is not", ""),
 "C10-m2": ("C10", "running discount squared each step (g, g^2, g^4): wrong only for n_step>=4", "quick tier extended to n in {4,5} (one env) so that it is caught on every change, not only by thorough"),
 "C11-m1": ("C11", "vectorised float32 stratified draws: the last stratum's variate can round up to the total mass and retrieve() returns an unstored leaf", "first detected through a draw-count check (an implementation detail) - the oracle was made call-pattern agnostic; now caught as index-not-stored"),
 "C11-m2": ("C11", "SumSegmentTree updates ancestors incrementally (delta) instead of recomputing: totals drift after huge priorities are lowered", ""),
 "C12-m1": ("C12", "auto-reset only when all agents terminated or all truncated: mixed termination/truncation in one step leaves the sub-env un-reset", ""),
 "C12-m2": ("C12", "actions mapped with enumerate(env.agents) (live agents): after a non-last agent leaves early, later agents receive their neighbour's action", "patch rebased onto the repaired worker code"),
 "C13-m1": ("C13", "call_wait guard `!= WAITING_CALL` became `== DEFAULT`: only for the sequence step_async/reset_async -> call_wait (no NoAsyncCallError, replies consumed as call results)", ""),
 "C13-m2": ("C13", "state reset after the poll removed from the *_wait methods: only when a worker with index >= 1 is SIGKILLed during a pending call and close() follows (deadlock, workers left alive)", ""),
 "C14-m1": ("C14", "DDPG clips only in training mode: evaluation-mode actions leave the space when rescaling a saturated output overshoots bounds that are not exactly representable", "missed by the first C14 version (all Box bounds dyadic); caught after adding the non-dyadic asymmetric Box 'Bnd' - which also exposed the same defect in MADDPG/MATD3 evaluation mode on the unchanged tree (repaired)"),
 "C14-m2": ("C14", "MADDPG pairs action masks with agents by position of the infos dict: only when masks differ and infos lists the agents in another order than agent_ids", "missed by the first C14 version; caught after listing infos in reverse key order in part of the lattice (which also exposed IPPO's order dependence on the unchanged tree: recorded as open finding)"),
 "C15-m1": ("C15", "image normalisation done in place: float32 observations handed in as numpy arrays are rewritten, so a batch and its rows (or the same observation twice) give different results", ""),
 "C15-m2": ("C15", "assemble/disassemble_homogeneous_outputs switched (consistently) to env-major layout while IPPO batches agent-major: >=2 homogeneous agents and >=2 environments in one call", ""),
 "C04-m1": ("C04", "StochasticActor.recreate_network preserves MLP->MLP and re-wraps: the learned log_std is reset on (even blocked) latent mutations with Box actions", ""),
 "C20-m1": ("C20", "on-policy step counters advance by learn_step per rollout instead of num_envs per env.step: wrong only when num_envs does not divide learn_step (budget overrun, wrong checkpoints names)", ""),
 "C20-m2": ("C20", "off-policy loop only starts a generation that fits the budget: returns one generation early when max_steps is not a multiple of the generation length", ""),
 "C18-m1": ("C18", "floor/ceil neighbour fix-up replaced by L=floor, u=min(L+1, top): all mass of source atoms clipped exactly to v_max is lost (only rewards at/above v_max)", ""),
 "C18-m2": ("C18", "one gamma for all _dqn_loss calls: in combined mode with n-step data the 1-step half is discounted with gamma**n (needs combined_reward, n_step>1, gamma<1, done=0 rows)", ""),
 "C19-m1": ("C19", "gamma folded into the gradient features: sigma_inv becomes inv(lambda I + gamma^2 sum g g^T); identical at the default gamma=1", ""),
 "C03-m1": ("C03", "calc_max_kernel_sizes tracks only the image width instead of min(height,width): on short, wide images change_kernel/add_layer draw kernels larger than the feature-map height and the rebuild raises", "missed by the first C03 version (square images only); caught after adding a 6x24 CNN configuration"),
 "C03-m2": ("C03", "Conv3d kernel depth taken from layer 0 instead of the mutated layer: needs Conv3d, first kernel depth>1 and >=2 conv layers; change_kernel then raises", ""),
 "C16-m1": ("C16", "mask rows without any legal action fall back to unmasked logits - also for MultiBinary, where an all-zero mask row is legal: masked bits get switched on", ""),
 "C16-m2": ("C16", "Categorical built from clamped softmax probabilities: log-probabilities more than ~16 nats below the maximum (and of masked actions) are reported as -15.94", ""),
 "C17-m1": ("C17", "train_on_policy records only terminations as done flags: time-limit truncations are no episode boundary for GAE any more", ""),
 "C17-m2": ("C17", "IPPO next_done vectorised on the wrong axis: final-step mask lands on the wrong (agent, env) columns; needs >=2 shared agents, >=2 envs and an episode ending at the last step in only some envs", ""),
 "C13-m3": ("C13", "_poll_pipe_envs treats timeout=0 like None (falsy-zero slip): a *_wait(timeout=0) poll on a pending call blocks instead of reporting a timeout, and close(terminate=True) waits for stuck workers; needs a pending call, a slow worker and a zero timeout", "missed by the first C13 version (timeouts 0.15 s or None only); caught after adding the timeout=0 sleeper mode"),
 "C20-m3": ("C20", "on-policy loop condition looks at pop[0] only: wrong only when members have different learn_step (heterogeneous population / after an rl_hp mutation of learn_step) and a non-head member reaches the budget first", "missed by the first C20 version in both tiers (homogeneous learn_step); caught after adding the heterogeneous-learn_step family"),
 "C08-m3": ("C08", "TD3.soft_update rebinds target_param.data instead of copying in place: the target critics' encoders (detached views on the target actor's encoder when encoders are shared) stop following - two cooperating sites", ""),
 "C07-m3": ("C07", "OptimizerWrapper.load_state_dict overwrites the restored param-group lr with the wrapper's lr; together with load_checkpoint building the optimizer from the receiving agent's pre-load lr the saved learning rate is lost (in-place path, differing lr)", ""),
 "C02-m3": ("C02", "reinit_opt carries the old optimizer state over when shapes fit - which also restores the old learning rate; only after the agent has learnt at least once (learn -> clone -> lr mutation)", ""),
 "C19-m2": ("C19", "per-arm zero_grad() moved after reading the gradient: the loss gradients a preceding learn() leaves in .grad leak into arm 0's feature (learn immediately followed by get_action choosing arm 0)", "first reported as HARNESS-ERROR (the harness' in-place undo did not restore .grad, so re-execution diverged); the undo now restores .grad exactly and a diverging history is re-judged by the oracle before any harness error - now a VIOLATION"),
 "C04-m2": ("C04", "EvolvableMultiInput.get_inner_init_dict reads the constructor's configs instead of the live nested configs: after a nested extractor mutation a following add_latent_node ON THE SAME OBJECT (no clone in between) rebuilds the nested networks with their initial architecture", "missed by the first C03/C04 versions (every edge was clone-then-mutate); caught by both after adding in-place mutation pairs - which also exposed a genuine stale-bound-method defect on the unchanged tree (recorded as open finding)"),
}
for name, (prop, needs, note) in NEEDS.items():
    d = os.path.join(HERE, "seeded", name)
    if not os.path.isdir(d):
        print("missing", name); continue
    r = open(os.path.join(d, "result.txt")).read()
    rc = re.search(r"check_(\w+)_rc=(\d+)", r)
    keys = re.findall(r"violation key=([^:]+):", r)
    meta = {"name": name, "property": prop, "needs": needs,
            "demo_without_change_exit": int(re.search(r"demo_without=(\d+)", r).group(1)),
            "demo_with_change_exit": int(re.search(r"demo_with=(\d+)", r).group(1)),
            "ran": f"tools/try_seeded.sh {prop} <dir> {name} {rc.group(1) if rc else 'quick'} (scratch worktree of /repo HEAD + patch, demo with/without, VERIF_REPO=<worktree> ./check {prop})",
            "caught": (f"yes ({rc.group(1)})" if rc and rc.group(2) == "1" else "NO") + (f"; {note}" if note else ""),
            "key": keys[0] if keys else "", "all_keys": keys[:6],
            "tests_run_by_author": "see README.agent.md (relevant pinned test files; all passing ids still pass)"}
    tw = re.search(r"tests_selected=(\d+)\ntests_with: (.*)", r)
    if tw:
        meta["tests_rerun_with_change"] = f"{tw.group(1)} baseline (stable_pass) ids of the touched area selected: {tw.group(2).strip()}"
    json.dump(meta, open(os.path.join(d, "meta.json"), "w"), indent=1)
print("ok")
