#!/bin/bash
# usage: try_seeded.sh <PROPERTY> <dir with patch.diff demo.py> <name> [tier]
# TESTS="tests/x.py ..." (optional) also runs these pinned test files in the patched worktree.
# Applies the patch in a scratch worktree of /repo HEAD, runs the demo with/without, runs ./check against it.
P=$1; SRC=$2; NAME=$3; TIER=${4:-quick}
WT=/var/tmp/vf/wt/seed_$NAME
OUT=/verif/seeded/$NAME
mkdir -p $OUT
git -C /repo worktree remove --force $WT >/dev/null 2>&1
git -C /repo worktree add --detach $WT HEAD >/dev/null 2>&1 || { echo "worktree failed"; exit 2; }
cp $SRC/patch.diff $OUT/patch.diff; cp $SRC/demo.py $OUT/demo.py 2>/dev/null; cp $SRC/README.md $OUT/README.agent.md 2>/dev/null
cd $WT
( PYTHONPATH=$WT timeout 900 /venv/bin/python $OUT/demo.py >/dev/null 2>&1; echo "demo_without=$?" ) > $OUT/result.txt
if ! git apply $OUT/patch.diff 2>>$OUT/result.txt; then echo "apply=FAILED" >> $OUT/result.txt; cat $OUT/result.txt; git -C /repo worktree remove --force $WT; exit 3; fi
( PYTHONPATH=$WT timeout 900 /venv/bin/python $OUT/demo.py >/dev/null 2>&1; echo "demo_with=$?" ) >> $OUT/result.txt
if [ -n "$TESTS" ]; then
  # only the node ids of BASELINE.json's stable_pass that live in the named test files
  for f in $TESTS; do grep "^$f::" /verif/tools/baseline_ids.txt; done > /var/tmp/vf/ids_$NAME.txt
  ( echo "tests_selected=$(wc -l < /var/tmp/vf/ids_$NAME.txt)"; PYTHONPATH=$WT timeout 2400 /venv/bin/python -m pytest -q -p no:cacheprovider --timeout=600 -n 4 @/var/tmp/vf/ids_$NAME.txt 2>&1 | tail -1 | sed 's/^/tests_with: /' ) >> $OUT/result.txt
  rm -f /var/tmp/vf/ids_$NAME.txt
fi
cd /verif
VERIF_REPO=$WT VERIF_SKIP_DET=1 ./check $P --tier $TIER --no-evidence > $OUT/check_$TIER.log 2>&1
echo "check_${TIER}_rc=$?" >> $OUT/result.txt
grep -E "violation key" $OUT/check_$TIER.log | cut -c1-200 | head -5 >> $OUT/result.txt
git -C /repo worktree remove --force $WT >/dev/null 2>&1
rm -rf /verif/replays/$P
cat $OUT/result.txt
