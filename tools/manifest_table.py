HOOK_COMMITS = []
NOTES = ("All checks run the real AgileRL code from /repo's working tree (editable install) under /venv/bin/python; "
         "model checking = exhaustive enumeration of stated finite spaces (state graphs, histories, lattices, fault plans). "
         "known_findings.json lists genuine defects (open/fixed). See DESIGN.md.")
NOT_APPLICABLE = {}

reg("C09", "stategraph", "model_checking", "explicit-state BFS to closure on the real buffers vs deque reference",
    "All reachable canonical states (cursor,size,ages) of ReplayBuffer/MultiAgentReplayBuffer for small capacities and every observation kind are explored to closure; every transition is executed on the real buffer and compared with a deque(maxlen=N) reference, so any cursor/width/wrap combination that loses, duplicates or mixes transitions is found.",
    "bounded capacity (<=5 quick, <=8 thorough), float32 CPU tensors; behaviour assumed independent of absolute serial numbers (age canonicalisation)", "B/C09")
