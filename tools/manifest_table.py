HOOK_COMMITS = []
NOTES = ("All checks run the real AgileRL code from /repo's working tree (editable install) under /venv/bin/python; "
         "model checking = exhaustive enumeration of stated finite spaces (state graphs, histories, lattices, fault plans). "
         "known_findings.json lists genuine defects (open/fixed). See DESIGN.md.")
NOT_APPLICABLE = {}

reg("C09", "stategraph", "model_checking", "explicit-state BFS to closure on the real buffers vs deque reference",
    "All reachable canonical states (cursor,size,ages) of ReplayBuffer/MultiAgentReplayBuffer for small capacities and every observation kind are explored to closure; every transition is executed on the real buffer and compared with a deque(maxlen=N) reference, so any cursor/width/wrap combination that loses, duplicates or mixes transitions is found.",
    "bounded capacity (<=5 quick, <=8 thorough), float32 CPU tensors; behaviour assumed independent of absolute serial numbers (age canonicalisation)", "B/C09")

reg("C10", "stategraph", "model_checking", "explicit-state BFS over all done-vector streams on the real n-step + 1-step buffers vs episode-aware reference",
    "Every stream of done vectors up to the stated length (closure of the canonical state graph for small capacities) is fed to the real MultiStepReplayBuffer with a 1-step buffer alongside; each stored row is decoded (rewards are powers of two, so the sum names the summed steps) and must be an admissible episode-respecting n-step transition aligned with the 1-step row.",
    "n<=3/4, envs<=2/3, gamma in {1,0.5,(0.99)}, capacity in {3,(4),64}; CPU float32", "B/C10")
reg("C11", "stategraph", "model_checking", "explicit-state BFS over add/update_priorities with per-state exhaustive scripted stratified draws",
    "From the empty, full and wrapped buffer every add/update sequence up to the stated depth (closure for capacity<=2) is executed on the real PrioritizedReplayBuffer; in each new state tree invariants, the retrieval function at all breakpoints and sample() for every batch size and every scripted stratum draw (ends included) are compared with a direct computation over the stored priorities.",
    "capacity<=5/7, priorities from a 6-value menu (1e-9..1e6), draws {0,2^-24,0.5,1-2^-24}; tolerance 8 ulp of total mass at breakpoints", "B/C11")
