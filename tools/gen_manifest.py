#!/usr/bin/env python3
"""Regenerates /verif/MANIFEST.json from the table below (keeps it schema-valid at all times)."""
import json, os, subprocess, sys

HERE = os.path.dirname(os.path.dirname(os.path.abspath(__file__)))

ENGINES = {
    "stategraph": ("mcx/stategraph.py", "explicit-state BFS over an operation alphabet on the real object (canonical-state dedup, oracle on every transition); used with mcx/fixtures/archgraph.py for C03/C04"),
    "histories": ("mcx/fixtures/agentops.py", "stateless exhaustive enumeration of bounded operation histories on real agents (enumeration loops live in the property modules; shared ops/fingerprints in agentops.py, hpo.py)"),
    "lattice": ("mcx/props", "exhaustive Cartesian product of small alphabets incl. scripted random draws (mcx/rand.py), independent reference functions; loops live in the property modules"),
    "protocol": ("mcx/fixtures/procrun.py", "explicit-state protocol/reference model; every model trace replayed on the real AsyncPettingZooVecEnv in a forked trace process (scriptenv.py: turn gate + fault plans, watchdog + deadlock detector)"),
    "configs": ("mcx/fixtures/countenv.py", "exhaustive configuration lattice for whole training loops on counting environments with an accounting reference"),
}

# id -> (engine, level, technique, level text, level note, design ref)
CHECKS = {}

def reg(pid, engine, level, technique, text, note, ref):
    CHECKS[pid] = (engine, level, technique, text, note, ref)

exec(open(os.path.join(HERE, "tools", "manifest_table.py")).read())

def main():
    props = [json.loads(l)["id"] for l in open(os.path.join(HERE, "properties.jsonl"))]
    hooks_commits = HOOK_COMMITS
    checks = []
    for pid in props:
        if pid not in CHECKS:
            continue
        engine, level, technique, text, note, ref = CHECKS[pid]
        checks.append({
            "property_id": pid,
            "quick_cmd": f"./check {pid} --tier quick",
            "thorough_cmd": f"./check {pid} --tier thorough",
            "evidence_file": f"/verif/evidence/{pid}.json",
            "replay_cmd_template": f"./check {pid} --replay {{path}}",
            "engine": engine,
            "level_claimed": {"category": level, "text": text, "design_ref": ref},
            "level_note": note,
            "technique": technique,
        })
    man = {
        "version": 1,
        "setup_cmd": "./setup.sh",
        "hooks": {
            "guard": "AGILERL_VERIF",
            "enable": "export AGILERL_VERIF=1 (done by ./check); AgileRL is an editable install, nothing is rebuilt",
            "baseline_off_cmd": "cd /repo && env -u AGILERL_VERIF /venv/bin/python -m pytest -ra -q -p no:cacheprovider --timeout=900 --continue-on-collection-errors",
            "source_commits": hooks_commits,
            "add_only": True,
        },
        "engines": [
            {"name": n, "path": p, "serves_properties": [c["property_id"] for c in checks if c["engine"] == n], "kind_free_text": k}
            for n, (p, k) in ENGINES.items() if any(c["engine"] == n for c in checks)
        ],
        "checks": checks,
        "notes": NOTES,
        "not_applicable": [{"property_id": pid, "reason": NOT_APPLICABLE.get(pid, "check not built yet in this tree; no claim is made")} for pid in props if pid not in CHECKS],
    }
    with open(os.path.join(HERE, "MANIFEST.json"), "w") as f:
        json.dump(man, f, indent=1)
    print("wrote MANIFEST.json with", len(checks), "checks")

main()
