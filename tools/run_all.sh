#!/bin/bash
# runs every check's quick (or $1) tier sequentially; prints one summary line per check
tier=${1:-quick}
cd "$(dirname "$0")/.."
for i in 09 10 11 05 06 18 16 15 14 17 19 03 04 12 13 01 02 07 08 20; do
  s=$(date +%s)
  ./check C$i --tier $tier > /var/tmp/vf/run_C$i.$tier.log 2>&1
  rc=$?
  echo "C$i rc=$rc $(($(date +%s)-s))s $(grep -c '^VIOLATION' /var/tmp/vf/run_C$i.$tier.log) new, $(grep -c '^KNOWN-FINDING' /var/tmp/vf/run_C$i.$tier.log) known :: $(tail -1 /var/tmp/vf/run_C$i.$tier.log | cut -c1-200)"
done
