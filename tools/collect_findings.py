#!/usr/bin/env python3
"""Development helper: turn the VIOLATION keys of run logs into candidate known_findings entries (status=open).
Never used at check time. usage: collect_findings.py <log> [<log> ...]  (prints JSON entries to stdout)"""
import json, re, sys
out = []
for path in sys.argv[1:]:
    prop = re.search(r"run_(C\d+)\.", path).group(1)
    lines = open(path).read().splitlines()
    for i, l in enumerate(lines):
        m = re.match(r"\s+violation key=(.+?): (.*)", l)
        if m:
            rp = None
            if i + 1 < len(lines):
                m2 = re.match(r"VIOLATION property=\S+ replay=(\S+)", lines[i + 1])
                if m2:
                    try:
                        rp = json.load(open(m2.group(1)))["task"]
                    except Exception:
                        rp = None
            out.append({"property": prop, "key": m.group(1), "status": "open", "what": m.group(2)[:300], "replay_task": rp})
            continue
        k = re.match(r"KNOWN-FINDING: property=\S+ (.*) \[key=(.+) replay=(\S+)\]$", l)
        if k:
            what = k.group(1)
            what = what.split(" [first failing case: ", 1)[1].rstrip("]") if " [first failing case: " in what else what
            try:
                rp = json.load(open("/verif/" + k.group(3)))["task"]
            except Exception:
                rp = None
            out.append({"property": prop, "key": k.group(2), "status": "open", "what": what[:300], "replay_task": rp})
print(json.dumps(out, indent=1, default=str))
