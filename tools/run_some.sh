#!/bin/bash
# usage: run_some.sh <tier> C15 C20 ...   (sequential; one summary line per check; logs in /var/tmp/vf)
tier=$1; shift
cd "$(dirname "$0")/.."
for c in "$@"; do
  s=$(date +%s)
  ./check $c --tier $tier > /var/tmp/vf/run_$c.$tier.log 2>&1
  rc=$?
  echo "$c rc=$rc $(($(date +%s)-s))s $(grep -c '^VIOLATION' /var/tmp/vf/run_$c.$tier.log) new, $(grep -c '^KNOWN-FINDING' /var/tmp/vf/run_$c.$tier.log) known :: $(tail -1 /var/tmp/vf/run_$c.$tier.log | cut -c1-200)"
done
