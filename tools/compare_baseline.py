#!/usr/bin/env python3
"""compare a junit xml of the pinned suite with BASELINE.json's stable_pass list"""
import json, sys, xml.etree.ElementTree as ET
base = set(json.load(open('/root/.vp/BASELINE.json'))['stable_pass'])
root = ET.parse(sys.argv[1]).getroot()
passed, failed = set(), set()
for tc in root.iter('testcase'):
    name = f"{tc.get('classname')}::{tc.get('name')}"
    bad = any(ch.tag in ('failure', 'error', 'skipped') for ch in tc)
    (failed if bad else passed).add(name)
missing = sorted(base - passed)
print(f"baseline={len(base)} passed_now={len(passed)} failed_now={len(failed)} baseline_not_passing={len(missing)} newly_passing={len(passed-base)}")
for m in missing[:40]:
    print("  MISSING", m)
sys.exit(1 if missing else 0)
