"""Read locals of chosen functions of the library under test WITHOUT editing it.

`LocalsAtReturn` is a context manager that is inert for every frame except frames whose code
object is one of the registered targets (e.g. `PPO.learn`, `IPPO._learn_individual`).  For a
target frame it deep-copies the requested locals

  * at the frame's normal 'return' event (default; a frame that is left by an exception is not a
    capture point), or
  * just before the unique source line of the function matching the regex `at_line` executes —
    needed when the names of interest are rebound later in the function (the mini-batch loop).

Two interchangeable backends:

  * "settrace":   `sys.settrace` global tracer that returns a local tracer only for target code
                   objects (portable; costs one Python call per function call of the whole program);
  * "monitoring": PEP 669 `sys.monitoring` *local* events on the target code objects only (Python
                   >= 3.12, where `sys.settrace` itself is a layer over it) — no cost elsewhere.

`backend="auto"` uses "monitoring" when available; `VERIF_TRACE_BACKEND=settrace` forces the
portable one.  Both only *read* frames; nothing in /repo is edited, wrapped or replaced.

The reader never raises into the traced code.  A lost seam (requested local missing, marker line
not found / ambiguous, marker line never executed on a normal return) is recorded and turned into
`HarnessError` when the `with` block is left normally or when `.snaps` / `.take()` is used — it can
never look like a property violation.
"""
from __future__ import annotations

import inspect
import os
import re
import sys

from .core import HarnessError


def _copy(v):
    import numpy as np
    import torch

    if isinstance(v, torch.Tensor):
        return v.detach().clone()
    if isinstance(v, np.ndarray):
        return v.copy()
    if isinstance(v, tuple):
        return tuple(_copy(x) for x in v)
    if isinstance(v, list):
        return [_copy(x) for x in v]
    if isinstance(v, dict):
        return {k: _copy(x) for k, x in v.items()}
    return v


def _plain(fn):
    fn = getattr(fn, "__func__", fn)
    n = 0
    while hasattr(fn, "__wrapped__") and n < 8:
        fn = fn.__wrapped__
        n += 1
    if getattr(fn, "__code__", None) is None:
        raise HarnessError(f"trace target {fn!r} has no code object")
    return fn


def marker_line(fn, regex):
    """Absolute line number of the unique source line of `fn` matching `regex`."""
    fn = _plain(fn)
    try:
        lines, start = inspect.getsourcelines(fn)
    except (OSError, TypeError) as e:
        raise HarnessError(f"cannot read source of {fn!r}: {e}")
    rx = re.compile(regex)
    hits = [start + i for i, ln in enumerate(lines) if rx.search(ln)]
    if len(hits) != 1:
        raise HarnessError(f"marker {regex!r} matches {len(hits)} lines of {fn.__qualname__} (need exactly 1)")
    return hits[0]


class LocalsAtReturn:
    """`targets`: {function: [local names]}.  `.snaps` is the list (execution order) of
    {"fn": qualname, "locals": {name: deep copy}}; `.take()` returns and clears it."""

    def __init__(self, targets, at_line=None, optional=(), backend="auto"):
        self.targets = {}
        self.optional = set(optional)
        for fn, names in targets.items():
            f = _plain(fn)
            line = marker_line(f, at_line) if at_line else None
            self.targets[f.__code__] = (f.__qualname__, list(names), line)
        if backend == "auto":
            backend = os.environ.get("VERIF_TRACE_BACKEND") or ("monitoring" if hasattr(sys, "monitoring") else "settrace")
        if backend not in ("settrace", "monitoring"):
            raise HarnessError(f"unknown trace backend {backend!r}")
        if backend == "monitoring" and not hasattr(sys, "monitoring"):
            raise HarnessError("sys.monitoring not available on this interpreter")
        self.backend = backend
        self._snaps = []
        self.errors = []
        self.activations = 0
        self._old = None
        self._state = {}
        self._tool = None

    # -- common ----------------------------------------------------------------------------
    def _snap(self, frame, t):
        loc = frame.f_locals
        out = {}
        for n in t[1]:
            if n not in loc:
                if n not in self.optional:
                    self.errors.append(f"local {n!r} missing in {t[0]} at capture point (line {frame.f_lineno})")
                continue
            try:
                out[n] = _copy(loc[n])
            except Exception as e:  # copying must never disturb the traced code
                self.errors.append(f"cannot copy local {n!r} of {t[0]}: {e!r}")
        self._snaps.append({"fn": t[0], "locals": out})

    # -- backend: sys.settrace ---------------------------------------------------------------
    def _global(self, frame, event, arg):
        if event != "call":
            return None
        t = self.targets.get(frame.f_code)
        if t is None:
            return None
        self.activations += 1
        if t[2] is None:
            frame.f_trace_lines = False
        return self._local

    def _local(self, frame, event, arg):
        t = self.targets.get(frame.f_code)
        if t is None:
            return None
        k = id(frame)
        if event == "line":
            if t[2] is not None and frame.f_lineno == t[2] and k not in self._state:
                self._state[k] = "captured"
                self._snap(frame, t)
                frame.f_trace_lines = False
        elif event == "exception":
            if self._state.get(k) != "captured":
                self._state[k] = "exception"
        elif event == "return":
            st = self._state.pop(k, None)
            if t[2] is None:
                if st != "exception":
                    self._snap(frame, t)
            elif st is None:
                self.errors.append(f"{t[0]} returned without executing the marker line {t[2]}")
        return self._local

    # -- backend: sys.monitoring -------------------------------------------------------------
    def _on_line(self, code, line):
        t = self.targets.get(code)
        if t is None or line != t[2]:
            return sys.monitoring.DISABLE
        frame = sys._getframe(1)
        if frame.f_code is not code:
            self.errors.append(f"monitoring callback could not locate the frame of {t[0]}")
            return None
        self._state[id(frame)] = "captured"
        self._snap(frame, t)
        return None

    def _on_start(self, code, offset):
        if code in self.targets:
            self.activations += 1
        return None

    def _on_return(self, code, offset, retval):
        t = self.targets.get(code)
        if t is None:
            return None
        frame = sys._getframe(1)
        if frame.f_code is not code:
            self.errors.append(f"monitoring callback could not locate the frame of {t[0]}")
            return None
        if t[2] is None:
            self._snap(frame, t)
        elif self._state.pop(id(frame), None) is None:
            self.errors.append(f"{t[0]} returned without executing the marker line {t[2]}")
        return None

    # -- context ---------------------------------------------------------------------------
    def __enter__(self):
        if self.backend == "settrace":
            self._old = sys.gettrace()
            sys.settrace(self._global)
            return self
        mon = sys.monitoring
        for tool in (4, 3, 5):
            if mon.get_tool(tool) is None:
                break
        else:
            raise HarnessError("no free sys.monitoring tool id")
        self._tool = tool
        mon.use_tool_id(tool, "mcx.trace")
        ev = mon.events
        mon.register_callback(tool, ev.PY_START, self._on_start)
        mon.register_callback(tool, ev.PY_RETURN, self._on_return)
        mon.register_callback(tool, ev.LINE, self._on_line)
        for code, t in self.targets.items():
            mon.set_local_events(tool, code, ev.PY_START | ev.PY_RETURN | (ev.LINE if t[2] is not None else 0))
        mon.restart_events()
        return self

    def __exit__(self, et, ev_, tb):
        if self.backend == "settrace":
            sys.settrace(self._old)
        else:
            mon = sys.monitoring
            for code in self.targets:
                mon.set_local_events(self._tool, code, 0)
            for e in (mon.events.PY_START, mon.events.PY_RETURN, mon.events.LINE):
                mon.register_callback(self._tool, e, None)
            mon.free_tool_id(self._tool)
            self._tool = None
        if et is None and self.errors:
            raise HarnessError("tracer seam lost: " + "; ".join(self.errors[:3]))
        return False

    def _check(self):
        if self.errors:
            raise HarnessError("tracer seam lost: " + "; ".join(self.errors[:3]))

    @property
    def snaps(self):
        self._check()
        return self._snaps

    def take(self):
        self._check()
        s, self._snaps = self._snaps, []
        return s
