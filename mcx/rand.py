"""Scripted random sources: every draw the property quantifies over becomes an enumerated
environment answer; an unscripted draw in enumerate mode is a harness error."""
from __future__ import annotations

import contextlib

from .core import HarnessError


@contextlib.contextmanager
def patched(obj, name, new):
    old = getattr(obj, name)
    setattr(obj, name, new)
    try:
        yield
    finally:
        setattr(obj, name, old)


@contextlib.contextmanager
def patched_many(items):
    """items: iterable of (obj, name, new)"""
    with contextlib.ExitStack() as st:
        for obj, name, new in items:
            st.enter_context(patched(obj, name, new))
        yield


class Script:
    """A finite list of answers handed out in order; records how many were consumed."""

    def __init__(self, answers, strict=True, name="draw"):
        self.answers = list(answers)
        self.i = 0
        self.strict = strict
        self.name = name
        self.calls = []

    def next(self, *call):
        self.calls.append(call)
        if self.i >= len(self.answers):
            if self.strict:
                raise HarnessError(f"unscripted {self.name} draw #{self.i} call={call}")
            self.i += 1
            return self.answers[-1]
        a = self.answers[self.i]
        self.i += 1
        return a

    @property
    def consumed(self):
        return self.i


@contextlib.contextmanager
def seeded(seed):
    """Pin every global RNG the library uses; restore afterwards."""
    import random

    import numpy as np
    import torch

    st_t = torch.get_rng_state()
    st_n = np.random.get_state()
    st_r = random.getstate()
    torch.manual_seed(seed)
    np.random.seed(seed % (2**32))
    random.seed(seed)
    try:
        yield
    finally:
        torch.set_rng_state(st_t)
        np.random.set_state(st_n)
        random.setstate(st_r)
