"""Common machinery: partial results, worker pool (fork after import), evidence, findings.

Every property module (mcx.props.cXX) exposes

    LEVEL        : evidence level string
    RULE         : how cases are enumerated / what is counted as non-trivial
    ASSUMPTIONS  : list[str]
    tasks(tier, seed) -> list[dict]      JSON-able task descriptors (each a finite sub-space)
    run_task(task)    -> Partial         exhaustive exploration of that sub-space on the real code
    bounds(tier)      -> dict            stated bounds, stored in the evidence

A *violation* carries a key (where and how it fails), a text, and a replay descriptor which is
itself a task (usually a single point of the space) so that `--replay` re-executes it through
run_task with no exploration around it.
"""
from __future__ import annotations

import hashlib
import json
import os
import sys
import time
import traceback
from collections import Counter

VERIF = os.path.dirname(os.path.dirname(os.path.abspath(__file__)))


class HarnessError(Exception):
    """The harness lost control (seam missing, unscripted draw ...). Never a property verdict."""


def jhash(obj) -> str:
    return hashlib.sha1(json.dumps(obj, sort_keys=True, default=str).encode()).hexdigest()[:12]


class Partial:
    """Result of exploring one task. Mergeable."""

    MAX_SAMPLES = 4
    MAX_VIOL_PER_KEY = 3

    def __init__(self):
        self.evaluations = 0          # executions of real code judged by the oracle
        self.states = 0               # distinct canonical states (stategraph engines)
        self.transitions = 0          # transitions executed on the real object
        self.traces = 0               # complete traces/histories replayed on the implementation
        self.nontrivial = set()       # distinct non-trivial case tags
        self.outcomes = set()         # distinct observed outcome tags
        self.samples = []
        self.violations = []          # dicts: key, what, replay
        self.caps = []
        self.extra = Counter()
        self.closed = True            # stategraph closure reached (no cap)
        self.digest = hashlib.sha1()

    # -- recording -------------------------------------------------------------------------
    def viol(self, key: str, what: str, replay: dict, observed=None, expected=None):
        n = sum(1 for v in self.violations if v["key"] == key)
        self.extra["violating_cases"] += 1
        if n >= self.MAX_VIOL_PER_KEY:
            return
        self.violations.append(
            {"key": key, "what": what, "replay": replay, "observed": observed, "expected": expected}
        )

    def sample(self, s):
        if len(self.samples) < self.MAX_SAMPLES:
            self.samples.append(s)

    def nt(self, tag):
        self.nontrivial.add(tag if isinstance(tag, str) else json.dumps(tag, default=str))

    def out(self, tag):
        self.outcomes.add(tag if isinstance(tag, str) else json.dumps(tag, default=str))

    def dg(self, *objs):
        for o in objs:
            self.digest.update(repr(o).encode())

    # -- transport -------------------------------------------------------------------------
    def pack(self):
        d = dict(self.__dict__)
        d["digest"] = self.digest.hexdigest()
        d["nontrivial"] = sorted(self.nontrivial)
        d["outcomes"] = sorted(self.outcomes)
        d["extra"] = dict(self.extra)
        return d


class Merged:
    def __init__(self):
        self.evaluations = self.states = self.transitions = self.traces = 0
        self.nontrivial, self.outcomes = set(), set()
        self.samples, self.violations, self.caps = [], [], []
        self.extra = Counter()
        self.closed = True
        self.digests = []
        self.harness_errors = []

    def add(self, d):
        if "harness_error" in d:
            self.harness_errors.append(d["harness_error"])
            return
        self.evaluations += d["evaluations"]
        self.states += d["states"]
        self.transitions += d["transitions"]
        self.traces += d["traces"]
        self.nontrivial.update(d["nontrivial"])
        self.outcomes.update(d["outcomes"])
        for s in d["samples"]:
            if len(self.samples) < 5:
                self.samples.append(s)
        for v in d["violations"]:
            if "worker_history" in d:
                v = dict(v, _history=d["worker_history"], _task=d["worker_task"])
            self.violations.append(v)
        self.caps.extend(d["caps"])
        self.extra.update(d["extra"])
        self.closed = self.closed and d["closed"]
        self.digests.append(d["digest"])


# ------------------------------------------------------------------------------------------
# pool

_MOD = None
_HISTORY = []     # tasks this worker process has executed so far (attached to a violation: see cli "history-dependent")


def _init_worker():
    import torch

    del _HISTORY[:]

    torch.set_num_threads(1)
    try:
        import gc

        gc.freeze()
    except Exception:
        pass


def _exec(task):
    try:
        p = _MOD.run_task(task)
        d = p.pack()
        if d.get("violations"):
            # the executions this process ran before: a library that keeps module-level state across independent
            # executions can make a violation depend on them; the runner replays them when the task alone does not fail
            d["worker_history"] = list(_HISTORY)
            d["worker_task"] = task
        _HISTORY.append(task)
        return d
    except HarnessError as e:
        return {"harness_error": f"{task!r}: {e}"}
    except Exception:
        return {"harness_error": f"{task!r}: unexpected exception in harness\n{traceback.format_exc()}"}


def run_tasks(mod, tasks, procs=None, order_by_cost=True):
    """Run tasks over a forked pool (the parent has already imported agilerl)."""
    global _MOD
    _MOD = mod
    import multiprocessing as mp

    procs = procs or min(16, os.cpu_count() or 1, max(1, len(tasks)))
    if os.environ.get("VERIF_PROCS"):
        procs = int(os.environ["VERIF_PROCS"])
    merged = Merged()
    if procs == 1 or len(tasks) == 1:
        _init_worker()
        for t in tasks:
            merged.add(_exec(t))
        return merged
    ctx = mp.get_context("fork")
    if order_by_cost:
        tasks = sorted(tasks, key=lambda t: -t.get("_cost", 1))
    with ctx.Pool(procs, initializer=_init_worker, maxtasksperchild=getattr(mod, "MAXTASKS", None)) as pool:
        for d in pool.imap_unordered(_exec, tasks, chunksize=getattr(mod, "CHUNK", 1)):
            merged.add(d)
    return merged


def run_history(mod, history, task):
    """Re-execute `history` then `task`, in that order, in ONE freshly forked worker (same start state as a pool worker)."""
    global _MOD
    _MOD = mod
    import multiprocessing as mp

    merged = Merged()
    with mp.get_context("fork").Pool(1, initializer=_init_worker) as pool:
        seq = list(history) + [task]
        for k, t in enumerate(seq):
            d = pool.apply(_exec, (t,))
            if k == len(seq) - 1:
                merged.add(d)
    return merged


# ------------------------------------------------------------------------------------------
# findings

def load_findings():
    path = os.path.join(VERIF, "known_findings.json")
    if not os.path.exists(path):
        return []
    with open(path) as f:
        return json.load(f)["findings"]


def write_replay(prop, v, seed):
    d = os.path.join(VERIF, "replays", prop)
    os.makedirs(d, exist_ok=True)
    name = "".join(c if c.isalnum() or c in "-_." else "_" for c in v["key"])[:80] + "-" + jhash(v["replay"])
    path = os.path.join(d, name + ".json")
    with open(path, "w") as f:
        json.dump(
            {
                "property": prop,
                "key": v["key"],
                "what": v["what"],
                "seed": seed,
                "task": v["replay"],
                "history": v.get("_history_used"),
                "observed": v.get("observed"),
                "expected": v.get("expected"),
            },
            f,
            indent=1,
            default=str,
        )
    return path


def write_evidence(prop, mod, tier, seed, merged, wall, n_viol, n_known, extra_cov=None):
    level = mod.LEVEL
    cov = {
        "evaluations": int(merged.evaluations),
        "distinct_nontrivial": len(merged.nontrivial),
        "distinct_outcomes": len(merged.outcomes),
        "rule": mod.RULE,
        "samples": merged.samples[:5] or ["<none>"],
        "exhaustive": bool(merged.closed and not merged.caps),
        "bounds": mod.bounds(tier),
        "caps_hit": merged.caps,
        "violating_cases": int(merged.extra.get("violating_cases", 0)),
        "known_findings_reported": n_known,
        "counters": {k: int(v) for k, v in sorted(merged.extra.items())},
    }
    if level == "model_checking":
        cov["states"] = int(max(merged.states, 1))
        cov["transitions"] = int(max(merged.transitions, 1))
        cov["traces_validated_against_impl"] = int(merged.traces)
    if extra_cov:
        cov.update(extra_cov)
    ev = {
        "property_id": prop,
        "tier": tier,
        "seed": seed,
        "level": level,
        "coverage": cov,
        "assumptions": list(mod.ASSUMPTIONS),
        "wall_s": round(wall, 2),
        "violations": n_viol,
    }
    os.makedirs(os.path.join(VERIF, "evidence"), exist_ok=True)
    path = os.path.join(VERIF, "evidence", f"{prop}.json")
    tmp = path + ".tmp"
    with open(tmp, "w") as f:
        json.dump(ev, f, indent=1, default=str)
    os.replace(tmp, path)
    return path
