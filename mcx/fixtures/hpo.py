"""Tiny real populations for the HPO checks (C05 tournament selection, C06 RL-hyperparameter mutation).

Everything is built through the library's own entry point `agilerl.utils.utils.create_population`
(the function every training script uses), so the way one `HyperparameterConfig` object is shared by
the members of an initial population is the library's, not the harness's.
"""
from __future__ import annotations

import numpy as np
import torch
from gymnasium import spaces
from tensordict import TensorDict

from agilerl.algorithms.core.registry import HyperparameterConfig, RLParameter
from agilerl.algorithms.core.wrappers import OptimizerWrapper
from agilerl.utils.utils import create_population

from ..core import HarnessError
from ..rand import seeded

SINGLE = ["DQN", "RainbowDQN", "CQN", "DDPG", "TD3", "PPO", "NeuralUCB", "NeuralTS"]
MULTI = ["MADDPG", "MATD3", "IPPO"]
ALGOS = SINGLE + MULTI
ACTOR_CRITIC = ("DDPG", "TD3", "MADDPG", "MATD3")          # algorithms with lr_actor / lr_critic
CP_NAME = {"RainbowDQN": "Rainbow DQN"}                      # create_population's spelling
AGENT_IDS = ["agent_0", "agent_1"]

# the hyper-parameter ranges handed to the library (the harness keeps these literals as its reference)
HP_SPEC = {
    "lr": dict(min=1e-4, max=1e-2, shrink_factor=0.8, grow_factor=1.2, dtype="float"),
    "lr_actor": dict(min=1e-4, max=1e-2, shrink_factor=0.8, grow_factor=1.2, dtype="float"),
    "lr_critic": dict(min=1e-4, max=1e-2, shrink_factor=0.5, grow_factor=2.0, dtype="float"),
    "batch_size": dict(min=2, max=16, shrink_factor=0.8, grow_factor=1.2, dtype="int"),
    "learn_step": dict(min=1, max=8, shrink_factor=0.75, grow_factor=1.5, dtype="int"),
}


def hp_names(algo):
    if algo in ACTOR_CRITIC:
        return ["lr_actor", "lr_critic", "batch_size", "learn_step"]
    return ["lr", "batch_size", "learn_step"]


def new_hp_config(algo):
    kw = {}
    for n in hp_names(algo):
        s = HP_SPEC[n]
        kw[n] = RLParameter(min=s["min"], max=s["max"], shrink_factor=s["shrink_factor"], grow_factor=s["grow_factor"],
                            dtype=float if s["dtype"] == "float" else int)
    return HyperparameterConfig(**kw)


def obs_space():
    return spaces.Box(-1.0, 1.0, (4,), dtype=np.float32)


def action_space(algo):
    if algo in ACTOR_CRITIC:
        return spaces.Box(-1.0, 1.0, (2,), dtype=np.float32)
    return spaces.Discrete(3)


def net_config(algo):
    h = 16 if algo == "RainbowDQN" else 8
    return {"latent_dim": 8, "encoder_config": {"hidden_size": [h]}, "head_config": {"hidden_size": [h]}}


def init_hp(algo, values):
    """INIT_HP dictionary for create_population. `values`: {hp name: current value}"""
    d = {"BATCH_SIZE": values.get("batch_size", 4), "LEARN_STEP": values.get("learn_step", 4)}
    if algo in ACTOR_CRITIC:
        d["LR_ACTOR"] = values.get("lr_actor", 1e-3)
        d["LR_CRITIC"] = values.get("lr_critic", 2e-3)
    else:
        d["LR"] = values.get("lr", 1e-3)
    if algo in MULTI:
        d["AGENT_IDS"] = list(AGENT_IDS)
    if algo == "RainbowDQN":
        d.update(NUM_ATOMS=5, V_MIN=-2.0, V_MAX=2.0, N_STEP=3)
    if algo in ("PPO", "IPPO"):
        d.update(GAMMA=0.99, GAE_LAMBDA=0.95, ACTION_STD_INIT=0.6, CLIP_COEF=0.2, ENT_COEF=0.01, VF_COEF=0.5,
                 MAX_GRAD_NORM=0.5, TARGET_KL=None, UPDATE_EPOCHS=1)
    return d


def build(algo, values, hp_config, size=1, seed=0):
    """`size` agents through the real create_population, all handed the same `hp_config` object."""
    if algo in MULTI:
        osp = [obs_space() for _ in AGENT_IDS]
        asp = [action_space(algo) for _ in AGENT_IDS]
    else:
        osp, asp = obs_space(), action_space(algo)
    with seeded(seed):
        pop = create_population(CP_NAME.get(algo, algo), osp, asp, net_config(algo), init_hp(algo, values),
                                hp_config=hp_config, population_size=size, device="cpu")
    if len(pop) != size or any(type(a).__name__ != algo for a in pop):
        raise HarnessError(f"create_population({algo}) returned {[type(a).__name__ for a in pop]}")
    return pop


def optimizers_of(agent):
    """{attribute name: OptimizerWrapper} for every optimizer the agent holds"""
    return {k: v for k, v in vars(agent).items() if isinstance(v, OptimizerWrapper)}


def torch_optimizers(wrapper):
    o = wrapper.optimizer
    return list(o) if isinstance(o, (list, tuple)) else [o]


def lr_of_optimizer_attr(algo, attr):
    """Independent table (by the documented meaning of the constructor arguments): which learning-rate
    argument governs the optimizer stored under `attr`."""
    if algo in ACTOR_CRITIC:
        if attr.startswith("actor"):
            return "lr_actor"
        if attr.startswith("critic"):
            return "lr_critic"
        raise HarnessError(f"unknown optimizer attribute {algo}.{attr}")
    return "lr"


# ------------------------------------------------------------------------------------------ learn batches (C05 fidelity layer)
def learn_once(agent, seed=0):
    """One real learn step so that optimizer state (Adam moments) exists."""
    algo = type(agent).__name__
    rng = np.random.default_rng(100 + seed)
    B = 4
    o = lambda n=B: torch.as_tensor(rng.uniform(-1, 1, size=(n, 4)).astype(np.float32))
    with seeded(seed):
        if algo == "DQN":
            td = TensorDict({"obs": o(), "action": torch.as_tensor(rng.integers(0, 3, size=(B, 1)).astype(np.float32)),
                             "reward": torch.as_tensor(rng.uniform(-1, 1, size=(B, 1)).astype(np.float32)),
                             "next_obs": o(), "done": torch.as_tensor((np.arange(B) % 2).astype(np.float32)).reshape(B, 1)},
                            batch_size=[B])
            agent.learn(td)
        elif algo == "PPO":
            T = 8
            exp = (o(T).numpy(), rng.integers(0, 3, size=(T,)).astype(np.int64), rng.uniform(-2, -0.1, size=(T,)).astype(np.float32),
                   rng.uniform(-1, 1, size=(T,)).astype(np.float32), (np.arange(T) % 4 == 3).astype(np.float32),
                   rng.uniform(-1, 1, size=(T,)).astype(np.float32), o(1).numpy()[0], np.float32(0.0))
            agent.learn(exp)
        elif algo == "MADDPG":
            pa = lambda f: {a: f(i) for i, a in enumerate(AGENT_IDS)}
            exp = (pa(lambda i: o()), pa(lambda i: torch.as_tensor(rng.uniform(-1, 1, size=(B, 2)).astype(np.float32))),
                   pa(lambda i: torch.as_tensor(rng.uniform(-1, 1, size=(B, 1)).astype(np.float32))), pa(lambda i: o()),
                   pa(lambda i: torch.as_tensor((np.arange(B) % 2).astype(np.float32)).reshape(B, 1)))
            agent.learn(exp)
        else:
            raise HarnessError(f"no learn batch for {algo}")
    if not any(len(t.state) for w in optimizers_of(agent).values() for t in torch_optimizers(w)):
        raise HarnessError(f"{algo}: learn step left every optimizer without state")


# ------------------------------------------------------------------------------------------ full agent state (C05 fidelity layer)
_SCALAR = (int, float, str, bool, type(None), np.integer, np.floating, np.bool_)


def _is_plain(v):
    if isinstance(v, _SCALAR):
        return True
    if isinstance(v, (list, tuple)):
        return all(_is_plain(x) for x in v)
    if isinstance(v, dict):
        return all(isinstance(k, str) and _is_plain(x) for k, x in v.items())
    return False


def agent_state(agent):
    """Everything observable that makes up an individual, as {name: python value | tensor}.
    Prefixes: attr: (plain attributes incl. fitness/scores/steps lists), arch: (module repr), net: (parameters and
    buffers), td: (TensorDict attributes),
    opt: (optimizer state tensors and param_group settings), reg: (registered hyper-parameter ranges and caches)."""
    from tensordict import TensorDictBase

    st = {"attr:<class>": type(agent).__name__}
    for name, v in vars(agent).items():
        mods = None
        if isinstance(v, torch.nn.Module):
            mods = [v]
        elif isinstance(v, list) and v and all(isinstance(m, torch.nn.Module) for m in v):
            mods = v
        if mods is not None:
            for i, m in enumerate(mods):
                st[f"arch:{name}[{i}]"] = repr(m)
                for k, t in list(m.named_parameters()) + list(m.named_buffers()):
                    st[f"net:{name}[{i}]:{k}"] = t
            continue
        if isinstance(v, OptimizerWrapper):
            for i, o in enumerate(torch_optimizers(v)):
                for gi, g in enumerate(o.param_groups):
                    for k, x in g.items():
                        if k != "params":
                            st[f"opt:{name}[{i}]:group{gi}:{k}"] = x if _is_plain(x) else repr(x)
                    for pi, prm in enumerate(g["params"]):
                        for k, x in o.state.get(prm, {}).items():
                            st[f"opt:{name}[{i}]:state:g{gi}p{pi}:{k}"] = x
            continue
        if isinstance(v, TensorDictBase):
            for k, t in v.items(True, True):
                st[f"td:{name}:{k if isinstance(k, str) else '.'.join(k)}"] = t
            continue
        if isinstance(v, torch.Tensor):
            st[f"attr:{name}"] = v
        elif isinstance(v, np.ndarray):
            st[f"attr:{name}"] = torch.as_tensor(v)
        elif _is_plain(v):
            st[f"attr:{name}"] = v
    for n, par in agent.registry.hp_config.items():
        st[f"reg:{n}"] = (par.min, par.max, par.shrink_factor, par.grow_factor, par.dtype.__name__, par.value)
    return st


def state_equal(a, b):
    if isinstance(a, torch.Tensor) or isinstance(b, torch.Tensor):
        return isinstance(a, torch.Tensor) and isinstance(b, torch.Tensor) and a.shape == b.shape and a.dtype == b.dtype and bool(torch.equal(a, b))
    return type(a) is type(b) and a == b or (isinstance(a, (int, float)) and isinstance(b, (int, float)) and a == b)


def state_digest(st):
    import hashlib

    h = hashlib.sha1()
    for k in sorted(st):
        v = st[k]
        h.update(k.encode())
        if isinstance(v, torch.Tensor):
            h.update(str((tuple(v.shape), str(v.dtype))).encode())
            h.update(v.detach().cpu().contiguous().numpy().tobytes())
        else:
            h.update(repr(v).encode())
    return h.hexdigest()


def storages(st):
    """{storage pointer: first name} of every non-empty tensor of a state"""
    out = {}
    for k, v in st.items():
        if isinstance(v, torch.Tensor) and v.numel() > 0:
            out.setdefault(v.untyped_storage().data_ptr(), k)
    return out
