"""ScriptEnv — a deterministic, fully scripted PettingZoo ParallelEnv (shared by C12 and C13).

Every value the environment returns is a pure function of

    (env id, agent index, episode number, step-in-episode t, last action letter, seed code,
     "the action arrived with the declared shape/dtype" flag)

so that a comparison with N independent sequential copies identifies *which* sub-environment,
episode and step a returned value belongs to.

Schedule control (only in copies living inside vec-env worker processes, never in reference copies):

* `Gate`  : a turn gate on `step`. Sub-env i returns from its k-th `step` only when the shared counter
            reaches its position in the completion order chosen for step k; it then passes the turn.
            A faulting worker passes the turn *before* it faults and switches the gate off for the rest of
            the trace (a dead worker can never take its turn again).
* faults  : list of {"env": j, "cmd": "reset"|"step"|"call"|"setattr", "occ": k (1-based, k-th command of
            that kind executed by sub-env j), "kind": "ValueError"|"RuntimeError"|"KeyError"|"sleep"|"kill",
            "sleep": seconds}.  "kill" = SIGKILL of the own (worker) process inside the command.
"""
from __future__ import annotations

import os
import signal
import time

import numpy as np
from gymnasium import spaces
from pettingzoo import ParallelEnv

FEATS = 7                              # env, agent, episode, t, action letter code, seed code, action-shape-ok
RADIX = [4, 3, 16, 4, 3, 14, 2]
NDISC = int(np.prod(RADIX))
OBS_KINDS = ["vec", "img", "disc", "mdisc", "dict", "tuple"]
ACT_KINDS = ["disc", "box2", "box1"]
END_MODES = ["term", "trunc", "mixed"]
BOX_LETTERS = [0.25, 0.75]
EXC = {"ValueError": ValueError, "RuntimeError": RuntimeError, "KeyError": KeyError}


class GateError(Exception):
    """the turn gate timed out: the harness lost control of the schedule (never a property verdict)"""


class Gate:
    """orders: list (cycled over the step number) of completion orders (list of env ids, first = completes first) or
    None (= that step is free-running)."""

    def __init__(self, ctx, n_envs, orders, patience=10.0):
        self.n = n_envs
        self.orders = orders
        self.turn = ctx.Value("i", 0)
        self.off = ctx.Value("i", 0)
        self.patience = patience
        self.owner_pid = os.getpid()          # the process that builds the vec env (its dummy env lives there)

    def _order(self, k):
        return self.orders[k % len(self.orders)] if self.orders else None

    def _ticket(self, env_id, k):
        base = sum(self.n for j in range(k) if self._order(j) is not None)
        return base + self._order(k).index(env_id)

    def enter(self, env_id, k):
        """block until it is env_id's turn in step k; returns True if a turn is held"""
        if self.off.value or self._order(k) is None:
            return False
        ticket = self._ticket(env_id, k)
        end = time.monotonic() + self.patience
        while self.turn.value != ticket:
            if self.off.value:
                return False
            if time.monotonic() > end:
                raise GateError(f"gate: env {env_id} step {k} waited {self.patience}s for ticket {ticket}, turn={self.turn.value}")
            time.sleep(0.0002)
        return True

    def leave(self):
        with self.turn.get_lock():
            self.turn.value += 1

    def switch_off(self):
        self.off.value = 1


def seed_code(seed):
    return 0 if seed is None else (int(seed) % 13) + 1


def make_obs_space(kind, agent_idx):
    vec = spaces.Box(-np.inf, np.inf, (FEATS + agent_idx,), np.float32)   # per-agent width differs on purpose
    img = spaces.Box(0, 255, (2, 4, 1), np.uint8)
    disc = spaces.Discrete(NDISC)
    mdisc = spaces.MultiDiscrete(RADIX)
    if kind == "vec":
        return vec
    if kind == "img":
        return img
    if kind == "disc":
        return disc
    if kind == "mdisc":
        return mdisc
    if kind == "dict":
        return spaces.Dict({"img": img, "k": disc, "vec": vec})
    if kind == "tuple":
        return spaces.Tuple((vec, disc, mdisc))
    raise ValueError(kind)


def make_act_space(kind):
    if kind == "disc":
        return spaces.Discrete(2)
    if kind == "box2":
        return spaces.Box(0.0, 1.0, (2,), np.float32)
    if kind == "box1":
        return spaces.Box(0.0, 1.0, (1,), np.float32)
    raise ValueError(kind)


def action_value(kind, letter):
    """the action a caller sends for the letter in {0,1}"""
    if kind == "disc":
        return int(letter)
    x = BOX_LETTERS[letter]
    if kind == "box2":
        return np.array([x, 1.0 - x], dtype=np.float32)
    return np.array([x], dtype=np.float32)


def encode_obs(kind, agent_idx, feat):
    f = [int(x) for x in feat]
    vec = np.array(f + [agent_idx] * agent_idx, dtype=np.float32) * np.float32(0.25)
    img = np.array(f + [sum(f) % 251], dtype=np.uint8).reshape(2, 4, 1)
    code = 0
    for x, r in zip(f, RADIX):
        code = code * r + x
    mdisc = np.array(f, dtype=np.int64)
    if kind == "vec":
        return vec
    if kind == "img":
        return img
    if kind == "disc":
        return int(code)
    if kind == "mdisc":
        return mdisc
    if kind == "dict":
        return {"img": img, "k": int(code), "vec": vec}
    if kind == "tuple":
        return (vec, int(code), mdisc)
    raise ValueError(kind)


class ScriptEnv(ParallelEnv):
    metadata = {"name": "script_v0", "render_modes": []}
    render_mode = None

    def __init__(self, env_id, n_agents=2, obs_kind="vec", act_kind="disc", length=2, end="term", leave=False,
                 gate=None, faults=None, hang_sleep=1.5, linger=0.0):
        self.env_id = int(env_id)
        self.n_agents = int(n_agents)
        self.obs_kind, self.act_kind = obs_kind, act_kind
        self.length, self.end, self.leave = int(length), end, int(leave)   # 0 none, 1 / 2 = agent_0 leaves 1 / 2 steps before the end
        self.possible_agents = [f"agent_{a}" for a in range(self.n_agents)]
        self._obs_spaces = {ag: make_obs_space(obs_kind, a) for a, ag in enumerate(self.possible_agents)}
        self._act_spaces = {ag: make_act_space(act_kind) for ag in self.possible_agents}
        self.gate = gate
        self.faults = [f for f in (faults or []) if f["env"] == self.env_id]
        self.hang_sleep = hang_sleep
        # linger > 0 (C13): a worker takes `linger` seconds to go away, both on env.close() and on SIGTERM, so that
        # "close() returned while a worker was still alive" (missing join) is a deterministic observation, not a race
        self.linger = float(linger)
        self._in_worker = gate is not None and os.getpid() != gate.owner_pid
        if self._in_worker and self.linger > 0:
            signal.signal(signal.SIGTERM, self._on_term)
        self._count = {"reset": 0, "step": 0, "call": 0, "setattr": 0}
        self._knob = 0
        # usable before the first reset (episode 0, as if reset(seed=None) had been called)
        self.episode = 0
        self.t = 0
        self.seedc = 0
        self.agents = list(self.possible_agents)
        self.last_feat = {}

    # -- spaces ----------------------------------------------------------------------------
    def observation_space(self, agent):
        return self._obs_spaces[agent]

    def action_space(self, agent):
        return self._act_spaces[agent]

    # -- scripted faults -------------------------------------------------------------------
    def _fault(self, cmd, holding_turn=False):
        self._count[cmd] += 1
        for f in self.faults:
            if f["cmd"] == cmd and f["occ"] == self._count[cmd]:
                if self.gate is not None:
                    self.gate.switch_off()
                    if holding_turn:
                        self.gate.leave()
                kind = f["kind"]
                if kind == "kill":
                    os.kill(os.getpid(), signal.SIGKILL)
                    time.sleep(60)
                elif kind == "sleep":
                    time.sleep(f.get("sleep", self.hang_sleep))
                    return True
                else:
                    raise EXC[kind](f"scripted fault env={self.env_id} {cmd}#{self._count[cmd]}")
        return False

    # -- values ----------------------------------------------------------------------------
    def _feat(self, a, letter_code, ok):
        return [self.env_id, a, self.episode, self.t, letter_code, self.seedc, int(ok)]

    def obs_for(self, a, feat):
        return encode_obs(self.obs_kind, a, feat)

    @staticmethod
    def reward_of(feat):
        e, a, ep, t, lc, sc, ok = feat
        return float(((e * 3 + a) * 16 + ep) * 4 + t) + 0.25 * lc + 0.125

    @staticmethod
    def step_info_of(feat):
        e, a, ep, t, lc, sc, ok = feat
        d = {"code": int((((e * 3 + a) * 16 + ep) * 4 + t) * 3 + lc), "half": 0.5 * t + 0.25}
        if t % 2 == 1:
            d["odd"] = int(t)
        return d

    @staticmethod
    def reset_info_of(feat):
        e, a, ep, t, lc, sc, ok = feat
        return {"ep": int(ep), "seedc": int(sc), "who": int(e * 3 + a)}

    def _decode_action(self, agent, action):
        """-> (letter code 1|2, arrived-in-declared-space flag)"""
        sp = self._act_spaces[agent]
        if self.act_kind == "disc":
            ok = isinstance(action, (int, np.integer)) or (isinstance(action, np.ndarray) and action.shape == () and action.dtype.kind in "iu")
            letter = int(np.asarray(action).reshape(-1)[0])
        else:
            arr = np.asarray(action)
            ok = isinstance(action, np.ndarray) and arr.shape == sp.shape and bool(sp.contains(arr.astype(np.float32)))
            x = float(arr.reshape(-1)[0])
            letter = int(np.argmin([abs(x - v) for v in BOX_LETTERS]))
            if abs(x - BOX_LETTERS[letter]) > 1e-6:
                raise AssertionError(f"ScriptEnv: action {action!r} is not a scripted letter")
            if self.act_kind == "box2" and arr.size == 2 and abs(float(arr.reshape(-1)[1]) - (1.0 - x)) > 1e-6:
                raise AssertionError(f"ScriptEnv: second action component corrupted: {action!r}")
        if letter not in (0, 1):
            raise AssertionError(f"ScriptEnv: action {action!r} outside the alphabet")
        return letter + 1, ok

    # -- ParallelEnv API -------------------------------------------------------------------
    def reset(self, seed=None, options=None):
        self._fault("reset")
        self.episode += 1
        self.t = 0
        self.seedc = seed_code(seed)
        self.agents = list(self.possible_agents)
        obs, info = {}, {}
        self.last_feat = {}
        for a, ag in enumerate(self.possible_agents):
            feat = self._feat(a, 0, 1)
            self.last_feat[ag] = feat
            obs[ag] = self.obs_for(a, feat)
            info[ag] = self.reset_info_of(feat)
        return obs, info

    def _leave_step(self):
        # agent_0 leaves `leave` steps before the end (only meaningful with >=2 agents and length > leave). With leave=2 there is
        # a step in which agent_0 is absent and NO auto-reset follows in the same worker command (per-agent state kept across
        # steps inside the worker is only visible then).
        return self.length - self.leave if (self.leave and self.n_agents >= 2 and self.length > self.leave) else None

    def step(self, actions):
        k = self._count["step"]
        held = self.gate.enter(self.env_id, k) if self.gate is not None else False
        if self._fault("step", holding_turn=held):      # raise/kill do not return; all fired faults passed the turn already
            held = False
        try:
            if not self.agents:      # stepped after the episode ended without a reset: PettingZoo convention = empty dicts
                return {}, {}, {}, {}, {}
            self.t += 1
            obs, rew, term, trunc, info = {}, {}, {}, {}, {}
            self.last_feat = {}
            final = self.t >= self.length
            leave_now = (self._leave_step() == self.t)
            for a, ag in enumerate(self.possible_agents):
                if ag not in self.agents:
                    continue
                lc, ok = self._decode_action(ag, actions[ag])
                feat = self._feat(a, lc, ok)
                self.last_feat[ag] = feat
                obs[ag] = self.obs_for(a, feat)
                rew[ag] = self.reward_of(feat)
                info[ag] = self.step_info_of(feat)
                te = tr = False
                if final:
                    if self.end == "term":
                        te = True
                    elif self.end == "trunc":
                        tr = True
                    else:                                   # mixed: first live agent terminated, the others truncated
                        first_live = [x for x in self.possible_agents if x in self.agents][0]
                        te, tr = (ag == first_live), (ag != first_live)
                elif leave_now and a == 0:
                    te = True
                term[ag], trunc[ag] = te, tr
            self.agents = [ag for ag in self.agents if not (term[ag] or trunc[ag])]
            return obs, rew, term, trunc, info
        finally:
            if held:
                self.gate.leave()

    def _on_term(self, signum, frame):
        time.sleep(self.linger)
        os._exit(143)

    def close(self):
        if self._in_worker and self.linger > 0:
            time.sleep(self.linger)

    def render(self):
        return None

    def state(self):
        return np.zeros(1, dtype=np.float32)

    # -- remote call / attribute targets (C13) ---------------------------------------------
    def ping(self, x=0):
        self._fault("call")
        return (self.env_id, int(x))

    @property
    def knob(self):
        return self._knob

    @knob.setter
    def knob(self, v):
        self._fault("setattr")
        self._knob = v


def env_fn(env_id, **kw):
    def make():
        return ScriptEnv(env_id, **kw)

    return make
