"""C14 family 'ppo': PPO on Discrete / MultiDiscrete / MultiBinary / Box — stochastic actor, masks through the
distribution, clipping or squashing in evaluation mode. The sampling primitives of torch.distributions
(torch.multinomial / torch.bernoulli / torch.normal) are replaced by their inverse-CDF answer for a scripted variate."""
from __future__ import annotations

import itertools

import numpy as np
import torch

from agilerl.algorithms.ppo import PPO

from ..core import HarnessError
from ..rand import seeded
from . import c14_common as cm

DISC = ["D1", "D2", "D3", "D4", "MD23", "MB3"]


def disc_ids(tier):
    return DISC + (["D5"] if tier == "thorough" else [])


def sub_sizes(sid):
    if sid.startswith("D"):
        return [int(sid[1:])]
    if sid == "MD23":
        return [2, 3]
    if sid == "MB3":
        return [3]
    return None


def space_masks(sid):
    """all masks: every sub-distribution keeps >=1 action (MultiBinary: all 2^3 bit masks, a masked bit must stay 0)"""
    if sid == "MB3":
        return np.array(list(itertools.product((0, 1), repeat=3)), np.int64)
    parts = [cm.all_masks(k) for k in sub_sizes(sid)]
    return np.array([np.concatenate(c) for c in itertools.product(*parts)], np.int64)


def n_draws(sid):
    return {"MD23": 2, "MB3": 3}.get(sid, 1)


def bounds(tier):
    return {"algorithm": "PPO", "discrete_spaces": disc_ids(tier), "box_spaces": cm.BOX_IDS, "squash_output": [False, True], "training": [True, False],
            "W": {"discrete": "logits 5^flatdim x training x {None, all masks} x all uniform answers U^k (k sub-distributions / bits)",
                  "box": "mean 5^d x squash x training x Z^d"},
            "S": "obs kind x batch {unbatched,1,3} x training x masks (row i gets mask m+i) x logits (all for flatdim<=2; else " + ("tie, unique best/worst/contrast at every index, ramps" if tier == "thorough" else "tie, best-last, worst-first, ramps") + ") x draw scripts {const U[k], ramp}"}


def tasks(tier):
    out = []
    for sid in disc_ids(tier):
        nb = 5 ** sum(sub_sizes(sid))
        k = {"MD23": 12, "D4": 2, "D5": 12}.get(sid, 1)
        for c in range(k):
            out.append({"algo": "PPO", "space": sid, "mode": "W", "chunk": [c, k], "_cost": nb / k * 0.004})
        for kind in cm.OBS_KINDS:
            out.append({"algo": "PPO", "space": sid, "mode": "S", "obs": kind, "_cost": 2 * sum(sub_sizes(sid)) * (3 if tier == "thorough" else 1)})
    for sid in cm.BOX_IDS:
        out.append({"algo": "PPO", "space": sid, "mode": "W", "_cost": 0.3})
        for kind in cm.OBS_KINDS:
            out.append({"algo": "PPO", "space": sid, "mode": "S", "obs": kind, "_cost": 3})
    return out


_AGENTS = {}


def build(sid, kind, squash=False):
    key = (sid, kind, squash)
    if key not in _AGENTS:
        nc = cm.net_config(kind)
        if squash:
            nc["squash_output"] = True
        with seeded(0):
            _AGENTS[key] = PPO(cm.obs_space(kind), cm.action_space(sid), net_config=nc)
    return _AGENTS[key]


def out_layer(ag):
    hn = ag.actor.head_net
    inner = getattr(hn, "wrapped", None)
    if inner is None:
        raise HarnessError("StochasticActor head is not an EvolvableDistribution")
    return inner.get_output_dense()


def get_action_call(ag, obs, mask_arg):
    return ag.get_action(obs, action_mask=mask_arg)[0]


def sampler_patches(sid, Ud, Zd, R):
    """Ud: (R,k) uniform answers; Zd: (R,d) normal answers"""
    fakes = []
    if sid in cm.BOX_IDS:
        def fn(i, mean, std, *a, **k):
            return mean + std * torch.as_tensor(np.asarray(Zd, np.float32)).reshape(mean.shape)
        f = cm.Once("torch.normal", fn)
        fakes.append((f, 1))
        patches = [(torch, "normal", f), (torch, "multinomial", cm.forbid("torch.multinomial")), (torch, "bernoulli", cm.forbid("torch.bernoulli"))]
    elif sid == "MB3":
        def fb(i, probs, *a, **k):
            u = torch.as_tensor(np.asarray(Ud, np.float64)).reshape(probs.shape)
            return (u < probs.to(torch.float64)).to(probs.dtype)
        f = cm.Once("torch.bernoulli", fb)
        fakes.append((f, 1))
        patches = [(torch, "bernoulli", f), (torch, "multinomial", cm.forbid("torch.multinomial")), (torch, "normal", cm.forbid("torch.normal"))]
    else:
        k = n_draws(sid)

        def fm(i, probs, num_samples=1, replacement=False, **kw):
            if probs.shape[0] != R or num_samples != 1:
                raise HarnessError(f"multinomial called with probs {tuple(probs.shape)} num_samples {num_samples}")
            return cm.inv_cdf_multinomial(probs, np.asarray(Ud)[:, i]).reshape(R, 1)
        f = cm.Once("torch.multinomial", fm, max_calls=k)
        fakes.append((f, k))
        patches = [(torch, "multinomial", f), (torch, "bernoulli", cm.forbid("torch.bernoulli")), (torch, "normal", cm.forbid("torch.normal"))]
    patches += [(torch, "rand", cm.forbid("torch.rand")), (torch, "rand_like", cm.forbid("torch.rand_like")), (torch, "randn", cm.forbid("torch.randn")),
                (torch, "randn_like", cm.forbid("torch.randn_like"))]
    return patches, fakes


def judge_discrete(p, algo, sid, a, R, batch, M, logits, rp, tag, mode):
    """a: returned action array; M (R,flat) or None. Returns False when a violation stopped the judgement."""
    sizes = sub_sizes(sid)
    k = 3 if sid == "MB3" else len(sizes)
    a = np.asarray(a)
    ok_shape = a.size == R * k and (a.ndim == 0 and batch == "u" and k == 1 or (a.ndim >= 1 and (a.shape[0] == R or (batch == "u" and a.shape[0] == k))))
    if not ok_shape:
        p.viol(f"{algo}/get_action/batch-shape/{tag}", f"result shape {a.shape} for {R} observation row(s), {sid}", rp(0), observed=list(a.shape), expected=[R, k])
        return False
    a = a.reshape(R, k)
    if not np.all(a == np.round(a)):
        p.viol(f"{algo}/get_action/not-an-index/{tag}", f"non-integral action {a[0].tolist()} in {sid}", rp(0))
        return False
    a = a.astype(np.int64)
    if sid == "MB3":
        inr = (a >= 0) & (a <= 1)
        allowed_hit = np.ones_like(inr) if M is None else ~((M == 0) & (a == 1))
    else:
        hi = np.array(sizes)[None, :]
        inr = (a >= 0) & (a < hi)
    if not inr.all():
        r = int(np.argwhere(~inr)[0][0])
        p.viol(f"{algo}/get_action/{mode}/index-out-of-range/{tag}", f"row {r}: action {a[r].tolist()} outside {sid}", rp(r), observed=a[r].tolist())
        return False
    if sid != "MB3":
        if M is None:
            allowed_hit = np.ones((R, k), bool)
        else:
            offs = np.concatenate([[0], np.cumsum(sizes)[:-1]])
            allowed_hit = M[np.arange(R)[:, None], offs[None, :] + a] == 1
    if not allowed_hit.all():
        bad = np.where(~allowed_hit.any(1) | ~allowed_hit.all(1))[0]
        lg = np.asarray(logits, np.float64)
        groups = {}
        for r in bad:
            if sid == "MB3":
                g = "any"
            else:
                # discriminating input feature: some sub-distribution whose allowed logits are all -1e9
                offs = np.concatenate([[0], np.cumsum(sizes)])
                low = any(np.all(lg[offs[j]:offs[j + 1]][M[r, offs[j]:offs[j + 1]] == 1] <= -1e9) for j in range(len(sizes)) if not allowed_hit[r, j])
                g = "allowed-logits-all--1e9" if low else "other-logits"
            groups.setdefault(g, []).append(int(r))
        for g, rows in sorted(groups.items()):
            r = rows[0]
            p.viol(f"{algo}/get_action/masked-action-returned/{tag}/{g}", f"{sid} mask {M[r].tolist()} logits {list(logits)}: action {a[r].tolist()} returned ({mode})",
                   rp(r), observed=a[r].tolist())
            p.extra["violating_cases"] += len(rows) - 1
    if M is not None and sid != "MB3":
        lg = np.asarray(logits, np.float64)
        offs = np.concatenate([[0], np.cumsum(sizes)])
        for m in np.unique(M, axis=0):
            for j in range(len(sizes)):
                seg, ms = lg[offs[j]:offs[j + 1]], m[offs[j]:offs[j + 1]]
                if not np.any((seg == seg.max()) & (ms == 1)):
                    p.nt(f"{algo}|{sid}|m{''.join(map(str, m.tolist()))}|l{list(logits)}")
                    break
    elif M is not None:
        lg = np.asarray(logits, np.float64)
        for m in np.unique(M, axis=0):
            if np.any((m == 0) & (lg > 0)):
                p.nt(f"{algo}|{sid}|m{''.join(map(str, m.tolist()))}|l{list(logits)}")
    for row in np.unique(a, axis=0):
        p.out(f"{algo}|{sid}|a{row.tolist()}|{mode}")
    return True


def judge_box(p, algo, sid, a, R, batch, training, squash, pre, zrow, rp, mode, tagx=""):
    sp = cm.action_space(sid)
    d = sp.shape[0]
    a = np.asarray(a)
    ok_shape = a.size == R * d and a.ndim >= 1 and (a.shape[0] == R or (batch == "u" and a.shape[0] == d))
    sq = "squash" if squash else "clip"
    if not ok_shape:
        p.viol(f"{algo}/get_action/{mode}/batch-shape/box-{sq}{tagx}", f"result shape {a.shape} for {R} observation row(s), {sid}", rp(0), observed=list(a.shape), expected=[R, d])
        return False
    a = a.reshape(R, d).astype(np.float64)
    if training:
        for r in range(R):
            p.out(f"{algo}|{sid}|{mode}|{sq}|sampled")
        return True
    lo, hi = sp.low.astype(np.float64), sp.high.astype(np.float64)
    bad = ~((a >= lo) & (a <= hi))
    if bad.any():
        r = int(np.argwhere(bad)[0][0])
        from .c14_det import bclass
        for dimc in sorted({"dim0" if jj == 0 else "dim>0" for jj in np.where(bad.any(0))[0]}):
            p.viol(f"{algo}/get_action/eval/out-of-bounds/{sq}/{bclass(sid)}/{dimc}{tagx}",
                   f"{sid} low={lo.tolist()} high={hi.tolist()}: action {a[r].tolist()} (mean {list(pre)}, z={np.asarray(zrow[r]).tolist()})", rp(r),
                   observed=a[r].tolist(), expected={"low": lo.tolist(), "high": hi.tolist()})
        p.extra["violating_cases"] += int(bad.any(1).sum()) - 1
        return False
    for r in range(R):
        pat = "".join("L" if a[r, j] == lo[j] else "H" if a[r, j] == hi[j] else "i" for j in range(d))
        p.out(f"{algo}|{sid}|{mode}|{sq}|{pat}")
        if "L" in pat or "H" in pat:
            p.nt(f"{algo}|{sid}|{sq}|pre{list(pre)}|z{np.asarray(zrow[r]).tolist()}")
    return True


def execute(p, cfg, sid, kind, batch, logits, training, squash, M, Ud, Zd):
    R = 1 if batch == "u" else int(batch)
    ag = build(sid, kind, squash)
    cm.set_linear_out(out_layer(ag), logits)
    ag.set_training_mode(training)
    obs = cm.make_obs(kind, batch)
    mask_arg = None if M is None else (M[0].copy() if batch == "u" else M.copy())
    patches, fakes = sampler_patches(sid, Ud, Zd, R)
    mode = "training" if training else "eval"
    p.evaluations += 1
    p.extra["rows_judged"] += R

    def rp(r):
        small = batch in ("u", 1, 3)
        sel = (lambda x: None if x is None else (np.asarray(x).tolist() if small else [np.asarray(x)[r].tolist()]))
        return {**cfg, "point": {"obs": kind, "batch": batch if small else 1, "logits": list(map(float, logits)), "training": training, "squash": squash,
                                  "mask": sel(M), "u": sel(Ud), "z": sel(Zd)}}

    box = sid in cm.BOX_IDS
    tag = ("box" if box else {"D": "discrete", "M": "multidiscrete"}[sid[0]] if sid != "MB3" else "multibinary")
    try:
        with cm.scripted(patches):
            act = get_action_call(ag, obs, mask_arg)
    except HarnessError:
        raise
    except Exception as e:
        p.viol(f"PPO/get_action/exception/{type(e).__name__}/{cm.exc_slug(e)}", f"PPO.get_action raised {e!r} ({sid}, obs={kind}, batch={batch}, logits={list(logits)})", rp(0))
        return
    for f, want in fakes:
        if f.calls != want:
            raise HarnessError(f"PPO: {f.name} consumed {f.calls} times, expected {want}")
    p.digest.update(np.asarray(act).tobytes())
    if box:
        judge_box(p, "PPO", sid, act, R, batch, training, squash, logits, Zd, rp, mode)
    else:
        judge_discrete(p, "PPO", sid, act, R, batch, M, logits, rp, tag, mode)


def draw_scripts(k):
    s = [[u] * k for u in cm.U]
    if k > 1:
        s.append([cm.U[i % 4] for i in range(k)])
        s.append([cm.U[(k - 1 - i) % 4] for i in range(k)])
    return s


def run(task, p):
    sid = task["space"]
    cfg = {k: task[k] for k in task if k not in ("point", "_cost")}
    box = sid in cm.BOX_IDS
    if "point" in task:
        pt = task["point"]
        arr = lambda x: None if x is None else np.array(x)
        M = None if pt["mask"] is None else np.array(pt["mask"], np.int64)
        execute(p, cfg, sid, pt["obs"], pt["batch"], pt["logits"], pt["training"], pt["squash"], M, arr(pt["u"]), arr(pt["z"]))
        return
    if box:
        d = cm.action_space(sid).shape[0]
        pres = cm.bias_vectors(d).tolist()
        zc = np.array(list(itertools.product(cm.Z, repeat=d)))
        if task["mode"] == "W":
            for pre in pres:
                for squash in (False, True):
                    for training in (True, False):
                        execute(p, cfg, sid, "vec", len(zc), pre, training, squash, None, None, zc)
            p.sample({"algo": "PPO", "space": sid, "mode": "W", "means": len(pres), "normal_rows": zc.tolist()})
            return
        kind = task["obs"]
        for pre in pres:
            for squash in (False, True):
                for training in (True, False):
                    for batch in cm.BATCHES:
                        R = 1 if batch == "u" else batch
                        for j in range(len(zc)):
                            execute(p, cfg, sid, kind, batch, pre, training, squash, None, None, zc[[(j + i) % len(zc) for i in range(R)]])
        p.sample({"algo": "PPO", "space": sid, "mode": "S", "obs": kind})
        return
    # discrete kinds
    flat = sum(sub_sizes(sid))
    masks = space_masks(sid)
    k = n_draws(sid)
    if task["mode"] == "W":
        c, kk = task["chunk"]
        ls = cm.bias_vectors(flat)
        UK = np.array(list(itertools.product(cm.U, repeat=k)))
        mi, ui = np.meshgrid(np.arange(len(masks)), np.arange(len(UK)), indexing="ij")
        Mw, Uw = masks[mi.ravel()], UK[ui.ravel()]
        for li in range(c, len(ls), kk):
            lg = ls[li].tolist()
            for training in (True, False):
                execute(p, cfg, sid, "vec", len(Mw), lg, training, False, Mw, Uw, None)
                execute(p, cfg, sid, "vec", len(UK), lg, training, False, None, UK, None)
        p.sample({"algo": "PPO", "space": sid, "mode": "W", "chunk": [c, kk], "rows_per_masked_call": int(len(Mw)), "last_logits": lg})
        return
    kind = task["obs"]
    red = (cm.reduced_bias_vectors(flat) if flat <= 2 or task.get("tier") == "thorough" else cm.small_bias_vectors(flat)).tolist()
    scripts = draw_scripts(k)
    for lg in red:
        for training in (True, False):
            for batch in cm.BATCHES:
                R = 1 if batch == "u" else batch
                for m in [None] + list(range(len(masks))):
                    M = None if m is None else masks[[(m + i) % len(masks) for i in range(R)]]
                    for sc in scripts:
                        execute(p, cfg, sid, kind, batch, lg, training, False, M, np.tile(sc, (R, 1)), None)
    p.sample({"algo": "PPO", "space": sid, "mode": "S", "obs": kind, "logit_vectors": len(red), "draw_scripts": scripts})
