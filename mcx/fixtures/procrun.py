"""Run one trace in a forked child process (own process group) under a watchdog.

    res = run_trace(fn, spec, default_bound=8.0)

`fn(spec, emit)` runs in the child. It reports progress with `emit({"ev": "begin", "k": k, "call": name,
"bound": seconds})` before every call into AgileRL and `emit({"ev": "end", "k": k, ...})` after it; its return
value (JSON-able) becomes the result. The parent enforces the per-call wall bound between a "begin" and the next
event: when it expires the trace gets the verdict `hang` (with the call that hung) — the check itself never hangs.
A hang is also declared early (how="deadlock") when, during a call, EVERY live process of the trace's process group sits
in a blocking read()/wait() with an unchanged fingerprint and no CPU tick consumed for `deadlock_window` seconds: all
channels of a trace are internal to the group, so nobody is left who could ever wake anybody up.
Afterwards the parent SIGKILLs the child's whole process group (the vec-env workers are in that group) and reaps the
child. "No worker survives close()" is judged inside the child right after close() with `live_children()`.

Result dict: {"status": "ok"|"hang"|"crash", "events": [...], "result": ..., "hang": {"k","call","how"}, "wall": s}
`run_many` runs several trace children concurrently from one single-threaded event loop (traces that sleep or
deadlock cost wall time, not CPU).
"""
from __future__ import annotations

import json
import os
import select
import signal
import sys
import time
import traceback


def _pgid_members(pgid, exclude=()):
    """[(pid, state, comm)] of processes in group pgid (zombies included, state 'Z')"""
    out = []
    for d in os.listdir("/proc"):
        if not d.isdigit():
            continue
        pid = int(d)
        if pid in exclude:
            continue
        try:
            with open(f"/proc/{pid}/stat") as f:
                s = f.read()
        except OSError:
            continue
        r = s.rfind(")")
        comm = s[s.find("(") + 1:r]
        rest = s[r + 2:].split()
        state, pg = rest[0], int(rest[2])
        if pg == pgid:
            out.append((pid, state, comm))
    return out


BLOCKING = {0: "read", 61: "wait4", 247: "waitid"}      # x86_64 syscall numbers


def _group_blocked(pgid):
    """None if some process of the group can still make progress on its own; else a fingerprint
    ((pid, syscall, cpu ticks), ...) of a group in which EVERY live process sits in a blocking read()/wait() in its main
    thread. The pipes/sockets of a trace are only written by members of the group, so a group that shows the same
    fingerprint (same syscalls, no CPU tick consumed by any thread) for a whole window is deadlocked for good."""
    fp = []
    n = 0
    for pid, state, _ in _pgid_members(pgid):
        if state in ("Z", "X"):
            continue
        n += 1
        try:
            with open(f"/proc/{pid}/syscall") as f:
                sc = f.read().split()
            with open(f"/proc/{pid}/stat") as f:
                st = f.read()
        except OSError:
            return None
        if not sc or not sc[0].isdigit() or int(sc[0]) not in BLOCKING or state != "S":
            return None
        rest = st[st.rfind(")") + 2:].split()
        fp.append((pid, int(sc[0]), sc[1] if len(sc) > 1 else "", int(rest[11]) + int(rest[12])))
    return tuple(sorted(fp)) if n else None


def live_children(pid=None):
    """pids of non-zombie direct children of pid (default: this process)"""
    pid = pid or os.getpid()
    out = []
    for d in os.listdir("/proc"):
        if not d.isdigit():
            continue
        try:
            with open(f"/proc/{d}/stat") as f:
                s = f.read()
        except OSError:
            continue
        rest = s[s.rfind(")") + 2:].split()
        if int(rest[1]) == pid and rest[0] not in ("Z", "X"):
            out.append(int(d))
    return sorted(out)


def _child_main(fn, spec, wfd):
    try:
        os.setpgid(0, 0)
    except OSError:
        pass
    # the pool worker that forked us is a daemonic multiprocessing process; the trace child must be allowed children
    import multiprocessing as mp
    import multiprocessing.process as mpp

    try:
        mp.current_process()._config["daemon"] = False
        mpp._children.clear()
    except Exception:
        pass
    devnull = os.open(os.devnull, os.O_WRONLY)
    if not os.environ.get("VERIF_TRACE_STDERR"):
        os.dup2(devnull, 1)
        os.dup2(devnull, 2)
    w = os.fdopen(wfd, "w", buffering=1)

    def emit(obj):
        w.write(json.dumps(obj, default=str) + "\n")
        w.flush()

    code = 0
    try:
        res = fn(spec, emit)
        emit({"ev": "result", "result": res})
    except BaseException:
        try:
            emit({"ev": "crash", "trace": traceback.format_exc()})
        except Exception:
            pass
        code = 3
    finally:
        try:
            w.flush()
        except Exception:
            pass
        os._exit(code)


class _Trace:
    """one trace child + the parent-side watchdog state machine"""

    def __init__(self, fn, spec, default_bound, startup_bound, deadlock_window):
        self.default_bound, self.startup_bound, self.deadlock_window = default_bound, startup_bound, deadlock_window
        self.t0 = time.monotonic()
        rfd, wfd = os.pipe()
        sys.stdout.flush()
        sys.stderr.flush()
        pid = os.fork()
        if pid == 0:
            os.close(rfd)
            _child_main(fn, spec, wfd)
            os._exit(4)
        os.close(wfd)
        try:
            os.setpgid(pid, pid)
        except OSError:
            pass
        self.pid, self.rfd = pid, rfd
        self.events, self.result, self.status, self.hang = [], None, None, None
        self.buf = b""
        self.deadline = self.t0 + startup_bound
        self.pending = {"k": -1, "call": "<startup>"}
        self.in_call_since = None
        self.dl_fp, self.dl_since = None, None
        self.out = None

    def on_readable(self):
        self.dl_fp, self.dl_since = None, None
        chunk = os.read(self.rfd, 65536)
        if not chunk:
            self.status = "crash"
            return
        self.buf += chunk
        while b"\n" in self.buf:
            line, self.buf = self.buf.split(b"\n", 1)
            ev = json.loads(line)
            if ev["ev"] == "result":
                self.result, self.status = ev["result"], "ok"
            elif ev["ev"] == "crash":
                self.result, self.status = ev["trace"], "crash"
            else:
                self.events.append(ev)
                now = time.monotonic()
                if ev["ev"] == "begin":
                    self.pending = {"k": ev.get("k"), "call": ev.get("call")}
                    self.deadline = now + float(ev.get("bound", self.default_bound))
                    self.in_call_since = now
                else:
                    self.pending = {"k": ev.get("k"), "call": "<between calls>"}
                    self.deadline = now + self.startup_bound
                    self.in_call_since = None

    def tick(self):
        """called when nothing was readable for a moment"""
        now = time.monotonic()
        if now >= self.deadline:
            self.status, self.hang = "hang", dict(self.pending, how="watchdog")
            return
        if self.deadlock_window and self.in_call_since is not None and now - self.in_call_since > 0.25:
            fp = _group_blocked(self.pid)
            if fp is None or fp != self.dl_fp:
                self.dl_fp, self.dl_since = fp, now
            elif now - self.dl_since >= self.deadlock_window:
                self.status, self.hang = "hang", dict(self.pending, how="deadlock")

    def finish(self):
        os.close(self.rfd)
        if self.status == "ok":
            end = time.monotonic() + 5.0
            while time.monotonic() < end:          # let the child exit by itself
                try:
                    wp, _ = os.waitpid(self.pid, os.WNOHANG)
                except ChildProcessError:
                    wp = self.pid
                if wp == self.pid:
                    break
                time.sleep(0.001)
        try:
            os.killpg(self.pid, signal.SIGKILL)          # workers (and anything else the trace started) die with the group
        except (ProcessLookupError, PermissionError):
            pass
        try:
            os.kill(self.pid, signal.SIGKILL)
        except ProcessLookupError:
            pass
        try:
            os.waitpid(self.pid, 0)
        except ChildProcessError:
            pass
        self.out = {"status": self.status, "events": self.events, "result": self.result, "hang": self.hang,
                    "wall": time.monotonic() - self.t0}


def run_many(fn, specs, concurrency=1, default_bound=8.0, startup_bound=20.0, deadlock_window=1.0):
    """run every spec in its own trace child, at most `concurrency` at a time (single-threaded event loop);
    returns the result dicts in the order of `specs`"""
    specs = list(specs)
    results = [None] * len(specs)
    running = {}          # rfd -> (index, _Trace)
    nxt = 0
    while nxt < len(specs) or running:
        while nxt < len(specs) and len(running) < concurrency:
            t = _Trace(fn, specs[nxt], default_bound, startup_bound, deadlock_window)
            running[t.rfd] = (nxt, t)
            nxt += 1
        r, _, _ = select.select(list(running), [], [], 0.1)
        for fd in r:
            running[fd][1].on_readable()
        for fd, (i, t) in list(running.items()):
            if t.status is None and fd not in r:
                t.tick()
            if t.status is not None:
                del running[fd]
                t.finish()
                results[i] = t.out
    return results


def run_trace(fn, spec, default_bound=8.0, startup_bound=20.0, deadlock_window=1.0):
    return run_many(fn, [spec], 1, default_bound, startup_bound, deadlock_window)[0]
