"""C14 family 'bandit': NeuralUCB, NeuralTS. One context row per arm, one scalar score per arm.
Per-arm network outputs are an enumerated input through an identity path written into the real network
(mu_k = context_k[0]); the reference scores are computed independently in float64."""
from __future__ import annotations

import itertools

import numpy as np
import torch
from gymnasium import spaces

from agilerl.algorithms.neural_ts_bandit import NeuralTS
from agilerl.algorithms.neural_ucb_bandit import NeuralUCB

from ..core import HarnessError
from ..rand import seeded
from . import c14_common as cm

ALGOS = {"NeuralUCB": NeuralUCB, "NeuralTS": NeuralTS}
GAMMAS = [1e-9, 1.0]   # gamma must be > 0; 1e-9 = exploration bonus practically off
CTX = spaces.Box(-1e10, 1e10, (3,), np.float32)


def z_scripts(n, tier, full=False):
    """normal answers per arm. full Z^n for n<=2 (quick) / n<=3 (thorough); otherwise const -10/0/10 and the two ramps.
    thorough n=4 additionally runs the full Z^4 on the reduced output set (see run)"""
    if full or n <= 2 or (tier == "thorough" and n <= 3):
        return [list(z) for z in itertools.product(cm.Z, repeat=n)]
    s = [[z] * n for z in cm.Z]
    s.append([cm.Z[i % 3] for i in range(n)])
    s.append([cm.Z[(n - 1 - i) % 3] for i in range(n)])
    return s


def arms(algo, tier):
    return [1, 2, 3, 4] if tier == "thorough" or algo == "NeuralUCB" else [1, 2, 3]


def bounds(tier):
    return {"algorithms": list(ALGOS), "arms": {"NeuralUCB": [1, 2, 3, 4], "NeuralTS": arms("NeuralTS", tier)}, "gamma": GAMMAS, "lambda": 1.0,
            "W": "per-arm outputs VALS^n x {None, all masks} x gamma x (NeuralTS, gamma>0: normal answers Z^n" + ("" if tier == "thorough" else " for n<=3; n=4: const -10/0/10, ramp up, ramp down") + ")",
            "S": "context kind {vec,disc,img} x output bias in VALS (weight zeroed: all arms tie on mu) x masks x gamma x normal answers const; legality and masks only"}


def tasks(tier):
    out = []
    for algo in ALGOS:
        for n in arms(algo, tier):
            nz = len(z_scripts(n, tier)) if algo == "NeuralTS" else 1
            cost = (5 ** n) * (2 ** n) * ((1 + nz) if algo == "NeuralTS" else 2) * 0.0025   # ~seconds
            k = max(1, min(5 ** n, int(cost // 6) + 1))
            for c in range(k):
                out.append({"algo": algo, "n": n, "mode": "W", "chunk": [c, k], "_cost": cost / k})
            out.append({"algo": algo, "n": n, "mode": "S", "_cost": 10})
    return out


_AGENTS = {}


def build(algo, n, kind, gamma, identity):
    key = (algo, n, kind, gamma, identity)
    if key in _AGENTS:
        return _AGENTS[key]
    nc = cm.net_config(kind)
    nc["head_config"] = {"hidden_size": [4], "layer_norm": False}
    osp = CTX if identity else cm.obs_space(kind)
    with seeded(0):
        ag = ALGOS[algo](osp, spaces.Discrete(n), net_config=nc, gamma=gamma, lamb=1.0)
    if identity:
        sd = dict(ag.actor.named_parameters())
        want = {"encoder.model.encoder_linear_layer_1.weight": (4, 3), "encoder.model.encoder_linear_layer_1.bias": (4,),
                "encoder.model.encoder_linear_layer_output.weight": (8, 4), "encoder.model.encoder_linear_layer_output.bias": (8,),
                "head_net.model.value_linear_layer_1.weight": (4, 8), "head_net.model.value_linear_layer_1.bias": (4,),
                "head_net.model.value_linear_layer_output.weight": (1, 4), "head_net.model.value_linear_layer_output.bias": (1,)}
        if {k: tuple(v.shape) for k, v in sd.items()} != want:
            raise HarnessError(f"bandit network layout changed: { {k: tuple(v.shape) for k, v in sd.items()} }")
        with torch.no_grad():
            for v in sd.values():
                v.zero_()
            sd["encoder.model.encoder_linear_layer_1.weight"][0, 0] = 1.0
            sd["encoder.model.encoder_linear_layer_1.weight"][1, 0] = -1.0
            sd["encoder.model.encoder_linear_layer_output.weight"][0, 0] = 1.0
            sd["encoder.model.encoder_linear_layer_output.weight"][0, 1] = -1.0
            sd["head_net.model.value_linear_layer_1.weight"][0, 0] = 1.0
            sd["head_net.model.value_linear_layer_1.weight"][1, 0] = -1.0
            sd["head_net.model.value_linear_layer_output.weight"][0, 0] = 1.0
            sd["head_net.model.value_linear_layer_output.weight"][0, 1] = -1.0
        ag.init_params()   # theta_0 / exp_layer refer to the output layer
        # seam self-test: the real network reproduces the enumerated outputs exactly
        test = np.zeros((5, 3), np.float32)
        test[:, 0] = cm.VALS
        with torch.no_grad():
            got = ag.actor(ag.preprocess_observation(test)).reshape(-1).numpy()
        if not np.array_equal(got, np.asarray(cm.VALS, np.float32)):
            raise HarnessError(f"identity path broken: {got}")
    _AGENTS[key] = ag
    return ag


def execute(p, cfg, algo, n, kind, gamma, vals, bias, mask, z, identity):
    """identity: vals = per-arm outputs; otherwise weight-zeroed output layer with scalar bias"""
    ag = build(algo, n, kind, gamma, identity)
    if identity:
        obs = np.zeros((n, 3), np.float32)
        obs[:, 0] = np.asarray(vals, np.float32)
    else:
        cm.set_linear_out(ag.actor.head_net.get_output_dense(), [bias])
        ag.init_params()
        obs = cm.make_obs(kind, n)
    ag.sigma_inv = ag.lamb * torch.eye(ag.numel)
    zz = np.asarray(z if z is not None else [0.0] * n, np.float64)

    def fake_normal(i, mean=None, std=None, **k):
        return mean + std * torch.as_tensor(zz.astype(np.float32)).reshape(mean.shape)

    f = cm.Once("torch.normal", fake_normal)
    patches = [(torch, "normal", f), (torch, "randn", cm.forbid("torch.randn")), (torch, "randn_like", cm.forbid("torch.randn_like")),
               (torch, "rand", cm.forbid("torch.rand")), (np.random, "normal", cm.forbid("np.random.normal"))]
    M = None if mask is None else np.asarray(mask, np.int64)
    p.evaluations += 1
    p.extra["rows_judged"] += 1
    rp = {**cfg, "point": {"obs": kind, "gamma": gamma, "vals": None if vals is None else list(map(float, vals)), "bias": bias,
                            "mask": None if M is None else M.tolist(), "z": None if z is None else list(map(float, z)), "identity": identity}}
    try:
        with cm.scripted(patches):
            act = ag.get_action(obs, action_mask=None if M is None else M.copy())
    except HarnessError:
        raise
    except Exception as e:
        p.viol(f"{algo}/get_action/exception/{type(e).__name__}/{cm.exc_slug(e)}", f"{algo}.get_action raised {e!r} (arms={n}, ctx={kind})", rp)
        return
    if f.calls != (1 if algo == "NeuralTS" else 0):
        raise HarnessError(f"{algo}: torch.normal consumed {f.calls} times")
    a = np.asarray(act)
    p.digest.update(a.tobytes())
    if a.size != 1:
        p.viol(f"{algo}/get_action/batch-shape", f"result shape {a.shape}, expected one arm index", rp, observed=list(a.shape))
        return
    if not np.issubdtype(a.dtype, np.integer):
        p.viol(f"{algo}/get_action/not-an-index", f"dtype {a.dtype}", rp)
        return
    a = int(a.reshape(-1)[0])
    if not 0 <= a < n:
        p.viol(f"{algo}/get_action/index-out-of-range", f"arm {a} not in [0,{n})", rp, observed=a)
        return
    allowed = np.ones(n, bool) if M is None else M == 1
    p.out(f"{algo}|D{n}|a{a}|g{gamma}")
    if not allowed[a]:
        p.viol(f"{algo}/get_action/masked-action-returned", f"mask {M.tolist()} arm {a} returned (outputs {vals}, bias {bias}, gamma {gamma}, z {z})", rp,
               observed=a, expected=np.where(allowed)[0].tolist())
        return
    if not identity:
        return
    v = np.asarray(np.asarray(vals, np.float32), np.float64)
    width = gamma * np.sqrt(ag.lamb * (v * v + 1.0))
    if algo == "NeuralUCB":
        s = v + width
        err = 8 * 2.0 ** -24 * (np.abs(v) + width) + 1e-30
        judge = True
        kind_key = "gamma~0/not-best-allowed" if gamma < 1e-6 else "ucb-score/not-best-allowed"
    else:
        s = v + width * zz
        err = 8 * 2.0 ** -24 * (np.abs(v) + width * np.abs(zz)) + 1e-30
        judge = True   # the sampled score is the policy output; with z = 0 it is the network output itself
        kind_key = ("no-perturbation" if gamma < 1e-6 or not np.any(zz) else "sampled-score") + "/not-best-allowed"
    if judge:
        best_lo = np.max(np.where(allowed, s - err, -np.inf))
        if s[a] + err[a] < best_lo:
            p.viol(f"{algo}/get_action/{kind_key}", f"arm {a} (score {s[a]}) returned, best allowed score {np.max(s[allowed])} (outputs {list(vals)}, mask {None if M is None else M.tolist()}, gamma {gamma})",
                   rp, observed=a, expected=np.where(allowed & (s + err >= best_lo))[0].tolist())
    if M is not None and not np.any(allowed & (s == s.max())):
        p.nt(f"{algo}|D{n}|m{''.join(map(str, M.tolist()))}|v{list(vals)}|g{gamma}|z{None if z is None else list(z)}")


def run(task, p):
    algo, n = task["algo"], task["n"]
    tier = task.get("tier", "quick")
    cfg = {k: task[k] for k in task if k not in ("point", "_cost")}
    if "point" in task:
        pt = task["point"]
        execute(p, cfg, algo, n, pt["obs"], pt["gamma"], pt["vals"], pt["bias"], pt["mask"], pt["z"], pt["identity"])
        return
    masks = [None] + cm.all_masks(n).tolist()
    if task["mode"] == "W":
        c, k = task["chunk"]
        vs = cm.bias_vectors(n).tolist()
        zs = z_scripts(n, tier)
        for vi in range(c, len(vs), k):
            for m in masks:
                for gamma in GAMMAS:
                    if algo == "NeuralTS" and gamma > 1e-6:
                        for z in zs:
                            execute(p, cfg, algo, n, "vec", gamma, vs[vi], None, m, z, True)
                    else:
                        execute(p, cfg, algo, n, "vec", gamma, vs[vi], None, m, None, True)
        if algo == "NeuralTS" and tier == "thorough" and n == 4:
            red = cm.reduced_bias_vectors(n).tolist()
            zfull = z_scripts(n, tier, full=True)
            for vi2 in range(c, len(red), k):
                for m in masks:
                    for z in zfull:
                        execute(p, cfg, algo, n, "vec", 1.0, red[vi2], None, m, z, True)
        p.sample({"algo": algo, "arms": n, "mode": "W", "chunk": [c, k], "last_outputs": vs[vi], "z_scripts": len(zs) if algo == "NeuralTS" else 0})
        return
    for kind in cm.OBS_KINDS:
        for b in cm.VALS:
            for m in masks:
                for gamma in GAMMAS:
                    for z in ([[zc] * n for zc in cm.Z] if algo == "NeuralTS" and gamma > 1e-6 else [None]):
                        execute(p, cfg, algo, n, kind, gamma, None, b, m, z, False)
    p.sample({"algo": algo, "arms": n, "mode": "S", "context_kinds": cm.OBS_KINDS, "biases": cm.VALS})
