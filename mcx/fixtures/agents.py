"""Tiny real AgileRL agents + deterministic batches for every algorithm (shared by C01 C02 C07 C08 ...)."""
from __future__ import annotations

import copy

import numpy as np
import torch
from gymnasium import spaces
from tensordict import TensorDict

from agilerl.algorithms import CQN, DDPG, DQN, IPPO, MADDPG, MATD3, PPO, TD3, NeuralTS, NeuralUCB, RainbowDQN
from agilerl.algorithms.core.registry import HyperparameterConfig, RLParameter

from ..rand import seeded

SINGLE = ["DQN", "RainbowDQN", "CQN", "DDPG", "TD3", "PPO", "NeuralUCB", "NeuralTS"]
MULTI = ["MADDPG", "MATD3", "IPPO"]
ALGOS = SINGLE + MULTI
CLS = {c.__name__: c for c in (CQN, DDPG, DQN, IPPO, MADDPG, MATD3, PPO, TD3, NeuralTS, NeuralUCB, RainbowDQN)}
AGENT_IDS = ["agent_0", "agent_1"]

TUPLE_BATCH = ("CQN", "TD3")
OBS_KINDS = ["vector", "image", "dict", "tuple", "discrete"]


def kinds_for(algo):
    """observation families an algorithm's learn() accepts in the form its training loop provides"""
    if algo in ("NeuralUCB", "NeuralTS"):
        return ["vector", "image", "dict"]       # bandit contexts come from BanditEnv (arrays); no discrete/tuple contexts
    return list(OBS_KINDS)


def obs_space(kind):
    if kind == "vector":
        return spaces.Box(-1.0, 1.0, (4,), dtype=np.float32)
    if kind == "image":
        return spaces.Box(0, 255, (3, 8, 8), dtype=np.uint8)
    if kind == "dict":
        return spaces.Dict({"img": spaces.Box(0, 255, (3, 8, 8), dtype=np.uint8), "vec": spaces.Box(-1.0, 1.0, (3,), dtype=np.float32)})
    if kind == "tuple":
        return spaces.Tuple((spaces.Box(-1.0, 1.0, (3,), dtype=np.float32), spaces.Discrete(3)))
    if kind == "discrete":
        return spaces.Discrete(5)
    raise KeyError(kind)


def net_config(kind):
    # fresh list objects on every access: the library mutates hidden_size lists in place, configs must not alias
    mlp_ = lambda: {"activation": "ReLU", "hidden_size": [8], "min_mlp_nodes": 8, "max_mlp_nodes": 32, "min_hidden_layers": 1, "max_hidden_layers": 2}
    cnn_ = lambda: {"activation": "ReLU", "channel_size": [4], "kernel_size": [3], "stride_size": [2], "min_channel_size": 4, "max_channel_size": 8,
                    "min_hidden_layers": 1, "max_hidden_layers": 2}
    if kind in ("vector", "discrete"):
        enc = mlp_()
    elif kind == "image":
        enc = cnn_()
    elif kind == "dict":
        enc = {"latent_dim": 8, "min_latent_dim": 8, "max_latent_dim": 16, "cnn_config": cnn_()}
    else:
        enc = {"latent_dim": 8, "min_latent_dim": 8, "max_latent_dim": 16}
    return {"latent_dim": 8, "min_latent_dim": 8, "max_latent_dim": 16, "encoder_config": enc, "head_config": mlp_()}


def action_space(algo):
    if algo in ("DDPG", "TD3", "MADDPG", "MATD3"):
        return spaces.Box(-1.0, 1.0, (2,), dtype=np.float32)
    return spaces.Discrete(3)


def hp_config(algo):
    lr = lambda: RLParameter(min=1e-4, max=1e-2)
    if algo in ("DDPG", "TD3", "MADDPG", "MATD3"):
        return HyperparameterConfig(lr_actor=lr(), lr_critic=lr(), batch_size=RLParameter(min=2, max=16, dtype=int),
                                    learn_step=RLParameter(min=1, max=8, dtype=int, grow_factor=1.5, shrink_factor=0.75))
    return HyperparameterConfig(lr=lr(), batch_size=RLParameter(min=2, max=16, dtype=int),
                                learn_step=RLParameter(min=1, max=8, dtype=int, grow_factor=1.5, shrink_factor=0.75))


def make_agent(algo, kind="vector", seed=0, index=0, **kw):
    """Build a tiny real agent. kw overrides constructor args (e.g. share_encoders, double, tau, gamma)."""
    cls = CLS[algo]
    args = dict(net_config=net_config(kind), batch_size=4, index=index, hp_config=hp_config(algo))
    if algo in MULTI:
        osp = [obs_space(kind) for _ in AGENT_IDS]
        asp = [action_space(algo) for _ in AGENT_IDS]
        pos = (osp, asp, list(AGENT_IDS))
    else:
        pos = (obs_space(kind), action_space(algo))
    if algo in ("PPO", "IPPO"):
        args.update(update_epochs=1, learn_step=8)
    if algo == "RainbowDQN":
        # RainbowDQN rebuilds head_config from hidden_size alone with the default node bounds (min 16)
        args["net_config"]["head_config"] = {"hidden_size": [16]}
        args.update(num_atoms=5, v_min=-2.0, v_max=2.0, n_step=3)
    args.update(kw)
    with seeded(seed):
        return cls(*pos, **args)


# ------------------------------------------------------------------------------------------ observations / batches
def sample_obs(space, n, rng):
    """n observations (stacked, leading dim n) from a gymnasium space, deterministic given rng"""
    if isinstance(space, spaces.Dict):
        return {k: sample_obs(s, n, rng) for k, s in space.spaces.items()}
    if isinstance(space, spaces.Tuple):
        return tuple(sample_obs(s, n, rng) for s in space.spaces)
    if isinstance(space, spaces.Discrete):
        return rng.integers(0, space.n, size=(n,)).astype(np.int64)
    if isinstance(space, spaces.Box):
        if np.issubdtype(space.dtype, np.integer):
            return rng.integers(int(space.low.min()), int(space.high.max()) + 1, size=(n, *space.shape)).astype(space.dtype)
        return rng.uniform(space.low, space.high, size=(n, *space.shape)).astype(space.dtype)
    raise TypeError(space)


def _to_t(x):
    if isinstance(x, dict):
        return TensorDict({k: torch.as_tensor(v).float() for k, v in x.items()}, batch_size=[len(next(iter(x.values())))])
    if isinstance(x, tuple):
        return TensorDict({f"tuple_obs_{i}": torch.as_tensor(v).float() for i, v in enumerate(x)}, batch_size=[len(x[0])])
    return torch.as_tensor(x).float()


def make_batch(algo, kind="vector", B=4, seed=0, done=None, reward=None):
    """A learn() input for `algo` in the form its training loop produces."""
    rng = np.random.default_rng(1000 + seed)
    osp = obs_space(kind)
    asp = action_space(algo)
    if done is None:
        done = (np.arange(B) % 2).astype(np.float32)
    if reward is None:
        reward = rng.uniform(-1, 1, size=B).astype(np.float32)
    done = np.asarray(done, dtype=np.float32)
    reward = np.asarray(reward, dtype=np.float32)
    if algo in ("DQN", "RainbowDQN", "CQN", "DDPG", "TD3"):
        obs, nobs = sample_obs(osp, B, rng), sample_obs(osp, B, rng)
        if isinstance(asp, spaces.Discrete):
            act = rng.integers(0, asp.n, size=(B, 1)).astype(np.float32)
        else:
            act = rng.uniform(asp.low, asp.high, size=(B, *asp.shape)).astype(np.float32)
        td = TensorDict({"obs": _to_t(obs), "action": torch.as_tensor(act), "reward": torch.as_tensor(reward).reshape(B, 1),
                         "next_obs": _to_t(nobs), "done": torch.as_tensor(done).reshape(B, 1)}, batch_size=[B])
        if algo in TUPLE_BATCH:
            # these learners unpack (states, actions, rewards, next_states, dones) - see C20 for what the samplers hand them
            return (td["obs"], td["action"], td["reward"], td["next_obs"], td["done"])
        return td
    if algo in ("NeuralUCB", "NeuralTS"):
        obs = sample_obs(osp, B, rng)
        return TensorDict({"obs": _to_t(obs), "reward": torch.as_tensor(reward).reshape(B, 1)}, batch_size=[B])
    if algo == "PPO":
        T, E = B, 2
        obs_all = sample_obs(osp, T * E + E, rng)
        sl = lambda o, i: {k: v[i * E:(i + 1) * E] for k, v in o.items()} if isinstance(o, dict) else tuple(v[i * E:(i + 1) * E] for v in o) if isinstance(o, tuple) else o[i * E:(i + 1) * E]
        obs = [sl(obs_all, t) for t in range(T)]
        nobs = sl(obs_all, T)
        act = [rng.integers(0, asp.n, size=(E,)).astype(np.int64) for _ in range(T)]
        logp = [rng.uniform(-2, -0.1, size=(E,)).astype(np.float32) for _ in range(T)]
        vals = [rng.uniform(-1, 1, size=(E,)).astype(np.float32) for _ in range(T)]
        rew = [np.full((E,), reward[t], dtype=np.float32) + np.arange(E, dtype=np.float32) for t in range(T)]
        dn = [np.array([done[t], 0.0], dtype=np.float32)[:E] for t in range(T)]
        return (obs, act, logp, rew, dn, vals, nobs, np.zeros(E, dtype=np.float32))
    if algo in ("MADDPG", "MATD3"):
        def per_agent(f):
            return {a: f(i) for i, a in enumerate(AGENT_IDS)}
        obs = per_agent(lambda i: _to_t(sample_obs(osp, B, rng)))
        nobs = per_agent(lambda i: _to_t(sample_obs(osp, B, rng)))
        act = per_agent(lambda i: torch.as_tensor(rng.uniform(asp.low, asp.high, size=(B, *asp.shape)).astype(np.float32)))
        rew = per_agent(lambda i: torch.as_tensor(reward + i).reshape(B, 1))
        dn = per_agent(lambda i: torch.as_tensor(done).reshape(B, 1))
        return (obs, act, rew, nobs, dn)
    if algo == "IPPO":
        T, E = B, 2
        sl = lambda o, i: {k: v[i * E:(i + 1) * E] for k, v in o.items()} if isinstance(o, dict) else tuple(v[i * E:(i + 1) * E] for v in o) if isinstance(o, tuple) else o[i * E:(i + 1) * E]
        out = [dict() for _ in range(8)]
        for i, a in enumerate(AGENT_IDS):
            obs_all = sample_obs(osp, T * E + E, rng)
            out[0][a] = [sl(obs_all, t) for t in range(T)]
            out[1][a] = [rng.integers(0, asp.n, size=(E,)).astype(np.int64) for _ in range(T)]
            out[2][a] = [rng.uniform(-2, -0.1, size=(E,)).astype(np.float32) for _ in range(T)]
            out[3][a] = [np.full((E,), reward[t] + i, dtype=np.float32) + np.arange(E, dtype=np.float32) for t in range(T)]
            out[4][a] = [np.array([done[t], 0.0], dtype=np.float32)[:E] for t in range(T)]
            out[5][a] = [rng.uniform(-1, 1, size=(E,)).astype(np.float32) for _ in range(T)]
            out[6][a] = sl(obs_all, T)
            out[7][a] = np.zeros(E, dtype=np.int8)
        return tuple(out)
    raise KeyError(algo)


def batch_for(agent, algo, kind, seed=0):
    """a learn() input sized the way the training loop would sample it for this agent"""
    B = 4
    if algo == "RainbowDQN":
        B = int(getattr(agent, "batch_size", 4))  # Rainbow's loss indexes with range(self.batch_size)
    return make_batch(algo, kind, B=B, seed=seed)


def clone_batch(b):
    return copy.deepcopy(b)


def learn(agent, batch, seed=0):
    """one learn step with pinned RNG; returns the loss object"""
    algo = type(agent).__name__
    with seeded(seed):
        if algo == "RainbowDQN":
            return agent.learn(clone_batch(batch))
        return agent.learn(clone_batch(batch))


def probe_obs(algo, kind="vector", n=5, seed=7):
    rng = np.random.default_rng(seed)
    osp = obs_space(kind)
    if algo in MULTI:
        return {a: sample_obs(osp, n, rng) for a in AGENT_IDS}
    return sample_obs(osp, n, rng)


def greedy_action(agent, obs):
    """deterministic action of the agent on probe observations (exploration off)"""
    algo = type(agent).__name__
    with seeded(123), torch.no_grad():
        if algo == "DQN":
            return np.asarray(agent.get_action(obs, epsilon=0.0))
        if algo == "CQN":
            return np.asarray(agent.get_action(obs, epsilon=0.0))
        if algo == "RainbowDQN":
            return np.asarray(agent.get_action(obs, training=False))
        if algo in ("DDPG", "TD3"):
            return np.asarray(agent.get_action(obs, training=False))
        if algo == "PPO":
            # greedy = mode of the policy: use the actor's logits through evaluate on fixed seed
            agent.set_training_mode(False)
            out = agent.get_action(obs)
            agent.set_training_mode(True)
            return np.asarray(out[0])
        if algo in ("NeuralUCB", "NeuralTS"):
            # get_action updates sigma_inv; the side-effect free probe is the network output itself
            return agent.actor(agent.preprocess_observation(obs)).detach().numpy()
        if algo in ("MADDPG", "MATD3"):
            out = agent.get_action(obs, training=False)
            acts = out[0] if isinstance(out, tuple) else out
            return np.concatenate([np.asarray(acts[a]).reshape(len(np.asarray(acts[a])), -1) for a in AGENT_IDS], axis=1)
        if algo == "IPPO":
            agent.set_training_mode(False)
            out = agent.get_action(obs)
            agent.set_training_mode(True)
            acts = out[0]
            return np.stack([np.asarray(acts[a]) for a in AGENT_IDS], axis=1)
    raise KeyError(algo)
