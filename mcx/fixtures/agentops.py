"""Operations, fingerprints and comparisons on real agents (shared by C01 C02 C07 C08)."""
from __future__ import annotations

import gc
import hashlib

import numpy as np
import torch
from tensordict import TensorDictBase

from agilerl.algorithms.core.wrappers import OptimizerWrapper
from agilerl.hpo.mutation import Mutations
from agilerl.hpo.tournament import TournamentSelection

from ..core import HarnessError
from ..rand import seeded
from . import agents as A


# ------------------------------------------------------------------------------------------ scripted Mutations.rng
class ForcedRng:
    """Stands in for `Mutations.rng` (a numpy Generator). The architecture-method choice and (optionally)
    the mutation-kind choice are scripted; every other draw is delegated to a pinned Generator."""

    def __init__(self, seed=0, method=None, kinds=None):
        self.gen = np.random.default_rng(seed)
        self.method = method
        self.kinds = kinds  # list of function names, one per individual
        self.method_calls = 0

    def choice(self, options, size=None, p=None, replace=True, **kw):
        opts = list(options)
        if opts and all(callable(o) for o in opts):  # mutation kind per individual
            if self.kinds is not None:
                by_name = {o.__name__: o for o in opts}
                try:
                    return np.array([by_name[k] for k in self.kinds], dtype=object)
                except KeyError as e:
                    raise HarnessError(f"scripted mutation kind {e} not among options {list(by_name)}")
            if len(opts) == 1:
                return np.array([opts[0]] * (size if isinstance(size, int) else 1), dtype=object)
        if self.method is not None and opts and all(isinstance(o, str) for o in opts) and p is not None and size == 1:
            self.method_calls += 1
            if self.method not in opts:
                raise HarnessError(f"scripted architecture method {self.method} not advertised: {opts}")
            return np.array([self.method])
        return self.gen.choice(options, size=size, p=p, replace=replace, **kw)

    def integers(self, *a, **k):
        return self.gen.integers(*a, **k)

    def uniform(self, *a, **k):
        return self.gen.uniform(*a, **k)

    def __getattr__(self, name):
        return getattr(self.gen, name)


KINDS = {"none": "no_mutation", "arch": "architecture_mutate", "param": "parameter_mutation", "act": "activation_mutation",
         "hp": "rl_hyperparam_mutation"}


def mutations(kind, seed=0, method=None, mutate_elite=True):
    """A Mutations object whose probability vector is one-hot on `kind`."""
    pv = {k: 0 for k in ("no_mutation", "architecture", "parameters", "activation", "rl_hp")}
    pv[{"none": "no_mutation", "arch": "architecture", "param": "parameters", "act": "activation", "hp": "rl_hp"}[kind]] = 1
    with seeded(seed):
        m = Mutations(new_layer_prob=0.5, mutation_sd=0.1, mutate_elite=mutate_elite, rand_seed=seed, **pv)
    m.rng = ForcedRng(seed, method=method)
    return m


def policy_of(agent):
    pol = getattr(agent, agent.registry.policy)
    return pol[0] if isinstance(pol, list) else pol


def arch_methods(agent):
    """methods Mutations.architecture_mutate can sample: those the *offspring clone* of the policy advertises
    (a network and its clone do not always advertise the same set - that is C03's business)"""
    return list(policy_of(agent).clone().mutation_methods)


def hp_names(agent):
    return list(agent.registry.hp_config.names())


def mutate(agent, kind, seed=0, method=None, hp=None):
    """Apply one mutation of the forced kind to a single agent through Mutations.mutation([agent])."""
    m = mutations(kind, seed, method=method)
    with seeded(seed):
        if kind == "hp":
            names = hp_names(agent)
            idx = names.index(hp)
            perm = [idx] + [i for i in range(len(names)) if i != idx]
            real = torch.randperm

            def fake(n, *a, **k):
                if n != len(names):
                    return real(n, *a, **k)
                return torch.tensor(perm)

            old = torch.randperm
            torch.randperm = fake
            try:
                out = m.mutation([agent])
            finally:
                torch.randperm = old
        else:
            out = m.mutation([agent])
    return out[0]


# ------------------------------------------------------------------------------------------ walking an agent
def networks(agent):
    """{attr: [modules]} for every evolvable network attribute"""
    out = {}
    for name, obj in agent.evolvable_attributes(networks_only=True).items():
        out[name] = list(obj) if isinstance(obj, list) else [obj]
    return out


def optimizers(agent):
    out = {}
    for name, obj in agent.evolvable_attributes().items():
        if isinstance(obj, OptimizerWrapper):
            out[name] = obj
    return out


def opt_list(ow):
    return list(ow.optimizer) if isinstance(ow.optimizer, list) else [ow.optimizer]


def module_tensors(mod):
    """every tensor a module computes with: registered params/buffers plus plain tensor attributes that
    tensordict's to_module() planted on submodules (DQN target, shared encoders)"""
    out = {}
    for n, t in mod.state_dict(keep_vars=True).items():
        out[n] = t
    for mn, sub in torch.nn.Module.named_modules(mod):
        for k, v in vars(sub).items():
            if isinstance(v, torch.Tensor) and not k.startswith("_"):
                out.setdefault(f"{mn}.{k}" if mn else k, v)
        for k, v in sub._parameters.items():
            if v is not None:
                out.setdefault(f"{mn}.{k}" if mn else k, v)
        for k, v in sub._buffers.items():
            if v is not None:
                out.setdefault(f"{mn}.{k}" if mn else k, v)
    return out


def tensor_attrs(agent):
    out = {}
    for k, v in vars(agent).items():
        if isinstance(v, torch.Tensor):
            out[k] = v
        elif isinstance(v, TensorDictBase):
            for kk, t in v.items(True, True):
                out[f"{k}.{kk}"] = t
    return out


def all_tensors(agent):
    """name -> tensor for everything mutable and tensor-valued in the agent"""
    out = {}
    for attr, mods in networks(agent).items():
        for i, m in enumerate(mods):
            for n, t in module_tensors(m).items():
                out[f"net:{attr}[{i}].{n}"] = t
    for name, ow in optimizers(agent).items():
        for j, opt in enumerate(opt_list(ow)):
            for pi, (p, st) in enumerate(opt.state.items()):
                for k, v in st.items():
                    if isinstance(v, torch.Tensor):
                        out[f"opt:{name}[{j}].state[{pi}].{k}"] = v
    for k, t in tensor_attrs(agent).items():
        out[f"attr:{k}"] = t
    return out


def _h(t):
    return hashlib.sha1(t.detach().cpu().contiguous().numpy().tobytes()).hexdigest()[:10]


def hp_state(agent):
    cfg = agent.registry.hp_config
    out = {}
    for name in cfg.names():
        p = cfg[name]
        out[name] = (getattr(agent, name), p.min, p.max, p.shrink_factor, p.grow_factor, str(p.dtype), p.value)
    return out


def fingerprint(agent):
    """deep value fingerprint: weights, optimizer moments/steps/lr, hp ranges/values, bookkeeping lists"""
    fp = {k: (tuple(t.shape), _h(t)) for k, t in all_tensors(agent).items()}
    for name, ow in optimizers(agent).items():
        for j, opt in enumerate(opt_list(ow)):
            fp[f"opt:{name}[{j}].groups"] = repr([{k: v for k, v in g.items() if k != "params"} for g in opt.param_groups])
    fp["hp"] = repr(hp_state(agent))
    fp["lists"] = repr((list(agent.scores), list(agent.fitness), list(agent.steps), agent.index, agent.mut))
    return fp


def fp_diff(a, b):
    keys = sorted(set(a) | set(b))
    return [k for k in keys if a.get(k) != b.get(k)]


def shared_storage(a, b):
    """tensor names of a and b that live in the same storage, plus aliased python containers"""
    ta, tb = all_tensors(a), all_tensors(b)
    ptr = {}
    for k, t in ta.items():
        if t.numel():
            ptr.setdefault(t.untyped_storage().data_ptr(), []).append(k)
    hits = []
    for k, t in tb.items():
        if t.numel() and t.untyped_storage().data_ptr() in ptr:
            hits.append((ptr[t.untyped_storage().data_ptr()][0], k))
    for name in ("scores", "fitness", "steps", "registry"):
        if getattr(a, name) is getattr(b, name):
            hits.append((name, name))
    if a.registry.hp_config is b.registry.hp_config and a.registry.hp_config.names():
        hits.append(("registry.hp_config", "registry.hp_config"))
    for n in a.registry.hp_config.names():
        if n in b.registry.hp_config.names() and a.registry.hp_config[n] is b.registry.hp_config[n]:
            hits.append((f"hp_config[{n}]", f"hp_config[{n}]"))
    return hits


def classify_tensor_name(name):
    """coarse, stable class of a tensor name for violation keys"""
    if name.startswith("opt:"):
        return "optimizer-state." + name.rsplit(".", 1)[-1]
    if name.startswith("net:"):
        return "network-weights:" + name[4:].split("[")[0]
    if name.startswith("attr:"):
        return "attribute:" + name[5:].split(".")[0]
    return name


# ------------------------------------------------------------------------------------------ comparisons
def arch_sig(mod):
    return (type(mod).__name__, tuple((n, tuple(t.shape)) for n, t in sorted(module_tensors(mod).items())))


def init_dict_equal(a, b):
    def norm(x):
        if isinstance(x, dict):
            return {k: norm(v) for k, v in sorted(x.items(), key=lambda kv: str(kv[0]))}
        if isinstance(x, (list, tuple)):
            return [norm(v) for v in x]
        if isinstance(x, (np.ndarray, torch.Tensor)):
            return np.asarray(x).tolist()
        if hasattr(x, "__dict__") and not isinstance(x, type):
            return repr(x)
        return x
    return repr(norm(a)) == repr(norm(b))


def modules_equal(m1, m2):
    """None if bit-equal in class, init_dict, tensor names/shapes/values; else a short reason"""
    if type(m1) is not type(m2):
        return "class"
    # effective architecture: torch's structural repr (layer types, sizes, activations) - init_dict may differ
    # cosmetically (e.g. output_activation None vs. the activation it defaults to)
    if repr(m1) != repr(m2):
        # name the first differing line of the structural repr, so that different structural defects get different keys
        for a, b in zip(repr(m1).splitlines(), repr(m2).splitlines()):
            if a != b:
                lab = a.strip().split(":")[0].strip("()") if a.strip().startswith("(") else "layout"
                acts = ("Identity", "ReLU", "ELU", "GELU", "Tanh", "Sigmoid", "Softmax", "LeakyReLU", "Softplus", "Softsign", "PReLU")
                is_act = any(x in a for x in acts) and any(x in b for x in acts)
                return f"structure[{'activation:' if is_act else ''}{lab}]"
        return "structure[layout]"
    t1, t2 = module_tensors(m1), module_tensors(m2)
    if sorted(t1) != sorted(t2):
        return "tensor-names"
    for k in t1:
        if t1[k].shape != t2[k].shape:
            return "shape"
        if not torch.equal(t1[k], t2[k]):
            return "weights"
    return None


def module_values_equal(m1, m2):
    """weights comparison between two modules of the same architecture (e.g. target vs. eval network): by tensor
    name where names agree, else by order"""
    t1, t2 = module_tensors(m1), module_tensors(m2)
    if sorted(t1) == sorted(t2):
        return all(t1[k].shape == t2[k].shape and torch.equal(t1[k], t2[k]) for k in t1)
    v1, v2 = list(t1.values()), list(t2.values())
    return len(v1) == len(v2) and all(a.shape == b.shape and torch.equal(a, b) for a, b in zip(v1, v2))


def opt_equal(o1: OptimizerWrapper, o2: OptimizerWrapper):
    if o1.optimizer_cls is not o2.optimizer_cls and getattr(o1.optimizer_cls, "__name__", o1.optimizer_cls) != getattr(o2.optimizer_cls, "__name__", o2.optimizer_cls):
        return "optimizer-class"
    if repr(o1.optimizer_kwargs) != repr(o2.optimizer_kwargs):
        return "optimizer-kwargs"
    # (OptimizerWrapper.lr is bookkeeping; the learning rate that is *used* lives in the param groups, compared below)
    l1, l2 = opt_list(o1), opt_list(o2)
    if len(l1) != len(l2):
        return "optimizer-count"
    for a, b in zip(l1, l2):
        g1 = [{k: v for k, v in g.items() if k != "params"} for g in a.param_groups]
        g2 = [{k: v for k, v in g.items() if k != "params"} for g in b.param_groups]
        if repr(g1) != repr(g2):
            return "param-group-options"
        if [len(g["params"]) for g in a.param_groups] != [len(g["params"]) for g in b.param_groups]:
            return "param-group-sizes"
        pa = [p for g in a.param_groups for p in g["params"]]
        pb = [p for g in b.param_groups for p in g["params"]]
        for x, y in zip(pa, pb):
            sx, sy = a.state.get(x, {}), b.state.get(y, {})
            if sorted(sx) != sorted(sy):
                return "optimizer-state-keys"
            for k in sx:
                vx, vy = sx[k], sy[k]
                if isinstance(vx, torch.Tensor):
                    if vx.shape != vy.shape or not torch.equal(vx, vy):
                        return f"optimizer-state.{k}"
                elif vx != vy:
                    return f"optimizer-state.{k}"
    return None


def opt_owns_live_params(agent):
    """for every optimizer: param ids in groups == param ids of the networks it is registered for. returns problems"""
    probs = []
    for cfg in agent.registry.optimizers:
        ow = getattr(agent, cfg.name)
        nets = []
        for n in cfg.networks:
            obj = getattr(agent, n)
            nets.append(list(obj) if isinstance(obj, list) else [obj])
        opts = opt_list(ow)
        if cfg.multiagent:
            per_opt = list(zip(*nets)) if len(nets) > 1 else [[m] for m in nets[0]]
            if len(per_opt) != len(opts):
                probs.append(f"{cfg.name}: {len(opts)} optimizers for {len(per_opt)} agents")
                continue
            for j, (opt, mods) in enumerate(zip(opts, per_opt)):
                want = {id(p) for m in mods for p in m.parameters()}
                have = {id(p) for g in opt.param_groups for p in g["params"]}
                if want != have:
                    probs.append(f"{cfg.name}[{j}]")
        else:
            want = {id(p) for ms in nets for m in ms for p in m.parameters()}
            have = {id(p) for g in opts[0].param_groups for p in g["params"]}
            if want != have:
                probs.append(cfg.name)
    return probs


def discard(agent):
    del agent
    gc.collect()
