"""C14 family 'det': DDPG, TD3 on Box action spaces — deterministic actor + exploration noise, clipped to the space."""
from __future__ import annotations

import itertools

import numpy as np
import torch

from agilerl.algorithms.ddpg import DDPG
from agilerl.algorithms.td3 import TD3

from ..core import HarnessError
from ..rand import seeded
from . import c14_common as cm

ALGOS = {"DDPG": DDPG, "TD3": TD3}
EXPL = [0.1, 1.0]


def expls(tier):
    return EXPL + ([5.0] if tier == "thorough" else [])


def bclass(sid):
    return {"Bsym": "symmetric-bounds", "B1": "symmetric-bounds", "Basym": "asymmetric-bounds", "B1asym": "asymmetric-bounds",
            "Bper": "perdim-bounds", "Bper2": "perdim-bounds", "Bnd": "asymmetric-bounds"}[sid]


def bounds(tier):
    return {"algorithms": list(ALGOS), "action_spaces": {s: repr(cm.action_space(s)) for s in cm.BOX_IDS},
            "pre_activation": "VALS^d (d = action dim, 1 or 2)", "training": [True, False], "noise": ["OU", "gaussian"], "expl_noise": expls(tier),
            "W": "pre-activations x noise kind x expl_noise x all normal answers Z^d (rows of one call, vect_noise_dim = rows) + eval mode",
            "S": "obs kind x batch {unbatched,1,3} x pre-activations x training x noise kind x expl_noise x Z^d (row i gets answer j+i)"}


def tasks(tier):
    out = []
    for algo in ALGOS:
        for sid in cm.BOX_IDS:
            out.append({"algo": algo, "space": sid, "mode": "W", "_cost": 0.5})
            for kind in cm.OBS_KINDS:
                out.append({"algo": algo, "space": sid, "mode": "S", "obs": kind, "_cost": 3})
    return out


_AGENTS = {}


def build(algo, sid, kind, vdim, ou, expl):
    key = (algo, sid, kind, vdim, ou, expl)
    if key not in _AGENTS:
        with seeded(0):
            _AGENTS[key] = ALGOS[algo](cm.obs_space(kind), cm.action_space(sid), O_U_noise=ou, expl_noise=expl, vect_noise_dim=vdim,
                                       net_config=cm.net_config(kind))
    return _AGENTS[key]


def execute(p, cfg, algo, sid, kind, batch, pre, training, ou, expl, Zr):
    """Zr: (R,d) scripted standard-normal answers (used only when training)"""
    sp = cm.action_space(sid)
    d = sp.shape[0]
    R = 1 if batch == "u" else int(batch)
    ag = build(algo, sid, kind, R, ou, expl)
    cm.set_linear_out(ag.actor.head_net.get_output_dense(), pre)
    ag.current_noise = np.zeros((R, d))
    obs = cm.make_obs(kind, batch)
    zarr = np.asarray(Zr, np.float64).reshape(R, d)

    def fake_normal(i, loc=0.0, scale=1.0, size=None):
        z = zarr.reshape(size) if size is not None else zarr
        return np.asarray(loc) + np.asarray(scale) * z

    f = cm.Once("np.random.normal", fake_normal)
    patches = [(np.random, "normal", f), (np.random, "randn", cm.forbid("np.random.randn")), (np.random, "standard_normal", cm.forbid("np.random.standard_normal")),
               (torch, "randn", cm.forbid("torch.randn")), (torch, "randn_like", cm.forbid("torch.randn_like")), (torch, "normal", cm.forbid("torch.normal"))]
    p.evaluations += 1
    p.extra["rows_judged"] += R
    mode = "training" if training else "eval"

    def rp():
        return {**cfg, "point": {"obs": kind, "batch": batch, "pre": list(map(float, pre)), "training": training, "ou": ou, "expl": expl, "z": zarr.tolist()}}

    try:
        with cm.scripted(patches):
            act = ag.get_action(obs, training=training)
    except HarnessError:
        raise
    except Exception as e:
        p.viol(f"{algo}/get_action/exception/{type(e).__name__}/{cm.exc_slug(e)}", f"{algo}.get_action raised {e!r} ({sid}, obs={kind}, batch={batch})", rp())
        return
    if f.calls != (1 if training else 0):
        raise HarnessError(f"{algo}: np.random.normal consumed {f.calls} times with training={training}")
    a = np.asarray(act)
    p.digest.update(a.tobytes())
    ok_shape = a.shape == (R, d) or (batch == "u" and a.shape == (d,))
    if not ok_shape:
        p.viol(f"{algo}/get_action/{mode}/batch-shape", f"result shape {a.shape} for observation batch {batch} ({sid})", rp(), observed=list(a.shape), expected=[R, d])
        return
    a = a.reshape(R, d).astype(np.float64)
    lo, hi = sp.low.astype(np.float64), sp.high.astype(np.float64)
    bad = ~((a >= lo) & (a <= hi))  # NaN counts as outside
    if bad.any():
        r, j = map(int, np.argwhere(bad)[0])
        for dimc in sorted({"dim0" if jj == 0 else "dim>0" for jj in np.where(bad.any(0))[0]}):
            p.viol(f"{algo}/get_action/{mode}/out-of-bounds/{bclass(sid)}/{dimc}",
                   f"{sid} low={lo.tolist()} high={hi.tolist()}: action {a[r].tolist()} (pre-activation {list(pre)}, z={zarr[r].tolist()}, {'OU' if ou else 'gaussian'} expl={expl})",
                   rp(), observed=a[r].tolist(), expected={"low": lo.tolist(), "high": hi.tolist()})
        p.extra["violating_cases"] += int(bad.any(1).sum()) - 1
        return
    touch = (a == lo) | (a == hi)
    for r in range(R):
        pat = "".join("L" if a[r, j] == lo[j] else "H" if a[r, j] == hi[j] else "i" for j in range(d))
        p.out(f"{algo}|{sid}|{mode}|{pat}")
        if touch[r].any():
            p.nt(f"{algo}|{sid}|{mode}|{'OU' if ou else 'N'}{expl}|pre{list(pre)}|z{zarr[r].tolist() if training else '-'}")


def run(task, p):
    algo, sid = task["algo"], task["space"]
    cfg = {k: task[k] for k in task if k not in ("point", "_cost")}
    d = cm.action_space(sid).shape[0]
    if "point" in task:
        pt = task["point"]
        execute(p, cfg, algo, sid, pt["obs"], pt["batch"], pt["pre"], pt["training"], pt["ou"], pt["expl"], pt["z"])
        return
    pres = cm.bias_vectors(d).tolist()
    zc = np.array(list(itertools.product(cm.Z, repeat=d)))
    if task["mode"] == "W":
        for pre in pres:
            execute(p, cfg, algo, sid, "vec", 1, pre, False, True, 0.1, np.zeros((1, d)))
            for ou in (True, False):
                for expl in expls(task.get("tier", "quick")):
                    execute(p, cfg, algo, sid, "vec", len(zc), pre, True, ou, expl, zc)
        p.sample({"algo": algo, "space": sid, "mode": "W", "pre_activations": len(pres), "normal_answer_rows": zc.tolist()})
        return
    kind = task["obs"]
    for pre in pres:
        for batch in cm.BATCHES:
            R = 1 if batch == "u" else batch
            execute(p, cfg, algo, sid, kind, batch, pre, False, True, 0.1, np.zeros((R, d)))
            for ou in (True, False):
                for expl in expls(task.get("tier", "quick")):
                    for j in range(len(zc)):
                        execute(p, cfg, algo, sid, kind, batch, pre, True, ou, expl, zc[[(j + i) % len(zc) for i in range(R)]])
    p.sample({"algo": algo, "space": sid, "mode": "S", "obs": kind, "batches": cm.BATCHES})
