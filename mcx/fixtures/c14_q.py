"""C14 family 'q': DQN, CQN, RainbowDQN on Discrete(n) — value based, masks, epsilon-greedy."""
from __future__ import annotations

import itertools
import random

import numpy as np
import torch

from agilerl.algorithms.cqn import CQN
from agilerl.algorithms.dqn import DQN
from agilerl.algorithms.dqn_rainbow import RainbowDQN

from ..core import HarnessError
from ..rand import seeded
from . import c14_common as cm

ALGOS = ["DQN", "CQN", "RainbowDQN"]
EPS = [0.0, 0.5, 1.0]
RB_SUPPORTS = {"unit": (-1.0, 1.0), "huge": (-1e9, 1e9)}
RB_PROFILES = ["lo", "mid", "uni", "hi"]   # per-action atom profile
RB_L = 30.0


def ns(tier):
    return [1, 2, 3, 4, 5] if tier == "thorough" else [1, 2, 3, 4]


def bounds(tier):
    return {
        "algorithms": ALGOS, "action_spaces": [f"Discrete({n})" for n in ns(tier)], "epsilon": EPS,
        "W": {"DQN": "outputs 5^n x eps x {mask None, all 2^n-1 masks} x u in U x random scores in U^n",
              "CQN": "outputs 5^n x eps x coin in U x ({masks} x random scores U^n | no mask x randint answer 0..n-1)",
              "RainbowDQN": "profiles 4^n x 2 supports x training flag x {None, all masks}"},
        "S": {"obs_kinds": cm.OBS_KINDS, "batch": ["unbatched", 1, 3], "masks": "None + all (row i gets mask m+i)",
              "outputs": "all for n<=2; n>=3: " + ("2n+... reduced set {tie, unique best/worst/contrast at every index, ramps}" if tier == "thorough" else "{tie, best-last, worst-first, ramp up, ramp down}"), "draw_scripts": "u/coin in U x score pattern in " + ("{const 0, const 0.5, ramp up}" if tier == "quick" else "{const U[k] (4), ramp up, ramp down}") + "; randint const k in 0..n-1"},
    }


def tasks(tier):
    out = []
    for algo in ALGOS:
        for n in ns(tier):
            nb = (4 if algo == "RainbowDQN" else 5) ** n
            per = {4: {"DQN": 40, "CQN": 20, "RainbowDQN": 64}, 5: {"DQN": 8, "CQN": 5, "RainbowDQN": 128}}.get(n, {}).get(algo, nb)
            k = max(1, -(-nb // per))
            M = 2 ** n - 1
            per_bias = {"DQN": 3 * (M + 1) * 4 * 4 ** n * 4e-6, "CQN": 12 * M * 4 ** n * 1.5e-6, "RainbowDQN": 0.004}[algo] + 0.002   # ~seconds
            for c in range(k):
                out.append({"algo": algo, "n": n, "mode": "W", "chunk": [c, k], "_cost": (nb / k) * per_bias})
            for kind in cm.OBS_KINDS:
                if n <= 2 or algo == "RainbowDQN":
                    out.append({"algo": algo, "n": n, "mode": "S", "obs": kind, "batches": cm.BATCHES, "_cost": (1 if algo == "RainbowDQN" else 4 * n * n)})
                else:
                    for b in cm.BATCHES:
                        out.append({"algo": algo, "n": n, "mode": "S", "obs": kind, "batches": [b], "_cost": (2 ** n) * (1.0 if tier == "thorough" else 0.3)})
    return out


# ------------------------------------------------------------------------------------------
_AGENTS = {}


def build(algo, n, kind, support="unit"):
    key = (algo, n, kind, support)
    if key in _AGENTS:
        return _AGENTS[key]
    osp, asp = cm.obs_space(kind), cm.action_space(f"D{n}")
    with seeded(0):
        if algo == "DQN":
            ag = DQN(osp, asp, net_config=cm.net_config(kind))
        elif algo == "CQN":
            ag = CQN(osp, asp, net_config=cm.net_config(kind))
        else:
            lo, hi = RB_SUPPORTS[support]
            nc = cm.net_config(kind)
            nc["head_config"] = {"hidden_size": [64]}   # RainbowDQN validates the head against min_mlp_nodes=64
            ag = RainbowDQN(osp, asp, net_config=nc, num_atoms=3, v_min=lo, v_max=hi)
    _AGENTS[key] = ag
    return ag


def set_outputs(ag, algo, n, vec, support="unit"):
    """returns the float64 reference q-vector (independent of the implementation)"""
    if algo != "RainbowDQN":
        cm.set_linear_out(ag.actor.head_net.get_output_dense(), vec)
        return np.asarray(np.asarray(vec, np.float32), np.float64)
    head = ag.actor.head_net
    val_out = head.get_output_dense()
    adv_out = None
    for name, mod in head.advantage_net.named_children():
        if name.endswith("linear_layer_output"):
            adv_out = mod
    if adv_out is None:
        raise HarnessError("advantage output layer not found")
    logits = np.zeros((n, 3))
    for a, prof in enumerate(vec):
        prof = RB_PROFILES[int(prof)]
        if prof == "lo":
            logits[a, 0] = RB_L
        elif prof == "mid":
            logits[a, 1] = RB_L
        elif prof == "hi":
            logits[a, 2] = RB_L
    cm.set_linear_out(val_out, np.zeros(3))
    cm.set_linear_out(adv_out, logits.reshape(-1))
    lo, hi = RB_SUPPORTS[support]
    z = np.array([lo, (lo + hi) / 2, hi])
    x = logits - logits.mean(0, keepdims=True)
    e = np.exp(x - x.max(1, keepdims=True))
    pr = np.maximum(e / e.sum(1, keepdims=True), 1e-3)
    return (pr * z).sum(1)


def seam_check(ag, algo, kind, qref, tol):
    """the real network must reproduce the enumerated output vector (otherwise the reference would judge another input)"""
    with torch.no_grad():
        got = ag.actor(ag.preprocess_observation(cm.make_obs(kind, 1))).reshape(-1).numpy().astype(np.float64)
    if got.shape != qref.shape or not np.all(np.abs(got - qref) <= tol):
        raise HarnessError(f"{algo}: network output {got.tolist()} differs from the enumerated output {qref.tolist()}")


def r_patterns(n, tier="thorough"):
    if tier == "quick":
        pats = [[cm.U[0]] * n, [cm.U[2]] * n]
    else:
        pats = [[u] * n for u in cm.U]
        pats.append([cm.U[(n - 1 - i) % 4] for i in range(n)])
    pats.append([cm.U[i % 4] for i in range(n)])
    uniq = []
    for q in pats:
        if q not in uniq:
            uniq.append(q)
    return uniq


# ------------------------------------------------------------------------------------------
def execute(p, base, ag, algo, n, kind, batch, qref, eps, training, M, Uu, Rr, coin, Ri, tol):
    """one real call. batch 'u' or the number of rows R. M (R,n) or None; Uu (R,), Rr (R,n), Ri (R,) draw answers."""
    R = 1 if batch == "u" else int(batch)
    obs = cm.make_obs(kind, batch)
    mask_arg = None if M is None else (M[0].copy() if batch == "u" else M.copy())
    patches, fakes = [], []
    if algo == "DQN":
        f1 = cm.Once("torch.rand_like", lambda i, t, **k: torch.as_tensor(np.asarray(Rr, np.float32)).reshape(t.shape))
        f2 = cm.Once("Tensor.uniform_", lambda i, t, *a, **k: t.copy_(torch.as_tensor(np.asarray(Uu, np.float32)).reshape(t.shape)))
        patches = [(torch, "rand_like", f1), (torch.Tensor, "uniform_", f2.method()), (torch, "rand", cm.forbid("torch.rand")),
                   (torch, "randint", cm.forbid("torch.randint")), (torch, "randint_like", cm.forbid("torch.randint_like"))]
        fakes = [f1, f2]
        call = lambda: ag.get_action(obs, epsilon=eps, action_mask=mask_arg)
    elif algo == "CQN":
        f1 = cm.Once("random.random", lambda i: float(coin))
        f2 = cm.Once("np.random.randint", lambda i, lo, hi=None, size=None, **k: np.asarray(Ri, np.int64).reshape(size))
        f3 = cm.Once("np.random.uniform", lambda i, lo=0.0, hi=1.0, size=None: np.asarray(Rr, np.float64).reshape(size))
        patches = [(random, "random", f1), (np.random, "randint", f2), (np.random, "uniform", f3),
                   (np.random, "rand", cm.forbid("np.random.rand")), (np.random, "choice", cm.forbid("np.random.choice"))]
        fakes = [f1]
        call = lambda: ag.get_action(obs, epsilon=eps, action_mask=mask_arg)
    else:
        call = lambda: ag.get_action(obs, action_mask=mask_arg, training=training)

    p.evaluations += 1
    p.extra["rows_judged"] += R

    def replay_row(r):
        pt = {"obs": kind, "batch": batch if batch in ("u", 1, 3) else 1, "q": base["q"], "eps": eps, "training": training,
              "mask": None if M is None else [M[r].tolist()], "u": [float(Uu[r])] if Uu is not None else None,
              "r": [np.asarray(Rr[r]).tolist()] if Rr is not None else None, "coin": coin,
              "ri": [int(Ri[r])] if Ri is not None else None}
        if batch in ("u", 1, 3) and R > 1:   # small batch: replay the whole call
            pt.update({"mask": None if M is None else M.tolist(), "u": None if Uu is None else np.asarray(Uu).tolist(),
                       "r": None if Rr is None else np.asarray(Rr).tolist(), "ri": None if Ri is None else np.asarray(Ri).tolist()})
        return {**base["cfg"], "point": pt}

    try:
        with cm.scripted(patches):
            act = call()
    except HarnessError:
        raise
    except Exception as e:
        p.viol(f"{algo}/get_action/exception/{type(e).__name__}/{cm.exc_slug(e)}", f"{algo}.get_action raised {e!r} (n={n}, obs={kind}, batch={batch}, eps={eps})", replay_row(0))
        return
    for f in fakes:
        if f.calls != 1:
            raise HarnessError(f"{algo}: {f.name} consumed {f.calls} times, expected exactly once")

    a = np.asarray(act)
    p.digest.update(a.tobytes())
    ok_shape = a.size == R and (a.ndim == 0 and batch == "u" or (a.ndim >= 1 and a.shape[0] == R))
    if not ok_shape:
        p.viol(f"{algo}/get_action/batch-shape", f"result shape {a.shape} for {R} observation row(s) (batch={batch}, obs={kind})", replay_row(0),
               observed=list(a.shape), expected=[R])
        return
    a = a.reshape(-1)
    if not np.issubdtype(a.dtype, np.integer):
        p.viol(f"{algo}/get_action/not-an-index", f"dtype {a.dtype}", replay_row(0))
        return
    inr = (a >= 0) & (a < n)
    if not inr.all():
        r = int(np.argmin(inr))
        p.viol(f"{algo}/get_action/index-out-of-range", f"row {r}: action {a[r]} not in [0,{n})", replay_row(r), observed=int(a[r]))
        return
    allowed = np.ones((R, n), bool) if M is None else (M == 1)
    chosen_ok = allowed[np.arange(R), a]
    explore_off = (eps == 0.0) if algo != "RainbowDQN" else True
    epsc = "eps0" if eps == 0.0 else "eps>0"
    if algo == "RainbowDQN":
        epsc = "train" if training else "eval"
    if not chosen_ok.all():
        bad = np.where(~chosen_ok)[0]
        # discriminating draw feature: every allowed random score is exactly 0
        if Rr is not None:
            zero = ((np.asarray(Rr)[bad] == 0.0) | ~allowed[bad]).all(1)
        else:
            zero = np.zeros(len(bad), bool)
        groups = {}
        if zero.any():
            groups["allowed-random-scores-all-0"] = bad[zero]
        if (~zero).any():
            groups["other-draws"] = bad[~zero]
        for g, rows in sorted(groups.items()):
            r = int(rows[0])
            p.viol(f"{algo}/get_action/masked-action-returned/{epsc}/{g}",
                   f"mask {M[r].tolist()} action {int(a[r])} returned (q={base['q']}, eps={eps}, u={None if Uu is None else float(Uu[r])}, "
                   f"coin={coin}, scores={None if Rr is None else np.asarray(Rr[r]).tolist()})", replay_row(r),
                   observed=int(a[r]), expected=np.where(allowed[r])[0].tolist())
            p.extra["violating_cases"] += len(rows) - 1
    if explore_off:
        qv = np.where(allowed, qref[None, :], -np.inf)
        best = qv.max(1)
        got = qref[a]
        notbest = (got < best - tol) & chosen_ok
        if notbest.any():
            bad = np.where(notbest)[0]
            groups = {}
            if algo == "DQN":
                z0 = np.asarray(Uu)[bad] == 0.0
                if z0.any():
                    groups["draw-u=0"] = bad[z0]
                if (~z0).any():
                    groups["other-draws"] = bad[~z0]
            else:
                groups["any"] = bad
            for g, rows in sorted(groups.items()):
                r = int(rows[0])
                p.viol(f"{algo}/get_action/{epsc}/not-best-allowed/{g}",
                       f"exploration off: action {int(a[r])} (q={got[r]}) returned, best allowed q={best[r]} (q={base['q']}, mask={None if M is None else M[r].tolist()}, "
                       f"u={None if Uu is None else float(Uu[r])})", replay_row(r), observed=int(a[r]),
                       expected=np.where(qv[r] >= best[r] - tol)[0].tolist())
                p.extra["violating_cases"] += len(rows) - 1
    # non-trivial / outcomes
    if M is not None:
        # a mask forbids the arg-max when every maximiser of the output is masked
        mx = qref == qref.max()
        forb_rows = ~(allowed & mx[None, :]).any(1)
        if forb_rows.any():
            for m in np.unique(M[forb_rows], axis=0):
                p.nt(f"{algo}|D{n}|m{''.join(map(str, m.tolist()))}|q{base['qi']}")
    for v in np.unique(a):
        p.out(f"{algo}|D{n}|a{int(v)}|{epsc}")


def _qlist(algo, n):
    if algo == "RainbowDQN":
        return [list(v) for v in itertools.product(range(4), repeat=n)]
    return cm.bias_vectors(n).tolist()


def run(task, p):
    algo, n = task["algo"], task["n"]
    cfg = {k: task[k] for k in task if k not in ("point", "_cost")}
    masks = cm.all_masks(n)
    supports = list(RB_SUPPORTS) if algo == "RainbowDQN" else ["unit"]

    def tol_for(sup):
        return 1e-4 * RB_SUPPORTS[sup][1] if algo == "RainbowDQN" else 0.0

    if "point" in task:
        pt = task["point"]
        sup = pt.get("support", "unit")
        ag = build(algo, n, pt["obs"], sup)
        qref = set_outputs(ag, algo, n, pt["q"], sup)
        seam_check(ag, algo, pt["obs"], qref, tol_for(sup))
        M = None if pt["mask"] is None else np.array(pt["mask"], np.int64)
        rows = 1 if pt["batch"] == "u" else int(pt["batch"])
        arr = lambda x: None if x is None else np.array(x)
        execute(p, {"cfg": {**cfg, "support": sup}, "q": pt["q"], "qi": "replay"}, ag, algo, n, pt["obs"], pt["batch"], qref, pt["eps"], pt["training"],
                M, arr(pt["u"]), arr(pt["r"]), pt["coin"], arr(pt["ri"]), tol_for(sup))
        return

    qs = _qlist(algo, n)
    if task["mode"] == "W":
        c, k = task["chunk"]
        mine = [i for i in range(len(qs)) if i % k == c]
        UN = np.array(list(itertools.product(cm.U, repeat=n)))          # (4^n, n) random score vectors
        for sup in supports:
            ag = build(algo, n, "vec", sup)
            for qi in mine:
                q = qs[qi]
                qref = set_outputs(ag, algo, n, q, sup)
                seam_check(ag, algo, "vec", qref, tol_for(sup))
                base = {"cfg": {**cfg, "support": sup}, "q": q, "qi": f"{sup[0]}{qi}"}
                if algo == "RainbowDQN":
                    for training in (True, False):
                        execute(p, base, ag, algo, n, "vec", len(masks), qref, 0.0, training, masks, None, None, None, None, tol_for(sup))
                        execute(p, base, ag, algo, n, "vec", 1, qref, 0.0, training, None, None, None, None, None, tol_for(sup))
                    continue
                for eps in EPS:
                    if algo == "DQN":
                        # masked: masks x u x scores ; unmasked: u x scores
                        mi, ui, ri = np.meshgrid(np.arange(len(masks)), np.arange(4), np.arange(len(UN)), indexing="ij")
                        execute(p, base, ag, algo, n, "vec", mi.size, qref, eps, True, masks[mi.ravel()], np.array(cm.U)[ui.ravel()], UN[ri.ravel()], None, None, 0.0)
                        ui, ri = np.meshgrid(np.arange(4), np.arange(len(UN)), indexing="ij")
                        execute(p, base, ag, algo, n, "vec", ui.size, qref, eps, True, None, np.array(cm.U)[ui.ravel()], UN[ri.ravel()], None, None, 0.0)
                    else:
                        for coin in cm.U:
                            mi, ri = np.meshgrid(np.arange(len(masks)), np.arange(len(UN)), indexing="ij")
                            execute(p, base, ag, algo, n, "vec", mi.size, qref, eps, True, masks[mi.ravel()], None, UN[ri.ravel()], coin, None, 0.0)
                            execute(p, base, ag, algo, n, "vec", n, qref, eps, True, None, None, None, coin, np.arange(n), 0.0)
        p.sample({"algo": algo, "n": n, "mode": "W", "last_output": qs[mine[-1]], "rows_per_masked_call": int(len(masks) * (4 ** (n + 1) if algo == "DQN" else 4 ** n if algo == "CQN" else 1))})
        return

    # ---- S lattice
    tier = task.get("tier", "quick")
    kind = task["obs"]
    pats = r_patterns(n, task.get("tier", "quick"))
    for sup in supports:
        ag = build(algo, n, kind, sup)
        if algo == "RainbowDQN":
            red = qs if n <= 2 else [[1] * n] + [[3 if j == k_ else 1 for j in range(n)] for k_ in range(n)] + [[0 if j == k_ else 2 for j in range(n)] for k_ in range(n)] + [[(j) % 4 for j in range(n)]]
        else:
            red = (cm.reduced_bias_vectors(n) if n <= 2 or tier == "thorough" else cm.small_bias_vectors(n)).tolist()
        for qi, q in enumerate(red):
            qref = set_outputs(ag, algo, n, q, sup)
            seam_check(ag, algo, kind, qref, tol_for(sup))
            base = {"cfg": {**cfg, "support": sup}, "q": q, "qi": f"S{sup[0]}{qi}"}
            for batch in task["batches"]:
                R = 1 if batch == "u" else batch
                mask_choices = [None] + list(range(len(masks)))
                for m in mask_choices:
                    M = None if m is None else masks[[(m + i) % len(masks) for i in range(R)]]
                    if algo == "RainbowDQN":
                        for training in (True, False):
                            execute(p, base, ag, algo, n, kind, batch, qref, 0.0, training, M, None, None, None, None, tol_for(sup))
                        continue
                    for eps in EPS:
                        for u in cm.U:
                            if algo == "DQN":
                                for pat in pats:
                                    execute(p, base, ag, algo, n, kind, batch, qref, eps, True, M, np.full(R, u), np.tile(pat, (R, 1)), None, None, 0.0)
                            elif M is not None:
                                for pat in pats:
                                    execute(p, base, ag, algo, n, kind, batch, qref, eps, True, M, None, np.tile(pat, (R, 1)), u, None, 0.0)
                            else:
                                for k_ in range(n):
                                    execute(p, base, ag, algo, n, kind, batch, qref, eps, True, None, None, None, u, np.full(R, k_), 0.0)
    p.sample({"algo": algo, "n": n, "mode": "S", "obs": kind, "batches": task["batches"], "outputs": len(red), "score_patterns": pats})
