"""Scripted COUNTING environments for C20 (whole training loops).

Every environment is deterministic, has a fixed episode length and counts its own steps. A `Ledger`
attributes every environment step (as seen at the interface the training loop talks to) to the agent
that is currently acting, or to nobody while an agent's `test()` runs.

* `CountEnv`            gymnasium.Env, Box(3) observations, Discrete(2) or Box(2) actions
* `CountSyncVectorEnv`  gymnasium SyncVectorEnv of CountEnvs; one `step()` call = `num_envs` steps
* `CountParallelEnv`    tiny PettingZoo ParallelEnv (2 agents) for the multi-agent loops
* `CountAsyncPZVecEnv`  AgileRL's real AsyncPettingZooVecEnv around CountParallelEnvs (worker processes);
                        one `step()` call = `num_envs` steps
* `CountBanditEnv`      AgileRL's real BanditEnv over a 4-row in-memory data frame; counts `step()`
* `offline_dataset`     in-memory h5-style dict {"observations","actions","rewards","terminals"}
"""
from __future__ import annotations

import gymnasium as gym
import numpy as np
from gymnasium import spaces
from pettingzoo import ParallelEnv

OBS_DIM = 3
N_ACT = 2
AGENT_IDS = ["a_0", "a_1"]


class EnvRejectedAction(Exception):
    """The environment was handed an action whose shape is not the shape of its action space
    (what `assert self.action_space.contains(action)` reports in e.g. CartPole)."""


def _check_action(action, space, who):
    if np.shape(action) != space.shape:
        raise EnvRejectedAction(f"{who}: action of shape {np.shape(action)} for action space {space}")


class Ledger:
    """Who acted, and how many environment steps were taken on whose account."""

    def __init__(self):
        self.actor = None          # key of the agent currently acting (set by the harness' get_action wrapper)
        self.in_test = 0           # > 0 while some agent's test() runs
        self.acting = {}           # key -> steps taken while that agent acted outside test()
        self.testing = 0           # steps taken inside test()
        self.unattributed = 0      # steps taken before any agent acted (must stay 0)
        self.resets = 0

    def tick(self, n=1):
        if self.in_test:
            self.testing += n
        elif self.actor is None:
            self.unattributed += n
        else:
            self.acting[self.actor] = self.acting.get(self.actor, 0) + n

    def total_acting(self):
        return sum(self.acting.values())


def obs_space():
    return spaces.Box(-1.0, 1.0, (OBS_DIM,), dtype=np.float32)


def act_space(kind):
    if kind == "discrete":
        return spaces.Discrete(N_ACT)
    return spaces.Box(-1.0, 1.0, (2,), dtype=np.float32)


def _obs(t, ep_len, ident):
    return np.array([t / ep_len, 0.1 * ident, 1.0 - t / ep_len], dtype=np.float32)


def _reward(action, t, kind):
    if kind == "discrete":
        return float(int(np.asarray(action).reshape(-1)[0]) == t % N_ACT)
    a = np.asarray(action, dtype=np.float64).reshape(-1)
    return float(-abs(a[0] - (0.5 if t % 2 else -0.5)) - 0.25 * abs(a[-1]))


class CountEnv(gym.Env):
    """Fixed episode length; terminates (terminated=True) on the `ep_len`-th step of an episode."""

    metadata = {"render_modes": []}

    def __init__(self, ep_len=4, action="discrete", ident=0, ledger=None):
        self.ep_len = ep_len
        self.kind = action
        self.ident = ident
        self.ledger = ledger
        self.observation_space = obs_space()
        self.action_space = act_space(action)
        self.t = 0
        self.steps_taken = 0
        self.resets = 0
        self.stepped_when_done = 0
        self._done = True

    def reset(self, *, seed=None, options=None):
        super().reset(seed=seed)
        self.t = 0
        self._done = False
        self.resets += 1
        if self.ledger is not None:
            self.ledger.resets += 1
        return _obs(0, self.ep_len, self.ident), {}

    def step(self, action):
        _check_action(action, self.action_space, "CountEnv")
        if self._done:
            self.stepped_when_done += 1
        r = _reward(action, self.t, self.kind)
        self.t += 1
        self.steps_taken += 1
        if self.ledger is not None:
            self.ledger.tick(1)
        term = self.t >= self.ep_len
        self._done = term
        return _obs(self.t, self.ep_len, self.ident), r, bool(term), False, {}


class CountSyncVectorEnv(gym.vector.SyncVectorEnv):
    """SyncVectorEnv of CountEnvs. The ledger is ticked once per `step()` call by `num_envs`
    (in gymnasium's default next-step autoreset mode a sub-environment that finished on the previous
    call is reset instead of stepped; at the interface the loop sees, it still is one step per slot)."""

    def __init__(self, n, ep_len=4, action="discrete", ledger=None, autoreset_mode=None):
        self.ledger = ledger
        kw = {}
        if autoreset_mode is not None:
            kw["autoreset_mode"] = autoreset_mode
        super().__init__([(lambda i=i: CountEnv(ep_len, action, ident=i)) for i in range(n)], **kw)

    def step(self, actions):
        out = super().step(actions)
        if self.ledger is not None:
            self.ledger.tick(self.num_envs)
        return out

    def reset(self, **kw):
        if self.ledger is not None:
            self.ledger.resets += 1
        return super().reset(**kw)

    def sub_steps(self):
        return [e.steps_taken for e in self.envs]


class CountParallelEnv(ParallelEnv):
    """Two agents, fixed episode length, all agents terminate together."""

    metadata = {"render_modes": [], "name": "count_parallel_v0"}

    def __init__(self, ep_len=4, action="box", ident=0, ledger=None):
        self.ep_len = ep_len
        self.kind = action
        self.ident = ident
        self.ledger = ledger
        self.possible_agents = list(AGENT_IDS)
        self.agents = list(AGENT_IDS)
        self.render_mode = None
        self.t = 0
        self.steps_taken = 0
        self.resets = 0
        self._obs_spaces = {a: obs_space() for a in AGENT_IDS}
        self._act_spaces = {a: act_space(action) for a in AGENT_IDS}

    def observation_space(self, agent):
        return self._obs_spaces[agent]

    def action_space(self, agent):
        return self._act_spaces[agent]

    def reset(self, seed=None, options=None):
        self.agents = list(AGENT_IDS)
        self.t = 0
        self.resets += 1
        if self.ledger is not None:
            self.ledger.resets += 1
        return ({a: _obs(0, self.ep_len, self.ident + 10 * i) for i, a in enumerate(AGENT_IDS)}, {a: {} for a in AGENT_IDS})

    def step(self, actions):
        for a in AGENT_IDS:
            _check_action(actions[a], self._act_spaces[a], f"CountParallelEnv[{a}]")
        rew = {a: _reward(actions[a], self.t + i, self.kind) for i, a in enumerate(AGENT_IDS)}
        self.t += 1
        self.steps_taken += 1
        if self.ledger is not None:
            self.ledger.tick(1)
        term = self.t >= self.ep_len
        obs = {a: _obs(self.t, self.ep_len, self.ident + 10 * i) for i, a in enumerate(AGENT_IDS)}
        if term:
            self.agents = []
        return (obs, rew, {a: bool(term) for a in AGENT_IDS}, {a: False for a in AGENT_IDS}, {a: {} for a in AGENT_IDS})

    def get_steps_taken(self):
        return self.steps_taken

    def close(self):
        pass


def make_async_pz(n, ep_len=4, action="box", ledger=None):
    """AgileRL's real AsyncPettingZooVecEnv (worker processes) around CountParallelEnvs; the ledger is
    ticked in the parent by `num_envs` per `step()` call (sub-environments live in the workers; their own
    counters are read back through `call('get_steps_taken')`)."""
    from agilerl.vector.pz_async_vec_env import AsyncPettingZooVecEnv

    class CountAsyncPZVecEnv(AsyncPettingZooVecEnv):
        def step(self, actions):
            out = super().step(actions)
            if self._ledger is not None:
                self._ledger.tick(self.num_envs)
            return out

        def reset(self, *a, **kw):
            if self._ledger is not None:
                self._ledger.resets += 1
            return super().reset(*a, **kw)

    fns = [(lambda i=i: CountParallelEnv(ep_len, action, ident=i)) for i in range(n)]
    CountAsyncPZVecEnv._ledger = None
    env = CountAsyncPZVecEnv(fns)
    env._ledger = ledger
    return env


def make_bandit_env(ledger=None, f32=False):
    """AgileRL's BanditEnv (labelled data set -> bandit) over 4 rows / 2 arms; counts step().
    BanditEnv hands out float64 contexts and rewards; `f32=True` is the variant in which the user casts
    both to float32 in a thin subclass."""
    import pandas as pd

    from agilerl.wrappers.learning import BanditEnv

    class CountBanditEnv(BanditEnv):
        def __init__(self, features, targets, ledger):
            super().__init__(features, targets)
            self.ledger = ledger
            self.steps_taken = 0

        def step(self, k):
            self.steps_taken += 1
            if self.ledger is not None:
                self.ledger.tick(1)
            ctx, r = super().step(k)
            if f32:
                ctx, r = ctx.astype(np.float32), np.float32(r)
            return ctx, r

        def reset(self):
            if self.ledger is not None:
                self.ledger.resets += 1
            ctx = super().reset()
            return ctx.astype(np.float32) if f32 else ctx

    feats = pd.DataFrame({"f0": [0.0, 1.0, 0.0, 1.0], "f1": [0.0, 0.0, 1.0, 1.0]})
    targs = pd.DataFrame({"y": [0, 1, 1, 0]})
    return CountBanditEnv(feats, targs, ledger)


def offline_dataset(n=12, ep_len=4, action="discrete"):
    """h5-style dict as train_offline reads it (dataset['rewards'].shape[0], ['observations'][i], ...);
    shapes follow /repo/data/cartpole/*.h5: observations (N,d) f32, actions (N,) int (discrete) or (N,k) f32,
    rewards (N,) f32, terminals (N,) f32."""
    obs = np.stack([_obs(i % ep_len, ep_len, 0) for i in range(n)]).astype(np.float32)
    if action == "discrete":
        acts = np.array([i % N_ACT for i in range(n)], dtype=np.int32)
    else:
        acts = np.array([[((i % 3) - 1) * 0.5, ((i % 2) - 0.5)] for i in range(n)], dtype=np.float32)
    rews = np.array([_reward(acts[i], i % ep_len, action) for i in range(n)], dtype=np.float32)
    terms = np.array([float(i % ep_len == ep_len - 1) for i in range(n)], dtype=np.float32)
    return {"observations": obs, "actions": acts, "rewards": rews, "terminals": terms}
