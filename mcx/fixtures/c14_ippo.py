"""C14 family 'ippo': IPPO — one stochastic actor per group of homogeneous agents, masks / env-defined actions from infos."""
from __future__ import annotations

import itertools

import numpy as np
import torch

from agilerl.algorithms.ippo import IPPO

from ..core import HarnessError
from ..rand import seeded
from . import c14_common as cm
from . import c14_ppo as ppo

IDS = {"homo": ["agent_0", "agent_1"], "hetero": ["a_0", "b_0"]}
DISC_GROUPS = [(f"D{n}", "homo", [f"D{n}"] * 2) for n in (1, 2, 3, 4)] + [("D2+D3", "hetero", ["D2", "D3"]), ("MD23", "homo", ["MD23"] * 2), ("MB3", "homo", ["MB3"] * 2)]
BOX_GROUPS = [(s, "homo", [s, s]) for s in cm.BOX_IDS] + [("Bsym+Bper", "hetero", ["Bsym", "Bper"])]
GROUPS = {g[0]: g for g in DISC_GROUPS + BOX_GROUPS}
EDA = ["absent", "all", "partial"]


def bounds(tier):
    return {"algorithm": "IPPO", "agent_groups": {g[0]: {"ids": IDS[g[1]], "spaces": g[2]} for g in DISC_GROUPS + BOX_GROUPS},
            "training": [True, False], "squash_output": [False, True], "env_defined_actions": EDA + ["(Discrete and Box groups only)"],
            "W": {"discrete D1..D4 (homogeneous pair, one shared actor)": "logits 5^n x training x {None, all masks} x uniform answers U; agent_1 sees the rows rolled by one",
                  "box": "mean 5^d x squash x training x Z^d rows"},
            "S": "all groups x obs kind x batch {unbatched,1,3} x env_defined_actions x training x (squash) x masks (None + all, per agent) x outputs " + ("{tie, unique best/worst/contrast at every index, ramps}" if tier == "thorough" else "{tie, best-last, worst-first, ramps}") + " x draw scripts {const U[k] / Z^d rows}"}


def tasks(tier):
    out = []
    for g, style, sids in DISC_GROUPS:
        if style == "homo" and sids[0].startswith("D"):
            n = int(sids[0][1:])
            k = {4: 4}.get(n, 1)
            for c in range(k):
                out.append({"algo": "IPPO", "group": g, "mode": "W", "chunk": [c, k], "_cost": 5 ** n / k * 0.005})
        for kind in cm.OBS_KINDS:
            out.append({"algo": "IPPO", "group": g, "mode": "S", "obs": kind, "_cost": 3})
    for g, style, sids in BOX_GROUPS:
        if style == "homo":
            out.append({"algo": "IPPO", "group": g, "mode": "W", "_cost": 0.3})
        for kind in cm.OBS_KINDS:
            out.append({"algo": "IPPO", "group": g, "mode": "S", "obs": kind, "_cost": 8})
    return out


_AGENTS = {}


def build(group, kind, squash):
    key = (group, kind, squash)
    if key not in _AGENTS:
        _, style, sids = GROUPS[group]
        nc = cm.net_config(kind)
        with seeded(0):
            if squash:
                # IPPO(net_config={"squash_output": True}) forwards the key to ValueNetwork and cannot be constructed;
                # the documented alternative is to hand in the networks
                from agilerl.networks.actors import StochasticActor
                from agilerl.networks.value_networks import ValueNetwork
                uniq = list(dict.fromkeys(sids))
                actors = [StochasticActor(cm.obs_space(kind), cm.action_space(s), squash_output=True, **cm.net_config(kind)) for s in uniq]
                critics = [ValueNetwork(cm.obs_space(kind), **cm.net_config(kind)) for s in uniq]
                _AGENTS[key] = IPPO([cm.obs_space(kind)] * 2, [cm.action_space(s) for s in sids], list(IDS[style]), actor_networks=actors, critic_networks=critics)
            else:
                _AGENTS[key] = IPPO([cm.obs_space(kind)] * 2, [cm.action_space(s) for s in sids], list(IDS[style]), net_config=nc)
    return _AGENTS[key]


def execute(p, cfg, group, kind, batch, outs, training, squash, masks, Ud, Zd, eda):
    """per agent lists: outs (per ACTOR for hetero; homogeneous agents share outs[0]), masks[i] (R,flat)|None, Ud[i] (R,k), Zd[i] (R,d), eda[i]"""
    _, style, sids = GROUPS[group]
    ids = IDS[style]
    homo = style == "homo"
    R = 1 if batch == "u" else int(batch)
    box = sids[0] in cm.BOX_IDS
    ag = build(group, kind, squash)
    n_act = len(ag.actors)
    if n_act != (1 if homo else 2):
        raise HarnessError(f"IPPO built {n_act} actors for {ids}")
    for i, actor in enumerate(ag.actors):
        inner = getattr(actor.head_net, "wrapped", None)
        if inner is None:
            raise HarnessError("IPPO actor head is not an EvolvableDistribution")
        cm.set_linear_out(inner.get_output_dense(), outs[i])
    ag.set_training_mode(training)
    obs = {a: cm.make_obs(kind, batch) for a in ids}
    any_mask = any(m is not None for m in masks)
    any_eda = eda is not None
    discrete_flag = all(s.startswith("D") or s == "MD23" for s in sids)
    infos = None
    if any_mask or any_eda:
        infos = {}
        # the infos dict is a mapping: its key order must not matter. Evaluation-mode calls list the agents in reverse
        # order (IPPO samples in both modes); violations seen there carry the tag "infos-reordered"
        for i, a in (list(reversed(list(enumerate(ids)))) if not training else list(enumerate(ids))):
            d = {}
            if masks[i] is not None:
                d["action_mask"] = masks[i][0].copy() if batch == "u" else masks[i].copy()
            if any_eda:
                e = eda[i]
                if e is None:
                    d["env_defined_actions"] = None
                elif batch == "u":
                    e0 = np.asarray(e)[0]
                    if not box:
                        d["env_defined_actions"] = None if np.isnan(e0) else int(e0)
                    else:
                        d["env_defined_actions"] = None if np.isnan(e0).all() else np.asarray(e0, np.float32)
                else:
                    d["env_defined_actions"] = np.asarray(e, np.float32 if box else np.float64).copy()
            infos[a] = d

    # answers per actor call: homogeneous agents are stacked agent-major into one batch
    def per_actor(x):
        if x is None:
            return None
        return [np.concatenate([np.asarray(x[0]), np.asarray(x[1])], axis=0)] if homo else [np.asarray(x[0]), np.asarray(x[1])]

    UA, ZA = per_actor(Ud), per_actor(Zd)
    kdraw = [ppo.n_draws(sids[0])] if homo else [ppo.n_draws(s) for s in sids]
    sched = [(ai, j) for ai in range(n_act) for j in range(kdraw[ai])]   # order of multinomial calls
    if box:
        f = cm.Once("torch.normal", lambda i, mean, std, *a, **k: mean + std * torch.as_tensor(np.asarray(ZA[i], np.float32)).reshape(mean.shape), max_calls=n_act)
        want = n_act
        patches = [(torch, "normal", f), (torch, "multinomial", cm.forbid("torch.multinomial")), (torch, "bernoulli", cm.forbid("torch.bernoulli"))]
    elif sids[0] == "MB3":
        def fb(i, probs, *a, **k):
            u = torch.as_tensor(np.asarray(UA[i], np.float64)).reshape(probs.shape)
            return (u < probs.to(torch.float64)).to(probs.dtype)
        f = cm.Once("torch.bernoulli", fb, max_calls=n_act)
        want = n_act
        patches = [(torch, "bernoulli", f), (torch, "multinomial", cm.forbid("torch.multinomial")), (torch, "normal", cm.forbid("torch.normal"))]
    else:
        def fm(i, probs, num_samples=1, replacement=False, **kw):
            ai, j = sched[i]
            return cm.inv_cdf_multinomial(probs, np.asarray(UA[ai])[:, j]).reshape(-1, 1)
        f = cm.Once("torch.multinomial", fm, max_calls=len(sched))
        want = len(sched)
        patches = [(torch, "multinomial", f), (torch, "bernoulli", cm.forbid("torch.bernoulli")), (torch, "normal", cm.forbid("torch.normal"))]
    patches += [(torch, "rand", cm.forbid("torch.rand")), (torch, "rand_like", cm.forbid("torch.rand_like")), (torch, "randn", cm.forbid("torch.randn")),
                (torch, "randn_like", cm.forbid("torch.randn_like"))]
    mode = "training" if training else "eval"
    p.evaluations += 1
    p.extra["rows_judged"] += 2 * R

    def mk_rp(i):
        def rp(r):
            small = batch in ("u", 1, 3)

            def sel(x):
                if x is None:
                    return None
                return [None if y is None else (np.asarray(y).tolist() if small else [np.asarray(y)[r].tolist()]) for y in x]
            return {**cfg, "point": {"obs": kind, "batch": batch if small else 1, "outs": [list(map(float, o)) for o in outs], "training": training, "squash": squash,
                                      "masks": sel(masks), "u": sel(Ud), "z": sel(Zd), "eda": sel(eda)}}
        return rp

    kindtag = "box" if box else ("multibinary" if sids[0] == "MB3" else "multidiscrete" if sids[0] == "MD23" else "discrete")
    try:
        with cm.scripted(patches):
            res = ag.get_action(obs, infos=infos)
    except HarnessError:
        raise
    except Exception as e:
        p.viol(f"IPPO/get_action/exception/{type(e).__name__}/{cm.exc_slug(e)}", f"IPPO.get_action raised {e!r} (group {group}, obs={kind}, batch={batch})", mk_rp(0)(0))
        return
    if f.calls != want:
        raise HarnessError(f"IPPO: {f.name} consumed {f.calls} times, expected {want}")
    if not (isinstance(res, tuple) and len(res) >= 1 and isinstance(res[0], dict)):
        p.viol("IPPO/get_action/result-form", f"result {type(res)}", mk_rp(0)(0))
        return
    acts = res[0]
    for i, a_id in enumerate(ids):
        sid = sids[i]
        if a_id not in acts:
            p.viol("IPPO/get_action/result-form", f"no action for {a_id}", mk_rp(i)(0))
            return
        a = np.asarray(acts[a_id])
        p.digest.update(a.tobytes())
        lg = outs[0] if homo else outs[i]
        E = None if (eda is None or eda[i] is None) else np.asarray(eda[i], np.float64)
        tagx = "/eda" if any_eda else ""
        if box:
            d = cm.action_space(sid).shape[0]
            if E is not None and a.size == R * d:
                Er = E.reshape(R, d)
                defined = ~np.isnan(Er).any(1)
                ar = a.reshape(R, d).astype(np.float64)
                wrong = defined & ~np.all(np.isclose(ar, np.nan_to_num(Er), rtol=0, atol=1e-6), axis=1)
                if wrong.any():
                    r = int(np.argmax(wrong))
                    p.viol(f"IPPO/get_action/{mode}/env-defined-action-not-returned/box", f"{a_id} row {r}: env-defined {Er[r].tolist()} but {ar[r].tolist()} returned", mk_rp(i)(r))
                    continue
            ppo.judge_box(p, "IPPO", sid, a, R, batch, training, squash, lg, Zd[i], mk_rp(i), mode, tagx)
        else:
            M = masks[i]
            if E is not None and a.size == R:
                Er = E.reshape(R)
                defined = ~np.isnan(Er)
                ar = a.reshape(R)
                wrong = defined & (ar != np.nan_to_num(Er))
                if wrong.any():
                    r = int(np.argmax(wrong))
                    p.viol(f"IPPO/get_action/{mode}/env-defined-action-not-returned/discrete", f"{a_id} row {r}: env-defined {Er[r]} but {ar[r]} returned", mk_rp(i)(r))
                    continue
                if defined.any():
                    # env-defined rows are exempt from the mask; judge them as allowed
                    M = None if M is None else np.where(defined[:, None], 1, M)
            ppo.judge_discrete(p, "IPPO", sid, a, R, batch, M, lg, mk_rp(i), kindtag + tagx + ("/infos-reordered" if (infos is not None and not training) else ""), mode)


def _eda_for(form, box, R, sids, masks, shift, batch):
    if form == "absent":
        return None
    out = []
    for i, sid in enumerate(sids):
        if not box:
            n = int(sid[1:])
            e = np.full(R, np.nan)
            for r in range(R):
                allowed = np.arange(n) if masks[i] is None else np.where(masks[i][r] == 1)[0]
                e[r] = allowed[(shift + r) % len(allowed)]
        else:
            sp = cm.action_space(sid)
            cands = [sp.low, sp.high, (sp.low + sp.high) / 2]
            e = np.stack([cands[(shift + r) % 3] for r in range(R)]).astype(np.float64)
        if form == "partial":
            if i == 1:
                if batch == "u":
                    out.append(None)
                    continue
                e[:] = np.nan
            else:
                e[1::2] = np.nan
        out.append(e)
    return out


def run(task, p):
    group = task["group"]
    tier = task.get("tier", "quick")
    cfg = {k: task[k] for k in task if k not in ("point", "_cost")}
    _, style, sids = GROUPS[group]
    homo = style == "homo"
    box = sids[0] in cm.BOX_IDS
    if "point" in task:
        pt = task["point"]
        arrs = lambda x, dt=np.float64: None if x is None else [None if y is None else np.array(y, dt) for y in x]
        masks = [None, None] if pt["masks"] is None else arrs(pt["masks"], np.int64)
        execute(p, cfg, group, pt["obs"], pt["batch"], pt["outs"], pt["training"], pt["squash"], masks, arrs(pt["u"]), arrs(pt["z"]), arrs(pt["eda"]))
        return
    roll = lambda x: np.roll(x, 1, axis=0)
    if task["mode"] == "W":
        if box:
            d = cm.action_space(sids[0]).shape[0]
            pres = cm.bias_vectors(d).tolist()
            zc = np.array(list(itertools.product(cm.Z, repeat=d)))
            for pre in pres:
                for squash in (False, True):
                    for training in (True, False):
                        execute(p, cfg, group, "vec", len(zc), [pre], training, squash, [None, None], None, [zc, roll(zc)], None)
            p.sample({"algo": "IPPO", "group": group, "mode": "W", "means": len(pres), "normal_rows": zc.tolist()})
            return
        n = int(sids[0][1:])
        c, k = task["chunk"]
        ls = cm.bias_vectors(n)
        masks = cm.all_masks(n)
        UK = np.array(cm.U).reshape(-1, 1)
        mi, ui = np.meshgrid(np.arange(len(masks)), np.arange(len(UK)), indexing="ij")
        Mw, Uw = masks[mi.ravel()], UK[ui.ravel()]
        for li in range(c, len(ls), k):
            lg = ls[li].tolist()
            for training in (True, False):
                execute(p, cfg, group, "vec", len(Mw), [lg], training, False, [Mw, roll(Mw)], [Uw, roll(Uw)], None, None)
                execute(p, cfg, group, "vec", len(UK), [lg], training, False, [None, None], [UK, roll(UK)], None, None)
        p.sample({"algo": "IPPO", "group": group, "mode": "W", "chunk": [c, k], "rows_per_agent": int(len(Mw)), "last_logits": lg})
        return
    # ---- S lattice
    kind = task["obs"]
    if box:
        dims = [cm.action_space(s).shape[0] for s in sids]
        reds = [(cm.reduced_bias_vectors(dm) if tier == "thorough" else cm.small_bias_vectors(dm)) for dm in dims]
        zc = [np.array(list(itertools.product(cm.Z, repeat=dm))) for dm in dims]
        L = max(len(r) for r in reds)
        for batch in cm.BATCHES:
            R = 1 if batch == "u" else batch
            for oi in range(L):
                outs = [reds[0][oi % len(reds[0])].tolist()] if homo else [reds[i][(oi + i) % len(reds[i])].tolist() for i in range(2)]
                for squash in (False, True):
                    for training in (True, False):
                        for form in EDA:
                            for j in range(max(len(z) for z in zc)):
                                Zs = [zc[i][[(j + r + i) % len(zc[i]) for r in range(R)]] for i in range(2)]
                                eda = _eda_for(form, True, R, sids, [None, None], j, batch)
                                execute(p, {**cfg, "_eda": form}, group, kind, batch, outs, training, squash, [None, None], None, Zs, eda)
        p.sample({"algo": "IPPO", "group": group, "mode": "S", "obs": kind, "env_defined_actions": EDA})
        return
    flats = [sum(ppo.sub_sizes(s)) for s in sids]
    reds = [(cm.reduced_bias_vectors(f) if tier == "thorough" else cm.small_bias_vectors(f)) for f in flats]
    allm = [ppo.space_masks(s) for s in sids]
    ks = [ppo.n_draws(s) for s in sids]
    L = max(len(r) for r in reds)
    eda_forms = EDA if sids[0].startswith("D") else ["absent"]
    for batch in cm.BATCHES:
        R = 1 if batch == "u" else batch
        for oi in range(L):
            outs = [reds[0][oi % len(reds[0])].tolist()] if homo else [reds[i][(oi + i) % len(reds[i])].tolist() for i in range(2)]
            for training in (True, False):
                for m in [None] + list(range(max(len(x) for x in allm))):
                    masks = [None, None] if m is None else [allm[i][[(m + r + i) % len(allm[i]) for r in range(R)]] for i in range(2)]
                    for form in eda_forms:
                        for ui, u in enumerate(cm.U):
                            Ud = [np.full((R, ks[i]), u) for i in range(2)]
                            eda = _eda_for(form, False, R, sids, masks, ui, batch)
                            execute(p, {**cfg, "_eda": form}, group, kind, batch, outs, training, False, masks, Ud, None, eda)
    p.sample({"algo": "IPPO", "group": group, "mode": "S", "obs": kind, "env_defined_actions": eda_forms, "outputs": int(L)})
