"""C14 family 'madet': MADDPG, MATD3 — per-agent deterministic actors (GumbelSoftmax head for Discrete, Tanh + rescale for
Box), exploration noise, per-agent masks and env-defined actions from the infos dict."""
from __future__ import annotations

import itertools

import numpy as np
import torch

from agilerl.algorithms.maddpg import MADDPG
from agilerl.algorithms.matd3 import MATD3

from ..core import HarnessError
from ..rand import seeded
from . import c14_common as cm
from .c14_det import bclass

ALGOS = {"MADDPG": MADDPG, "MATD3": MATD3}
EXPL = [0.1, 1.0]
IDS = {"homo": ["agent_0", "agent_1"], "hetero": ["a_0", "b_0"]}
# (group id, agent-id style, action space ids per agent)
DISC_GROUPS = [("D1", "homo", ["D1", "D1"]), ("D2", "homo", ["D2", "D2"]), ("D3", "homo", ["D3", "D3"]), ("D4", "homo", ["D4", "D4"]), ("D2+D3", "hetero", ["D2", "D3"])]
BOX_GROUPS = [(s, "homo", [s, s]) for s in cm.BOX_IDS] + [("Bsym+Bper", "hetero", ["Bsym", "Bper"])]
GROUPS = {g[0]: g for g in DISC_GROUPS + BOX_GROUPS}
EDA = ["absent", "all", "partial"]


def gumbel_scripts(n):
    s = [[u] * n for u in cm.U]
    if n > 1:
        s.append([cm.U[i % 4] for i in range(n)])
        s.append([cm.U[(n - 1 - i) % 4] for i in range(n)])
    return np.array(s)


def bounds(tier):
    return {"algorithms": list(ALGOS), "agent_groups": {g[0]: {"ids": IDS[g[1]], "spaces": g[2]} for g in DISC_GROUPS + BOX_GROUPS},
            "training": [True, False], "noise": ["OU", "gaussian"], "expl_noise": EXPL, "env_defined_actions": EDA,
            "W": {"discrete": "homogeneous groups: logits 5^n x {eval: {None, all masks} x gumbel uniforms U^n ; training: noise kind x expl x {None, all masks} x gumbel scripts {const U[k], ramps} x normal answers Z^n} laid out as rows (vect_noise_dim = rows); agent_1 sees the rows rolled by one",
                  "box": "pre-activation 5^d x {eval ; training x noise kind x expl x Z^d rows}"},
            "S": "all groups (incl. heterogeneous) x obs kind x batch {unbatched,1,3} x env_defined_actions {absent, all agents, NaN/None-partial} x training x noise kind x masks (None + all, per agent, row i gets mask m+i+agent) x outputs " + ("{tie, unique best/worst/contrast at every index, ramps}" if tier == "thorough" else "{tie, best-last, worst-first, ramps}") + " x draw scripts {eval: gumbel u const in U; training: (u,z) in {(0,-10),(0.5,0),(1-2^-24,10)}; box: Z^d rows}"}


def tasks(tier):
    out = []
    for algo in ALGOS:
        for g, style, sids in DISC_GROUPS:
            if style == "homo":
                n = int(sids[0][1:])
                k = {4: 25, 3: 3}.get(n, 1)
                for c in range(k):
                    out.append({"algo": algo, "group": g, "mode": "W", "chunk": [c, k], "_cost": 5 ** n / k * 0.03 * n})
            for kind in cm.OBS_KINDS:
                out.append({"algo": algo, "group": g, "mode": "S", "obs": kind, "_cost": (3 if tier == "thorough" else 1) * {"D4": 14, "D2+D3": 11}.get(g, 5)})
        for g, style, sids in BOX_GROUPS:
            if style == "homo":
                out.append({"algo": algo, "group": g, "mode": "W", "_cost": 0.5})
            for kind in cm.OBS_KINDS:
                out.append({"algo": algo, "group": g, "mode": "S", "obs": kind, "_cost": 5})
    return out


_AGENTS = {}


def build(algo, group, kind, vdim, ou, expl):
    key = (algo, group, kind, vdim, ou, expl)
    if key not in _AGENTS:
        _, style, sids = GROUPS[group]
        with seeded(0):
            _AGENTS[key] = ALGOS[algo]([cm.obs_space(kind)] * 2, [cm.action_space(s) for s in sids], list(IDS[style]), O_U_noise=ou, expl_noise=expl,
                                       vect_noise_dim=vdim, net_config=cm.net_config(kind))
    return _AGENTS[key]


def gumbel(u):
    u = np.asarray(u, np.float64)
    return -np.log(-np.log(u + 1e-20) + 1e-20)


def execute(p, cfg, algo, group, kind, batch, outs, training, ou, expl, masks, G, Zs, eda):
    """per agent lists: outs[i] output-layer bias, masks[i] (R,n)|None, G[i] (R,n) gumbel uniforms (discrete), Zs[i] (R,dim) normal
    answers, eda[i] None | array of env-defined actions (NaN = not defined; discrete (R,), box (R,d))"""
    _, style, sids = GROUPS[group]
    ids = IDS[style]
    R = 1 if batch == "u" else int(batch)
    discrete = sids[0].startswith("D")
    ag = build(algo, group, kind, R, ou, expl)
    dims = [int(s[1:]) if discrete else cm.action_space(s).shape[0] for s in sids]
    for i, actor in enumerate(ag.actors):
        cm.set_linear_out(actor.head_net.get_output_dense(), outs[i])
    ag.current_noise = [torch.zeros(R, dm) for dm in dims]
    obs = {a: cm.make_obs(kind, batch) for a in ids}
    infos = None
    any_mask = any(m is not None for m in masks)
    any_eda = eda is not None
    if any_mask or any_eda:
        infos = {}
        # the infos dict is a mapping: its key order must not matter. Training-mode calls list the agents in reverse order.
        for i, a in (list(reversed(list(enumerate(ids)))) if training else list(enumerate(ids))):
            d = {}
            if masks[i] is not None:
                d["action_mask"] = masks[i][0].copy() if batch == "u" else masks[i].copy()
            if any_eda:
                e = eda[i]
                if e is None:
                    d["env_defined_actions"] = None
                elif batch == "u":
                    e0 = np.asarray(e)[0]
                    if discrete:
                        d["env_defined_actions"] = None if np.isnan(e0) else int(e0)
                    else:
                        d["env_defined_actions"] = None if np.isnan(e0).all() else np.asarray(e0, np.float32)
                else:
                    d["env_defined_actions"] = np.asarray(e, np.float64 if discrete else np.float32).copy()
            infos[a] = d

    def t32(x, like):
        return torch.as_tensor(np.asarray(x, np.float32)).reshape(like.shape)

    f_rand = cm.Once("torch.rand_like", lambda i, t, **k: t32(G[i], t), max_calls=2)
    f_nrm_ = cm.Once("Tensor.normal_", lambda i, t, *a, **k: t.copy_(t32(Zs[i], t)), max_calls=2)

    def fake_normal(i, mean, std, *a, out=None, **k):
        val = mean + std * t32(Zs[i], mean)
        if out is not None:
            out.copy_(val)
            return out
        return val

    f_nrm = cm.Once("torch.normal", fake_normal, max_calls=2)
    patches = [(torch, "rand_like", f_rand), (torch.Tensor, "normal_", f_nrm_.method()), (torch, "normal", f_nrm), (torch, "rand", cm.forbid("torch.rand")),
               (torch, "randn", cm.forbid("torch.randn")), (torch, "randn_like", cm.forbid("torch.randn_like")), (np.random, "normal", cm.forbid("np.random.normal"))]
    mode = "training" if training else "eval"
    p.evaluations += 1
    p.extra["rows_judged"] += R * 2

    def rp(i=None, r=None):
        small = batch in ("u", 1, 3)

        def sel(x):
            if x is None:
                return None
            return [None if y is None else (np.asarray(y).tolist() if small else [np.asarray(y)[r].tolist()]) for y in x]
        return {**cfg, "point": {"obs": kind, "batch": batch if small else 1, "outs": [list(map(float, o)) for o in outs], "training": training, "ou": ou, "expl": expl,
                                  "masks": sel(masks), "G": sel(G), "Z": sel(Zs), "eda": sel(eda)}}

    try:
        with cm.scripted(patches):
            res = ag.get_action(obs, training=training, infos=infos)
    except HarnessError:
        raise
    except Exception as e:
        p.viol(f"{algo}/get_action/exception/{type(e).__name__}/{cm.exc_slug(e)}", f"{algo}.get_action raised {e!r} (group {group}, obs={kind}, batch={batch})", rp(0, 0))
        return
    want_rand = 2 if discrete else 0
    want_n = 2 if training else 0
    if f_rand.calls != want_rand or (f_nrm_.calls if ou else f_nrm.calls) != want_n or (f_nrm.calls if ou else f_nrm_.calls) != 0:
        raise HarnessError(f"{algo}: draws consumed rand_like={f_rand.calls} normal_={f_nrm_.calls} normal={f_nrm.calls} (training={training}, ou={ou})")
    if not (isinstance(res, tuple) and len(res) == 2 and isinstance(res[0], dict)):
        p.viol(f"{algo}/get_action/result-form", f"result {type(res)}", rp(0, 0))
        return
    cont, disc = res
    for i, a_id in enumerate(ids):
        sid = sids[i]
        n = dims[i]
        E = None if (eda is None or eda[i] is None) else np.asarray(eda[i], np.float64)
        if discrete:
            if not isinstance(disc, dict) or a_id not in disc:
                p.viol(f"{algo}/get_action/result-form", f"no discrete action for {a_id}", rp(i, 0))
                return
            a = np.asarray(disc[a_id])
            p.digest.update(a.tobytes())
            if not (a.size == R and a.ndim >= 1 and a.shape[0] == R):
                p.viol(f"{algo}/get_action/{mode}/batch-shape/discrete" + ("/eda" if any_eda else ""), f"{a_id}: result shape {a.shape} for {R} observation row(s)", rp(i, 0),
                       observed=list(a.shape), expected=[R])
                return
            a = a.reshape(-1)
            if not (np.issubdtype(a.dtype, np.integer) or np.all(a == np.round(a))):
                p.viol(f"{algo}/get_action/{mode}/not-an-index", f"{a_id}: {a.tolist()}", rp(i, 0))
                return
            a = a.astype(np.int64)
            inr = (a >= 0) & (a < n)
            if not inr.all():
                r = int(np.argmin(inr))
                p.viol(f"{algo}/get_action/{mode}/index-out-of-range", f"{a_id} row {r}: action {a[r]} not in [0,{n})", rp(i, r), observed=int(a[r]))
                return
            M = masks[i]
            allowed = np.ones((R, n), bool) if M is None else M == 1
            defined = np.zeros(R, bool) if E is None else ~np.isnan(E.reshape(R))
            if defined.any():
                wrong = defined & (a != np.where(defined, np.nan_to_num(E.reshape(R)), 0).astype(np.int64))
                if wrong.any():
                    r = int(np.argmax(wrong))
                    p.viol(f"{algo}/get_action/{mode}/env-defined-action-not-returned/discrete", f"{a_id} row {r}: env-defined {E.reshape(R)[r]} but {a[r]} returned", rp(i, r),
                           observed=int(a[r]), expected=float(E.reshape(R)[r]))
                    return
            free = ~defined
            ok = allowed[np.arange(R), a] | ~free
            if not ok.all():
                bad = np.where(~ok)[0]
                r = int(bad[0])
                p.viol(f"{algo}/get_action/{mode}/masked-action-returned", f"{a_id} row {r}: mask {M[r].tolist()} action {int(a[r])} returned (logits {list(outs[i])}, gumbel u {np.asarray(G[i])[r].tolist()})",
                       rp(i, r), observed=int(a[r]), expected=np.where(allowed[r])[0].tolist())
                p.extra["violating_cases"] += len(bad) - 1
                continue
            if not training:
                # the sum logits + gumbel noise is formed in float32 by the network (1e9 absorbs the noise): same here
                y = (np.asarray(outs[i], np.float32)[None, :] + gumbel(np.asarray(G[i]).reshape(R, n)).astype(np.float32)).astype(np.float64)
                e = np.exp(y - y.max(1, keepdims=True))
                sm = e / e.sum(1, keepdims=True)
                best = np.where(allowed, sm, -np.inf).max(1)
                nb = free & (sm[np.arange(R), a] < best - 1e-6)
                if nb.any():
                    r = int(np.argmax(nb))
                    p.viol(f"{algo}/get_action/eval/not-best-allowed", f"{a_id} row {r}: action {int(a[r])} (policy output {sm[r].tolist()}) but best allowed {best[r]} (mask {None if M is None else M[r].tolist()})",
                           rp(i, r), observed=int(a[r]), expected=np.where(np.where(allowed[r], sm[r], -np.inf) >= best[r] - 1e-6)[0].tolist())
                    p.extra["violating_cases"] += int(nb.sum()) - 1
                if M is not None:
                    forb = ~(allowed & (sm >= sm.max(1, keepdims=True) - 1e-12)).any(1)
                    for m in np.unique(M[forb], axis=0):
                        p.nt(f"{algo}|{sid}|m{''.join(map(str, m.tolist()))}|l{list(outs[i])}")
            for v in np.unique(a):
                p.out(f"{algo}|{sid}|a{int(v)}|{mode}")
        else:
            sp = cm.action_space(sid)
            a = np.asarray(cont[a_id])
            p.digest.update(a.tobytes())
            if a.shape != (R, n):
                p.viol(f"{algo}/get_action/{mode}/batch-shape/box" + ("/eda" if any_eda else ""), f"{a_id}: result shape {a.shape} for {R} observation row(s), {sid}", rp(i, 0),
                       observed=list(a.shape), expected=[R, n])
                return
            a = a.astype(np.float64)
            lo, hi = sp.low.astype(np.float64), sp.high.astype(np.float64)
            defined = np.zeros(R, bool) if E is None else ~np.isnan(E.reshape(R, n)).any(1)
            if defined.any():
                wrong = defined & ~np.all(np.isclose(a, np.nan_to_num(E.reshape(R, n)), rtol=0, atol=1e-6), axis=1)
                if wrong.any():
                    r = int(np.argmax(wrong))
                    p.viol(f"{algo}/get_action/{mode}/env-defined-action-not-returned/box", f"{a_id} row {r}: env-defined {E.reshape(R, n)[r].tolist()} but {a[r].tolist()} returned", rp(i, r))
                    return
            bad = ~((a >= lo) & (a <= hi))
            if bad.any():
                r = int(np.argwhere(bad)[0][0])
                for dimc in sorted({"dim0" if jj == 0 else "dim>0" for jj in np.where(bad.any(0))[0]}):
                    p.viol(f"{algo}/get_action/{mode}/out-of-bounds/{bclass(sid)}/{dimc}",
                           f"{a_id} {sid} low={lo.tolist()} high={hi.tolist()}: action {a[r].tolist()} (pre-activation {list(outs[i])}, z={np.asarray(Zs[i])[r].tolist()}, {'OU' if ou else 'gaussian'} expl={expl})",
                           rp(i, r), observed=a[r].tolist(), expected={"low": lo.tolist(), "high": hi.tolist()})
                p.extra["violating_cases"] += int(bad.any(1).sum()) - 1
                continue
            for r in range(R):
                pat = "".join("L" if a[r, j] == lo[j] else "H" if a[r, j] == hi[j] else "i" for j in range(n))
                p.out(f"{algo}|{sid}|{mode}|{pat}")
                if pat != "i" * n:
                    p.nt(f"{algo}|{sid}|{mode}|{'OU' if ou else 'N'}{expl}|pre{list(outs[i])}|z{np.asarray(Zs[i])[r].tolist() if training else '-'}")


def _eda_for(form, discrete, R, dims, sids, masks, shift, batch="u"):
    """legal env-defined actions; 'partial': agent 0 defined on even rows only, agent 1 not at all
    (None when the env is not vectorised, an all-NaN array when it is)"""
    if form == "absent":
        return None
    out = []
    for i, n in enumerate(dims):
        if discrete:
            e = np.full(R, np.nan)
            for r in range(R):
                allowed = np.arange(n) if masks[i] is None else np.where(masks[i][r] == 1)[0]
                e[r] = allowed[(shift + r) % len(allowed)]
        else:
            sp = cm.action_space(sids[i])
            cands = [sp.low, sp.high, (sp.low + sp.high) / 2]
            e = np.stack([cands[(shift + r) % 3] for r in range(R)]).astype(np.float64)
        if form == "partial":
            if i == 1:
                if batch == "u":
                    out.append(None)
                    continue
                e[:] = np.nan
            else:
                e[1::2] = np.nan
        out.append(e)
    return out


def run(task, p):
    algo, group = task["algo"], task["group"]
    tier = task.get("tier", "quick")
    cfg = {k: task[k] for k in task if k not in ("point", "_cost")}
    _, style, sids = GROUPS[group]
    discrete = sids[0].startswith("D")
    dims = [int(s[1:]) if discrete else cm.action_space(s).shape[0] for s in sids]
    if "point" in task:
        pt = task["point"]
        arrs = lambda x, dt=np.float64: None if x is None else [None if y is None else np.array(y, dt) for y in x]
        masks = [None, None] if pt["masks"] is None else arrs(pt["masks"], np.int64)
        execute(p, cfg, algo, group, pt["obs"], pt["batch"], pt["outs"], pt["training"], pt["ou"], pt["expl"], masks, arrs(pt["G"]), arrs(pt["Z"]), arrs(pt["eda"]))
        return

    if task["mode"] == "W":
        n = dims[0]
        if discrete:
            c, k = task["chunk"]
            ls = cm.bias_vectors(n)
            masks = cm.all_masks(n)
            UN = np.array(list(itertools.product(cm.U, repeat=n)))
            ZN = np.array(list(itertools.product(cm.Z, repeat=n)))
            GS = gumbel_scripts(n)
            # eval rows: masks x U^n ; training rows: masks x gumbel scripts x Z^n
            mi, ui = np.meshgrid(np.arange(len(masks)), np.arange(len(UN)), indexing="ij")
            Me, Ge = masks[mi.ravel()], UN[ui.ravel()]
            mi, gi, zi = np.meshgrid(np.arange(len(masks)), np.arange(len(GS)), np.arange(len(ZN)), indexing="ij")
            Mt, Gt, Zt = masks[mi.ravel()], GS[gi.ravel()], ZN[zi.ravel()]
            gi, zi = np.meshgrid(np.arange(len(GS)), np.arange(len(ZN)), indexing="ij")
            Gt0, Zt0 = GS[gi.ravel()], ZN[zi.ravel()]
            roll = lambda x: np.roll(x, 1, axis=0)
            for li in range(c, len(ls), k):
                lg = ls[li].tolist()
                lg2 = ls[(li * 7 + 3) % len(ls)].tolist()
                outs = [lg, lg2]
                execute(p, cfg, algo, group, "vec", len(Me), outs, False, True, 0.1, [Me, roll(Me)], [Ge, roll(Ge)], [np.zeros_like(Ge), np.zeros_like(Ge)], None)
                execute(p, cfg, algo, group, "vec", len(UN), outs, False, True, 0.1, [None, None], [UN, roll(UN)], [np.zeros_like(UN), np.zeros_like(UN)], None)
                for ou in (True, False):
                    for expl in EXPL:
                        execute(p, cfg, algo, group, "vec", len(Mt), outs, True, ou, expl, [Mt, roll(Mt)], [Gt, roll(Gt)], [Zt, roll(Zt)], None)
                        execute(p, cfg, algo, group, "vec", len(Gt0), outs, True, ou, expl, [None, None], [Gt0, roll(Gt0)], [Zt0, roll(Zt0)], None)
            p.sample({"algo": algo, "group": group, "mode": "W", "chunk": [c, k], "eval_rows": int(len(Me)), "training_rows": int(len(Mt)), "last_logits": outs})
        else:
            pres = cm.bias_vectors(n)
            zc = np.array(list(itertools.product(cm.Z, repeat=n)))
            for pi in range(len(pres)):
                outs = [pres[pi].tolist(), pres[(pi * 7 + 3) % len(pres)].tolist()]
                execute(p, cfg, algo, group, "vec", 1, outs, False, True, 0.1, [None, None], None, [np.zeros((1, n))] * 2, None)
                for ou in (True, False):
                    for expl in EXPL:
                        execute(p, cfg, algo, group, "vec", len(zc), outs, True, ou, expl, [None, None], None, [zc, np.roll(zc, 1, axis=0)], None)
            p.sample({"algo": algo, "group": group, "mode": "W", "pre_activations": int(len(pres)), "normal_rows": zc.tolist()})
        return

    # ---- S lattice
    kind = task["obs"]
    reds = [(cm.reduced_bias_vectors(dm) if tier == "thorough" else cm.small_bias_vectors(dm)) for dm in dims]
    L = max(len(r) for r in reds)
    for batch in cm.BATCHES:
        R = 1 if batch == "u" else batch
        for oi in range(L):
            outs = [reds[i][(oi + i) % len(reds[i])].tolist() for i in range(2)]
            for training in (False, True):
                for ou in ((True, False) if training else (True,)):
                    expl = 1.0
                    if discrete:
                        allm = [cm.all_masks(dm) for dm in dims]
                        mchoices = [None] + list(range(max(len(m) for m in allm)))
                        # draw scripts: eval -> every gumbel uniform (const over the row); training -> (uniform, normal) corners
                        scripts = [(u, 0.0) for u in cm.U] if not training else [(cm.U[0], cm.Z[0]), (cm.U[2], cm.Z[1]), (cm.U[3], cm.Z[2])]
                        for m in mchoices:
                            masks = [None, None] if m is None else [allm[i][[(m + r + i) % len(allm[i]) for r in range(R)]] for i in range(2)]
                            for form in EDA:
                                for si, (u, z) in enumerate(scripts):
                                    G = [np.full((R, dims[i]), u) for i in range(2)]
                                    Zs = [np.full((R, dims[i]), z) for i in range(2)]
                                    eda = _eda_for(form, True, R, dims, sids, masks, si, batch)
                                    execute(p, {**cfg, "_eda": form}, algo, group, kind, batch, outs, training, ou, expl, masks, G, Zs, eda)
                    else:
                        zc = [np.array(list(itertools.product(cm.Z, repeat=dm))) for dm in dims]
                        for form in EDA:
                            for j in range(max(len(z) for z in zc) if training else 1):
                                Zs = [zc[i][[(j + r + i) % len(zc[i]) for r in range(R)]] for i in range(2)]
                                eda = _eda_for(form, False, R, dims, sids, [None, None], j, batch)
                                execute(p, {**cfg, "_eda": form}, algo, group, kind, batch, outs, training, ou, expl, [None, None], None, Zs, eda)
    p.sample({"algo": algo, "group": group, "mode": "S", "obs": kind, "env_defined_actions": EDA, "outputs": int(L)})
