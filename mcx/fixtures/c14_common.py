"""Shared pieces of the C14 lattice: alphabets, tiny network configs, observation builders,
scripted random sources with an RNG-state guard (an unscripted draw is a HarnessError)."""
from __future__ import annotations

import contextlib
import itertools
import random

import numpy as np
import torch
from gymnasium import spaces

from ..core import HarnessError

U = [0.0, 2.0 ** -24, 0.5, 1.0 - 2.0 ** -24]   # scripted uniform answers (both interval ends)
Z = [-10.0, 0.0, 10.0]                          # scripted standard-normal answers
VALS = [-1e9, -1.0, 0.0, 1.0, 1e9]              # distinct members of the stated multiset {-1e9,-1,0,0,1,1e9}
F32 = np.float32


def all_masks(n):
    """all non-empty 0/1 masks of length n, as int64 rows"""
    return np.array([m for m in itertools.product((0, 1), repeat=n) if any(m)], dtype=np.int64)


def bias_vectors(n):
    return np.array(list(itertools.product(VALS, repeat=n)), dtype=np.float64)


def reduced_bias_vectors(n):
    """small set for the shape lattice: full tie, unique best / unique worst at every index (the rest tie),
    ramps; everything for n <= 2"""
    if n <= 2:
        return bias_vectors(n)
    out = [[0.0] * n]
    for k in range(n):
        v = [0.0] * n
        v[k] = 1e9
        out.append(v)
        v = [0.0] * n
        v[k] = -1e9
        out.append(v)
        v = [-1.0] * n
        v[k] = 1.0
        out.append(v)
    ramp = [VALS[(i + 5 - n) % 5] if n <= 5 else 0.0 for i in range(n)]
    out.append(ramp)
    out.append(ramp[::-1])
    return np.array(out, dtype=np.float64)


def small_bias_vectors(n):
    """shape lattice of the expensive families: full tie, unique best at the last index, unique worst at the first,
    ramp up, ramp down (everything for n == 1)"""
    if n == 1:
        return bias_vectors(1)
    z = [0.0] * n
    best_last = z[:-1] + [1e9]
    worst_first = [-1e9] + z[1:]
    ramp = [VALS[(i + 5 - n) % 5] if n <= 5 else 0.0 for i in range(n)]
    out = []
    for v in (z, best_last, worst_first, ramp, ramp[::-1]):
        if v not in out:
            out.append(v)
    return np.array(out, dtype=np.float64)


# ------------------------------------------------------------------------------------------
# spaces

def action_space(sid):
    if sid.startswith("D"):
        return spaces.Discrete(int(sid[1:]))
    if sid == "MD23":
        return spaces.MultiDiscrete([2, 3])
    if sid == "MB3":
        return spaces.MultiBinary(3)
    if sid == "Bsym":
        return spaces.Box(-1.0, 1.0, (2,), np.float32)
    if sid == "Basym":
        return spaces.Box(-1.0, 3.0, (2,), np.float32)
    if sid == "Bper":   # per-dimension bounds with a tighter dim>0
        return spaces.Box(np.array([-2.0, -1.0], np.float32), np.array([2.0, 1.0], np.float32), dtype=np.float32)
    if sid == "Bper2":  # per-dimension, dim>0 wider and asymmetric
        return spaces.Box(np.array([-1.0, -0.5], np.float32), np.array([1.0, 4.0], np.float32), dtype=np.float32)
    if sid == "Bnd":    # asymmetric bounds that are not exactly representable: rescaling a saturated output must not overshoot them
        return spaces.Box(np.array([-2.3, -1.4], np.float32), np.array([0.6, 0.8], np.float32), dtype=np.float32)
    if sid == "B1":
        return spaces.Box(-1.0, 1.0, (1,), np.float32)
    if sid == "B1asym":
        return spaces.Box(-0.5, 2.0, (1,), np.float32)
    raise HarnessError(f"unknown action space id {sid}")


BOX_IDS = ["Bsym", "Basym", "Bper", "Bper2", "Bnd", "B1", "B1asym"]
OBS_KINDS = ["vec", "disc", "img"]
BATCHES = ["u", 1, 3]


def obs_space(kind):
    if kind == "vec":
        return spaces.Box(-1.0, 1.0, (3,), np.float32)
    if kind == "disc":
        return spaces.Discrete(4)
    if kind == "img":
        return spaces.Box(0, 255, (1, 4, 4), np.uint8)
    raise HarnessError(kind)


def make_obs(kind, batch):
    """batch: 'u' (unbatched) or an int"""
    if kind == "vec":
        base = np.array([0.25, -0.5, 1.0], np.float32)
    elif kind == "disc":
        base = np.array(2, np.int64)
    else:
        base = (np.arange(16, dtype=np.uint8) * 16).reshape(1, 4, 4)
    if batch == "u":
        return base.copy()
    return np.stack([base] * int(batch))


def net_config(kind, extra_head=None, layer_norm=True):
    head = {"hidden_size": [4]}
    if extra_head:
        head.update(extra_head)
    if kind == "img":
        enc = {"channel_size": [2], "kernel_size": [2], "stride_size": [1]}
    else:
        enc = {"hidden_size": [4]}
    return {"latent_dim": 8, "encoder_config": enc, "head_config": head}


def set_linear_out(layer, bias):
    """zero the weight of an output layer (nn.Linear or NoisyLinear) and write the bias"""
    b = torch.as_tensor(np.asarray(bias, dtype=np.float32))
    with torch.no_grad():
        if hasattr(layer, "weight_mu"):
            layer.weight_mu.zero_()
            layer.weight_sigma.zero_()
            layer.bias_sigma.zero_()
            if layer.bias_mu.shape != b.shape:
                raise HarnessError(f"bias shape {tuple(layer.bias_mu.shape)} vs {tuple(b.shape)}")
            layer.bias_mu.copy_(b)
        else:
            layer.weight.zero_()
            if layer.bias.shape != b.shape:
                raise HarnessError(f"bias shape {tuple(layer.bias.shape)} vs {tuple(b.shape)}")
            layer.bias.copy_(b)


# ------------------------------------------------------------------------------------------
# scripted random sources

class Once:
    """a fake random function that must be called the expected number of times during one get_action"""

    def __init__(self, name, fn, max_calls=1):
        self.name, self.fn, self.max_calls, self.calls = name, fn, max_calls, 0

    def __call__(self, *a, **k):
        self.calls += 1
        if self.calls > self.max_calls:
            raise HarnessError(f"unscripted draw: {self.name} called {self.calls} times (scripted {self.max_calls})")
        try:
            return self.fn(self.calls - 1, *a, **k)
        except HarnessError:
            raise
        except Exception as e:  # a broken fake must never look like an AgileRL failure
            raise HarnessError(f"scripted source {self.name} failed: {e!r} args={[type(x).__name__ for x in a]} {list(k)}")

    def method(self):
        """a plain function (binds like a method) delegating to this fake"""
        def m(*a, **k):
            return self(*a, **k)
        return m


def forbid(name):
    def f(*a, **k):
        raise HarnessError(f"unscripted draw: {name} called")
    return f


def _rng_fingerprint():
    ns = np.random.get_state()
    return (torch.get_rng_state().numpy().tobytes(), ns[1].tobytes(), ns[2], ns[3], random.getstate())


@contextlib.contextmanager
def scripted(patches):
    """patches: list of (obj, attr, fake). Afterwards every global generator must be untouched."""
    before = _rng_fingerprint()
    olds = []
    try:
        for obj, attr, fake in patches:
            had = attr in vars(obj) if isinstance(obj, type) else True
            olds.append((obj, attr, getattr(obj, attr), had))
            setattr(obj, attr, fake)
        yield
    finally:
        for obj, attr, old, had in reversed(olds):
            if had:
                setattr(obj, attr, old)
            else:
                delattr(obj, attr)
    if _rng_fingerprint() != before:
        raise HarnessError("unscripted draw: a global random generator advanced during get_action")


def inv_cdf_multinomial(probs, u):
    """what torch.multinomial(probs, 1) answers when its uniform variate is u (per row): the first category whose
    cumulative mass exceeds u * total; categories of zero probability are never returned."""
    p = probs.detach().to(torch.float64)
    if not bool(torch.isfinite(p).all()) or bool((p < 0).any()) or bool((p.sum(-1) <= 0).any()):
        raise RuntimeError("probability tensor contains either `inf`, `nan` or element < 0")
    c = torch.cumsum(p, dim=-1)
    tot = c[..., -1:]
    uu = torch.as_tensor(np.asarray(u, dtype=np.float64)).reshape(-1, 1) * tot
    idx = (c <= uu).sum(-1)
    # never land on a zero-probability category (can only happen through rounding at the top end)
    n = p.shape[-1]
    idx = torch.clamp(idx, max=n - 1)
    for _ in range(n):
        bad = p.gather(-1, idx.unsqueeze(-1)).squeeze(-1) <= 0
        if not bool(bad.any()):
            break
        idx = torch.where(bad, idx - 1, idx)
    return idx.to(torch.int64)


def exc_slug(e):
    """stable short slug of an exception message: first words, digits and punctuation stripped"""
    import re
    words = re.sub(r"[^A-Za-z ]+", " ", str(e)).split()
    return "-".join(w.lower() for w in words[:7]) or "no-message"
