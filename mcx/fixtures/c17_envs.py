"""Scripted single-agent environments for the C17 'loop' tasks: every emitted observation is unique
(serial-coded), rewards are recognisable, termination/truncation follow a bit script, and the
environment keeps a log of everything it emitted so that the harness can compare it with what
reaches `PPO.learn`."""
from __future__ import annotations

import numpy as np
from gymnasium import spaces


class ScriptEnv:
    """E == 0: classic un-vectorised gym API; E >= 1: vector API (attribute `num_envs`)."""

    def __init__(self, E, script_bits, n_scripted_steps):
        self.E = E
        self.Ec = max(E, 1)
        if E:
            self.num_envs = E
        self.observation_space = self.single_observation_space = spaces.Box(-1e6, 1e6, (4,), np.float32)
        self.action_space = self.single_action_space = spaces.Discrete(3)
        self.bits = script_bits
        self.n = n_scripted_steps
        self.k = 0                 # global step counter (never reset)
        self.serial = 0
        self.steps = []            # per step: dict(obs_before, reward, done, obs_after) with (Ec,...) arrays
        self.cur = None
        self.resets = 0

    def _obs(self):
        o = np.zeros((self.Ec, 4), dtype=np.float32)
        for e in range(self.Ec):
            self.serial += 1
            o[e] = [self.serial, e, self.k, 1.0]
        return o

    def reset(self, **kw):
        self.resets += 1
        self.cur = self._obs()
        return (self.cur.copy() if self.E else self.cur[0].copy()), {}

    def step(self, action):
        k = self.k
        term = np.zeros(self.Ec, dtype=bool)
        trunc = np.zeros(self.Ec, dtype=bool)
        rew = np.zeros(self.Ec, dtype=np.float64)
        for e in range(self.Ec):
            done = k < self.n and (self.bits >> (k * self.Ec + e)) & 1
            if done and (k + e) % 2 == 0:
                term[e] = True
            elif done:
                trunc[e] = True
            rew[e] = 2.0 ** ((k * self.Ec + e) % 12) + 0.125 * e
        self.k += 1
        before = self.cur
        self.cur = self._obs()
        self.steps.append({"obs_before": before.copy(), "reward": rew.copy(), "done": (term | trunc).astype(np.int64), "obs_after": self.cur.copy(),
                           "action": np.array(action).copy()})
        if self.E:
            return self.cur.copy(), rew.copy(), term.copy(), trunc.copy(), {}
        return self.cur[0].copy(), float(rew[0]), bool(term[0]), bool(trunc[0]), {}
