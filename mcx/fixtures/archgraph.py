"""Shared exploration for C03 / C04: the graph of architectures reachable by clone-and-mutate.

State      : a live evolvable module / network (the object that was mutated last).
Edge       : c = state.clone(); getattr(c, <advertised method>)(**explicit args) with every internal
             np.random draw scripted to one of its legal answers (the answers are discovered from the
             draw's own arguments on the real code and ALL of them are enumerated).
Canonical  : (class, typed init_dict, ((param name, shape)...), advertised methods of the clone).
Oracles    : OracleC03 (valid / bounded / rebuildable / advertised effect) and
             OracleC04 (weights reused on the common index range / no-op keeps function / clone reproduces).

Nothing in here decides by sampling: torch's generator is pinned per edge (fresh-unit initialisation is not
quantified over), every numpy draw is an enumerated environment answer.
"""
from __future__ import annotations

import copy
import dataclasses
import inspect
import json

import numpy as np
import torch
import torch.nn as nn
from gymnasium import spaces

from agilerl.modules.base import EvolvableModule, EvolvableWrapper
from agilerl.modules.cnn import EvolvableCNN
from agilerl.modules.custom_components import NoisyLinear
from agilerl.modules.lstm import EvolvableLSTM
from agilerl.modules.mlp import EvolvableMLP
from agilerl.modules.multi_input import EvolvableMultiInput
from agilerl.modules.resnet import EvolvableResNet
from agilerl.modules.simba import EvolvableSimBa
from agilerl.networks.actors import DeterministicActor, StochasticActor
from agilerl.networks.base import EvolvableNetwork
from agilerl.networks.q_networks import ContinuousQNetwork, QNetwork, RainbowQNetwork
from agilerl.networks.value_networks import ValueNetwork

from ..core import HarnessError, Partial, jhash
from ..rand import patched_many
from ..stategraph import explore

SEED = 20240926


def _seed(s):
    # torch.manual_seed also queues cuda/xpu seeding and formats a stack trace each time (0.7 ms); CPU generator is all we use
    torch.default_generator.manual_seed(int(s))

# ------------------------------------------------------------------------------------------
# spaces and tight configurations

VEC = spaces.Box(-1.0, 1.0, (4,), dtype=np.float32)
IMG = spaces.Box(0.0, 1.0, (3, 12, 12), dtype=np.float32)
IMG24 = spaces.Box(0.0, 1.0, (3, 24, 24), dtype=np.float32)
SEQ = spaces.Box(-1.0, 1.0, (5, 4), dtype=np.float32)


def _space(name):
    if name == "vector":
        return VEC
    if name == "image":
        return IMG
    if name == "seq":
        return SEQ
    if name == "dict":
        return spaces.Dict({"img": IMG, "vec": VEC})
    if name == "tuple":
        return spaces.Tuple((IMG, VEC))
    if name == "dictseq":
        return spaces.Dict({"seq": SEQ, "vec": VEC})
    raise HarnessError(f"unknown space {name}")


def MLP_T(**kw):
    d = dict(hidden_size=[32], min_hidden_layers=1, max_hidden_layers=2, min_mlp_nodes=16, max_mlp_nodes=64)
    d.update(kw)
    return d


def CNN_T(**kw):
    d = dict(channel_size=[8, 8], kernel_size=[3, 3], stride_size=[1, 1], min_hidden_layers=1, max_hidden_layers=2,
             min_channel_size=8, max_channel_size=16, layer_norm=True)
    d.update(kw)
    return d


def LSTM_T(**kw):
    d = dict(hidden_size=16, num_layers=1, min_hidden_size=16, max_hidden_size=48, min_layers=1, max_layers=2)
    d.update(kw)
    return d


def SIMBA_T(**kw):
    d = dict(hidden_size=32, num_blocks=1, min_blocks=1, max_blocks=2, min_mlp_nodes=16, max_mlp_nodes=64)
    d.update(kw)
    return d


def RESNET_T(**kw):
    d = dict(channel_size=8, kernel_size=3, stride_size=1, num_blocks=1, min_blocks=1, max_blocks=2,
             min_channel_size=4, max_channel_size=24)
    d.update(kw)
    return d


LAT = dict(latent_dim=16, min_latent_dim=8, max_latent_dim=40)


def MI_T(**kw):
    d = dict(LAT, vector_space_mlp=False, cnn_config=CNN_T(), mlp_config=MLP_T(), lstm_config=LSTM_T())
    d.update(kw)
    return d


# -- module specs ---------------------------------------------------------------------------
MODULE_SPECS = {
    # name: (builder, probe kind, feature tag)
    "mlp/ln/L1-3": lambda: EvolvableMLP(4, 3, **MLP_T(max_hidden_layers=3, layer_norm=True)),
    "mlp/plain/L1-2/off-grid-bounds": lambda: EvolvableMLP(4, 3, **MLP_T(hidden_size=[16, 16], layer_norm=False, min_mlp_nodes=12, max_mlp_nodes=72)),
    "mlp/noisy-outln": lambda: EvolvableMLP(4, 3, **MLP_T(noisy=True, output_layernorm=True, output_activation="Tanh")),
    "cnn2d/k1/add-layer-feasible/off-grid-bounds": lambda: EvolvableCNN([3, 12, 12], 5, **CNN_T(channel_size=[8], kernel_size=[1], stride_size=[1], layer_norm=False, min_channel_size=6, max_channel_size=20)),
    "cnn2d/bn/L2": lambda: EvolvableCNN([3, 12, 12], 5, **CNN_T()),
    "cnn2d/24px/stride2": lambda: EvolvableCNN([3, 24, 24], 5, **CNN_T(channel_size=[8], kernel_size=[2], stride_size=[2], layer_norm=False)),
    # short, wide image: kernels are limited by the SMALLER spatial side of every feature map
    "cnn2d/nonsquare/6x24": lambda: EvolvableCNN([3, 6, 24], 5, **CNN_T(channel_size=[8], kernel_size=[2], stride_size=[1], layer_norm=False)),
    "cnn2d/tuple-kernels": lambda: EvolvableCNN([3, 12, 12], 5, **CNN_T(kernel_size=[(3, 3), (3, 3)], layer_norm=False)),
    "cnn3d/int-kernels": lambda: EvolvableCNN([3, 12, 12], 5, block_type="Conv3d", sample_input=torch.zeros(1, 3, 2, 12, 12), **CNN_T(layer_norm=True)),
    "cnn3d/tuple-kernels/depth-on-layer2": lambda: EvolvableCNN([3, 12, 12], 5, block_type="Conv3d", sample_input=torch.zeros(1, 3, 2, 12, 12), **CNN_T(kernel_size=[(1, 3, 3), (2, 3, 3)], layer_norm=False)),
    "lstm/L1-2": lambda: EvolvableLSTM(4, num_outputs=3, **LSTM_T()),
    "lstm/L2/h32/off-grid-bounds": lambda: EvolvableLSTM(4, num_outputs=3, **LSTM_T(hidden_size=32, num_layers=2, min_hidden_size=12, max_hidden_size=56)),
    "simba/B1-2": lambda: EvolvableSimBa(4, 3, **SIMBA_T()),
    "simba/B2/off-grid-bounds": lambda: EvolvableSimBa(4, 3, **SIMBA_T(hidden_size=16, num_blocks=2, min_mlp_nodes=12, max_mlp_nodes=72)),
    "resnet/B1-2": lambda: EvolvableResNet([3, 12, 12], 5, **RESNET_T()),
    "resnet/B2/c16/off-grid-bounds": lambda: EvolvableResNet([3, 12, 12], 5, **RESNET_T(channel_size=16, num_blocks=2, min_channel_size=12, max_channel_size=28)),
    "multiinput/dict": lambda: EvolvableMultiInput(_space("dict"), 5, **MI_T()),
    "multiinput/dict/vector-mlp": lambda: EvolvableMultiInput(_space("dict"), 5, **MI_T(vector_space_mlp=True)),
    "multiinput/tuple": lambda: EvolvableMultiInput(_space("tuple"), 5, **MI_T(cnn_config=CNN_T(layer_norm=False))),
    "multiinput/dictseq/recurrent": lambda: EvolvableMultiInput(_space("dictseq"), 5, **MI_T(recurrent=True)),
    "multiinput/dictseq/flattened/vector-mlp": lambda: EvolvableMultiInput(_space("dictseq"), 5, **MI_T(recurrent=False, vector_space_mlp=True)),
}

MODULE_OBS = {
    "mlp": "vector", "simba": "vector", "lstm": "seq", "resnet": "image", "cnn2d": "image", "cnn3d": "image3d",
}


def _module_obs_kind(name):
    if name.startswith("multiinput/"):
        return name.split("/")[1]
    if name.startswith("cnn2d/24px"):
        return "image24"
    if name.startswith("cnn2d/nonsquare"):
        return "image6x24"
    return MODULE_OBS[name.split("/")[0]]


# -- network specs --------------------------------------------------------------------------
ACT_BOX = spaces.Box(-1.0, 1.0, (2,), dtype=np.float32)
ACT_DISC = spaces.Discrete(3)
ACT_MD = spaces.MultiDiscrete([2, 3])
ACT_MB = spaces.MultiBinary(3)


def _enc_cfg(space):
    if space == "vector":
        return MLP_T()
    if space == "image":
        return CNN_T()
    if space in ("dict", "tuple"):
        return MI_T(vector_space_mlp=(space == "dict"))
    if space == "seq":
        return LSTM_T()
    raise HarnessError(space)


def _net(cls, space, action_space=None, **extra):
    def build():
        ex = dict(extra)
        kw = dict(LAT)
        kw["encoder_config"] = copy.deepcopy(ex.pop("encoder_config", None) or _enc_cfg(space))
        kw["head_config"] = MLP_T()
        kw.update(ex)
        obs_space = _space(space)
        if cls is ValueNetwork:
            return cls(obs_space, **kw)
        if cls is RainbowQNetwork:
            return cls(obs_space, action_space, support=torch.linspace(-1.0, 1.0, 5), num_atoms=5, **kw)
        return cls(obs_space, action_space, **kw)

    return build


NETWORK_SPECS = {}
_STOCH_ACT = {"vector": ACT_BOX, "image": ACT_DISC, "dict": ACT_MD, "tuple": ACT_MB}
for _sp in ("vector", "image", "dict", "tuple"):
    NETWORK_SPECS[f"QNetwork/{_sp}"] = _net(QNetwork, _sp, ACT_DISC)
    NETWORK_SPECS[f"RainbowQNetwork/{_sp}"] = _net(RainbowQNetwork, _sp, ACT_DISC)
    NETWORK_SPECS[f"ContinuousQNetwork/{_sp}"] = _net(ContinuousQNetwork, _sp, ACT_BOX)
    NETWORK_SPECS[f"ValueNetwork/{_sp}"] = _net(ValueNetwork, _sp)
    NETWORK_SPECS[f"DeterministicActor/{_sp}"] = _net(DeterministicActor, _sp, ACT_BOX if _sp != "image" else ACT_DISC)
    NETWORK_SPECS[f"StochasticActor/{_sp}"] = _net(StochasticActor, _sp, _STOCH_ACT[_sp])
NETWORK_SPECS["QNetwork/vector/simba"] = lambda: QNetwork(VEC, ACT_DISC, encoder_config=SIMBA_T(), head_config=MLP_T(), simba=True, **LAT)
NETWORK_SPECS["ValueNetwork/seq/recurrent"] = lambda: ValueNetwork(SEQ, encoder_config=LSTM_T(), head_config=MLP_T(), recurrent=True, **LAT)
NETWORK_SPECS["StochasticActor/seq/recurrent/squash"] = lambda: StochasticActor(SEQ, ACT_BOX, encoder_config=LSTM_T(), head_config=MLP_T(), recurrent=True, squash_output=True, **LAT)
NETWORK_SPECS["DeterministicActor/image/resnet-encoder"] = lambda: DeterministicActor(
    IMG, ACT_BOX, encoder_cls="ResNet", encoder_config=dict(RESNET_T(), input_shape=[3, 12, 12]), head_config=MLP_T(), **LAT)
NETWORK_SPECS["ContinuousQNetwork/image/conv3d-2agents"] = lambda: ContinuousQNetwork(
    IMG, ACT_BOX, encoder_config=CNN_T(sample_input=torch.zeros(1, 3, 2, 12, 12)), head_config=MLP_T(), n_agents=2, **LAT)

NETWORK_SPECS["ValueNetwork/image/single-layer-cnn"] = lambda: ValueNetwork(
    IMG, encoder_config=CNN_T(channel_size=[8], kernel_size=[3], stride_size=[1]), head_config=MLP_T(), **LAT)

# the library's default configurations with default bounds (depth-bounded, thorough tier only)
DEFAULT_SPECS = {
    "defaults/vector/QNetwork": lambda: QNetwork(VEC, ACT_DISC),
    "defaults/vector/RainbowQNetwork": lambda: RainbowQNetwork(VEC, ACT_DISC, support=torch.linspace(-1.0, 1.0, 51)),
    "defaults/image/DeterministicActor": lambda: DeterministicActor(IMG, ACT_BOX),
    "defaults/dict/ContinuousQNetwork": lambda: ContinuousQNetwork(_space("dict"), ACT_BOX),
    "defaults/tuple/StochasticActor": lambda: StochasticActor(_space("tuple"), ACT_DISC),
    "defaults/vector/ValueNetwork-simba": lambda: ValueNetwork(VEC, simba=True),
}
NETWORK_SPECS.update(DEFAULT_SPECS)

SPECS = dict(MODULE_SPECS)
SPECS.update(NETWORK_SPECS)


def obs_kind(spec):
    if spec in MODULE_SPECS:
        return _module_obs_kind(spec)
    k = spec.split("/")[1]
    if "conv3d" in spec:
        return "image3d"
    return k


def build(spec):
    if spec not in SPECS:
        raise HarnessError(f"unknown spec {spec}")
    _seed(SEED)
    try:
        return SPECS[spec]()
    except Exception as e:  # the initial configurations are legal by construction
        raise HarnessError(f"cannot build initial configuration {spec}: {e!r}")


# ------------------------------------------------------------------------------------------
# probes


def _pat(shape, lo, hi, phase):
    n = int(np.prod(shape))
    x = torch.sin(torch.arange(n, dtype=torch.float64) * 0.7310585 + phase)
    x = (x + 1.0) / 2.0 * (hi - lo) + lo
    return x.reshape(shape).to(torch.float32)


def make_obs(kind, B, phase=0.0):
    if kind == "vector":
        return _pat((B, 4), -1, 1, phase)
    if kind == "image":
        return _pat((B, 3, 12, 12), 0, 1, phase)
    if kind == "image24":
        return _pat((B, 3, 24, 24), 0, 1, phase)
    if kind == "image6x24":
        return _pat((B, 3, 6, 24), 0, 1, phase)
    if kind == "image3d":
        return _pat((B, 3, 2, 12, 12), 0, 1, phase)
    if kind == "seq":
        return _pat((B, 5, 4), -1, 1, phase)
    if kind == "dict":
        return {"img": make_obs("image", B, phase), "vec": make_obs("vector", B, phase + 1)}
    if kind == "tuple":
        return (make_obs("image", B, phase), make_obs("vector", B, phase + 1))
    if kind == "dictseq":
        return {"seq": make_obs("seq", B, phase), "vec": make_obs("vector", B, phase + 1)}
    raise HarnessError(kind)


def forward(m, kind, B, phase=0.0):
    """-> list of output tensors (flattened structure). torch's generator is pinned (sampling heads)."""
    obs = make_obs(kind, B, phase)
    _seed(SEED + B)
    with torch.no_grad():
        if isinstance(m, ContinuousQNetwork):
            out = m(obs, _pat((B, 2), -1, 1, phase + 2))
        else:
            out = m(obs)
    if isinstance(out, (tuple, list)):
        return [o for o in out]
    return [out]


def declared_shapes(m, B):
    """list of expected shapes (None = any / may be None) matching forward()'s list."""
    if isinstance(m, StochasticActor):
        a = m.action_space
        if isinstance(a, spaces.Box):
            act = (B, int(np.prod(a.shape)))
        elif isinstance(a, spaces.Discrete):
            act = (B,)
        elif isinstance(a, spaces.MultiDiscrete):
            act = (B, len(a.nvec))
        else:
            act = (B, int(a.n))
        return [act, (B,), "entropy"]
    if isinstance(m, (QNetwork, RainbowQNetwork)):
        return [(B, int(spaces.flatdim(m.action_space)))]
    if isinstance(m, (ContinuousQNetwork, ValueNetwork)):
        return [(B, 1)]
    if isinstance(m, DeterministicActor):
        return [(B, int(spaces.flatdim(m.action_space)))]
    return [(B, int(m.num_outputs))]


def has_batchnorm(m):
    return any(isinstance(x, nn.modules.batchnorm._BatchNorm) for x in nn.Module.modules(m))


# ------------------------------------------------------------------------------------------
# architecture description / bounds / canonical key


def _i(x):
    return int(x)


def unwrap(m):
    return m.wrapped if isinstance(m, EvolvableWrapper) else m


def arch(m):
    m = unwrap(m)
    if isinstance(m, EvolvableNetwork):
        return {"t": "net", "cls": type(m).__name__, "latent_dim": _i(m.latent_dim),
                "b": {"nmin": _i(m.min_latent_dim), "nmax": _i(m.max_latent_dim)},
                "encoder": arch(m.encoder), "head_net": arch(m.head_net)}
    if isinstance(m, EvolvableMultiInput):
        return {"t": "mi", "cls": type(m).__name__, "latent_dim": _i(m.latent_dim),
                "b": {"nmin": _i(m.min_latent_dim), "nmax": _i(m.max_latent_dim)},
                "feature_net": {k: arch(v) for k, v in m.feature_net.items() if isinstance(v, EvolvableModule)}}
    if isinstance(m, EvolvableMLP):
        return {"t": "mlp", "cls": type(m).__name__, "hidden_size": [_i(h) for h in m.hidden_size],
                "b": {"lmin": _i(m.min_hidden_layers), "lmax": _i(m.max_hidden_layers), "nmin": _i(m.min_mlp_nodes), "nmax": _i(m.max_mlp_nodes)}}
    if isinstance(m, EvolvableCNN):
        ks = [[_i(x) for x in k] if isinstance(k, (tuple, list)) else _i(k) for k in m.mut_kernel_size.sizes]
        return {"t": "cnn", "cls": type(m).__name__, "channel_size": [_i(c) for c in m.channel_size], "kernel_size": ks,
                "stride_size": [_i(s) for s in m.stride_size], "block": m.block_type, "in_hw": [_i(x) for x in m.input_shape[-2:]],
                "b": {"lmin": _i(m.min_hidden_layers), "lmax": _i(m.max_hidden_layers), "nmin": _i(m.min_channel_size), "nmax": _i(m.max_channel_size)}}
    if isinstance(m, EvolvableLSTM):
        return {"t": "lstm", "cls": type(m).__name__, "hidden_size": _i(m.hidden_size), "num_layers": _i(m.num_layers),
                "b": {"lmin": _i(m.min_layers), "lmax": _i(m.max_layers), "nmin": _i(m.min_hidden_size), "nmax": _i(m.max_hidden_size)}}
    if isinstance(m, EvolvableSimBa):
        return {"t": "simba", "cls": type(m).__name__, "hidden_size": _i(m.hidden_size), "num_blocks": _i(m.num_blocks),
                "b": {"lmin": _i(m.min_blocks), "lmax": _i(m.max_blocks), "nmin": _i(m.min_mlp_nodes), "nmax": _i(m.max_mlp_nodes)}}
    if isinstance(m, EvolvableResNet):
        return {"t": "resnet", "cls": type(m).__name__, "channel_size": _i(m.channel_size), "num_blocks": _i(m.num_blocks),
                "b": {"lmin": _i(m.min_blocks), "lmax": _i(m.max_blocks), "nmin": _i(m.min_channel_size), "nmax": _i(m.max_channel_size)}}
    raise HarnessError(f"no architecture description for {type(m).__name__}")


def kint(k):
    return k[-1] if isinstance(k, list) else k


def conv_out(n, k, s):
    return (n - k) // s + 1


def bounds_problems(a, path=""):
    """declared minimum/maximum respected everywhere in the (nested) architecture description"""
    out = []
    t, b = a["t"], a["b"]

    def rng(what, v, lo, hi):
        if not (lo <= v <= hi):
            out.append((f"{a['cls']}/{what}", f"{path or '<root>'}: {what}={v} outside declared [{lo}, {hi}]"))

    if t in ("net", "mi"):
        rng("latent_dim", a["latent_dim"], b["nmin"], b["nmax"])
        subs = [("encoder", a["encoder"]), ("head_net", a["head_net"])] if t == "net" else [(f"feature_net.{k}", v) for k, v in a["feature_net"].items()]
        for n, s in subs:
            out += bounds_problems(s, f"{path}.{n}".strip("."))
    elif t == "mlp":
        rng("hidden_layers", len(a["hidden_size"]), b["lmin"], b["lmax"])
        for h in a["hidden_size"]:
            rng("mlp_nodes", h, b["nmin"], b["nmax"])
    elif t == "cnn":
        L = len(a["channel_size"])
        rng("hidden_layers", L, b["lmin"], b["lmax"])
        if not (len(a["kernel_size"]) == len(a["stride_size"]) == L):
            out.append((f"{a['cls']}/ragged-lists", f"{path}: channel/kernel/stride lists of different length {a}"))
            return out
        for c in a["channel_size"]:
            rng("channel_size", c, b["nmin"], b["nmax"])
        n = min(a["in_hw"])
        for i in range(L):
            k, s = kint(a["kernel_size"][i]), a["stride_size"][i]
            if not (1 <= k <= n) or s < 1:
                out.append((f"{a['cls']}/kernel_size", f"{path}: layer {i} kernel {k} stride {s} does not fit its {n}px feature map"))
                break
            n = conv_out(n, k, s)
    elif t == "lstm":
        rng("layers", a["num_layers"], b["lmin"], b["lmax"])
        rng("hidden_size", a["hidden_size"], b["nmin"], b["nmax"])
    elif t == "simba":
        rng("blocks", a["num_blocks"], b["lmin"], b["lmax"])
        rng("mlp_nodes", a["hidden_size"], b["nmin"], b["nmax"])
    elif t == "resnet":
        rng("blocks", a["num_blocks"], b["lmin"], b["lmax"])
        rng("channel_size", a["channel_size"], b["nmin"], b["nmax"])
    return out


def typed(o):
    """JSON-able, type-preserving (python int vs numpy scalar matters to isinstance checks in constructors)."""
    if isinstance(o, dict):
        return {str(k): typed(v) for k, v in sorted(o.items(), key=lambda kv: str(kv[0]))}
    if isinstance(o, (list, tuple)):
        return [typed(x) for x in o]
    if isinstance(o, bool) or o is None or isinstance(o, (int, float, str)):
        return o
    if isinstance(o, np.generic):
        return f"np.{type(o).__name__}:{o.item()}"
    if torch.is_tensor(o):
        return ["tensor", list(o.shape)]
    if isinstance(o, np.ndarray):
        return ["ndarray", list(o.shape)]
    if dataclasses.is_dataclass(o) and not isinstance(o, type):
        return typed(dataclasses.asdict(o))
    if isinstance(o, type):
        return o.__name__
    return repr(o)


def param_shapes(m):
    return tuple((n, tuple(p.shape)) for n, p in m.named_parameters())


def canon(m):
    adv = getattr(m, "_vf_adv", None)
    if adv is None:
        raise HarnessError("state without advertised-method annotation")
    return (type(m).__name__, json.dumps(typed(m.init_dict), sort_keys=True), param_shapes(m), tuple(adv))


def resolve(m, parts):
    cur = m
    for part in parts:
        cur = unwrap(cur)
        cur = cur[part] if isinstance(cur, nn.ModuleDict) else getattr(cur, part)
    return unwrap(cur)


# ------------------------------------------------------------------------------------------
# scripted draws


_T_SCALAR_RANDINT = type(np.random.randint(0, 1))  # what numpy really hands back (python int for size=None)


class Draws:
    """Answers the first len(answers) draws from the script; every further draw is answered with the first element
    of its domain and the remaining elements are recorded as unexplored siblings (systematic DFS over the draw tree:
    every legal answer of every draw gets its own execution, no execution is wasted or aborted)."""

    def __init__(self, answers, auto="first"):
        self.answers = list(answers)
        self.i = 0
        self.log = []  # (kind, answer)
        self.siblings = []  # complete prefixes still to run
        self.auto = auto  # in-place pairs only: "last" answers unscripted draws with the last element of the domain

    def _next(self, kind, dom):
        if not dom:
            raise HarnessError(f"empty draw domain ({kind})")
        if self.i < len(self.answers):
            a = self.answers[self.i]
            if a not in dom:
                raise HarnessError(f"scripted answer {a} not in the draw's domain {dom} ({kind})")
        else:
            a = dom[0] if self.auto == "first" else dom[-1]
            prefix = [x for _, x in self.log]
            self.siblings += [prefix + [b] for b in dom if b != a]
        self.i += 1
        self.log.append((kind, a))
        return a

    @property
    def full(self):
        return [a for _, a in self.log]

    def randint(self, low, high=None, size=None, dtype=int):
        if high is None:
            low, high = 0, low
        low, high = int(low), int(high)
        if low >= high:
            raise ValueError("low >= high")  # exactly what numpy does
        a = self._next("randint", list(range(low, high)))
        if size is None:
            return _T_SCALAR_RANDINT(a)
        return np.full(size, a, dtype=np.int64)

    def choice(self, a, size=None, replace=True, p=None):
        dom = list(range(int(a))) if isinstance(a, (int, np.integer)) else [x.item() if isinstance(x, np.generic) else x for x in list(a)]
        v = self._next("choice", dom)
        arr = np.asarray(dom)
        if size is None:
            return arr.dtype.type(v)
        return np.full(size, v, dtype=arr.dtype)


def _forbidden(name):
    def f(*a, **k):
        raise HarnessError(f"unscripted random source np.random.{name} used inside a mutation method")

    return f


_FORBIDDEN = ["random", "rand", "randn", "uniform", "normal", "random_sample", "permutation", "shuffle", "default_rng", "beta", "binomial"]


def scripted(d: Draws):
    items = [(np.random, "randint", d.randint), (np.random, "choice", d.choice)]
    items += [(np.random, n, _forbidden(n)) for n in _FORBIDDEN]
    return patched_many(items)


# ------------------------------------------------------------------------------------------
# operation alphabet

NP = np.int64  # explicit integer arguments carry the type the library's own returned mutation dicts carry


def arg_choices(target, method, level):
    """explicit-argument alphabet of one advertised method (None = let the method draw; every answer is enumerated)."""
    sig = inspect.signature(getattr(type(target), method))
    names = [n for n in sig.parameters if n != "self"]
    a = arch(target)
    per = {}
    for n in names:
        if n == "hidden_layer":
            L = len(a["hidden_size"]) if a["t"] == "mlp" else len(a["channel_size"])
            if method == "change_kernel":
                vals = [None, 0, L - 1] if level <= 0 else [None] + list(range(L))
            else:
                vals = [None, L] if level <= 0 else [None] + list(range(L + 1))
            per[n] = sorted(set(v for v in vals if v is None or v >= 0), key=lambda v: (-1 if v is None else v))
        elif n == "numb_new_nodes":
            lat = a["t"] in ("net", "mi")
            per[n] = [None, 8 if lat else 16] + ([16 if lat else 32] if level > 0 else [])
        elif n == "numb_new_channels":
            per[n] = [None, 8] + ([16] if level > 0 else [])
        elif n == "kernel_size":
            # explicit kernels stay inside the declared maximum of every layer they can be applied to
            per[n] = [None, 1] + ([2] if min(declared_max_kernels(a)[0]) >= 2 else [])
        else:
            raise HarnessError(f"mutation method {type(target).__name__}.{method} has an argument the alphabet does not know: {n}")
    if level < 0:
        combos = [{n: None for n in names}, {n: per[n][1] if len(per[n]) > 1 else None for n in names}] if names else [{}]
    else:
        combos = [{}]
        for n in names:
            combos = [dict(c, **{n: v}) for c in combos for v in per[n]]
    out = []
    for c in combos:
        c = {k: v for k, v in c.items() if v is not None}
        if c not in out:
            out.append(c)
    return out


def typed_kwargs(kw):
    out = {}
    for k, v in kw.items():
        out[k] = v if k == "kernel_size" else NP(v)  # kernel sizes are python ints in the library's own return dicts
    return out


class Ctx:
    def __init__(self, spec, level, oracle, p, task):
        self.spec, self.level, self.oracle, self.p, self.task = spec, level, oracle, p, task
        self.kind = obs_kind(spec)
        self.siblings = []
        self.root_cls = None

    def replay(self, path):
        t = {k: v for k, v in self.task.items() if not k.startswith("_") and k != "pair"}
        t["path"] = path
        return t

    def replay_pair(self, path, op1, op2):
        t = {k: v for k, v in self.task.items() if not k.startswith("_") and k not in ("pair", "path")}
        t["pair"] = {"path": path, "op1": op1, "op2": op2}
        return t


def ops_fn_factory(ctx: Ctx):
    def ops_fn(st):
        stack = []
        for name in st._vf_adv:
            parts = name.split(".")
            try:
                target = resolve(st, parts[:-1])
            except Exception as e:
                raise HarnessError(f"cannot resolve advertised method {name}: {e!r}")
            for kw in arg_choices(target, parts[-1], ctx.level):
                stack.append({"m": name, "kw": kw, "draws": []})
        while stack:
            op = stack.pop(0)
            ctx.siblings = []
            yield op
            sib, ctx.siblings = ctx.siblings, []
            stack[:0] = [{"m": op["m"], "kw": op["kw"], "draws": d} for d in sib]
        pd = ctx.task.get("pair_depth", -1)
        if pd is None or len(getattr(st, "_vf_path", [])) <= pd:
            run_pairs(st, ctx)

    return ops_fn


# ------------------------------------------------------------------------------------------
# in-place pairs: clone ONCE, apply m1 and then m2 on the same object (no clone in between)


def component(name):
    return tuple(name.split(".")[:-1])


def pair_selected(spec, m1, m2):
    """module specs: the two methods live in the same component or one component contains the other (for a plain module:
    every ordered pair); network specs: one component strictly contains the other (parent re-creation vs nested mutation)."""
    c1, c2 = component(m1), component(m2)
    related = c1 == c2[:len(c1)] or c2 == c1[:len(c2)]
    if spec in NETWORK_SPECS:
        return related and c1 != c2
    return related


def _exec_op(c, op, seed_off):
    d = Draws(op["draws"], auto=op.get("auto", "first"))
    _seed(SEED + seed_off)
    try:
        with scripted(d):
            getattr(c, op["m"])(**typed_kwargs(op["kw"]))
    finally:
        op["draws"][:] = d.full
    return d


def pair_once(st, op1, op2, ctx, rp, with_clone):
    """one execution of the pair; the SECOND step is judged (from the architecture / weights observed after the first).
    with_clone=True is the control experiment (the library's usual clone between the two mutations)."""
    p, oracle = ctx.p, ctx.oracle
    _seed(SEED)
    c = st.clone()
    oracle.before(c, ctx)
    try:
        _exec_op(c, op1, 1)
    except HarnessError:
        raise
    except Exception:
        return "m1-raised"  # judged on the single edge
    if with_clone:
        _seed(SEED)
        try:
            c = c.clone()
        except Exception:
            return "clone-after-m1-raised"  # judged on the single edge
    if op2["m"] not in c.mutation_methods:
        return "m2-not-advertised-after-m1"
    a_mid, s_mid = arch(c), param_shapes(c)
    pre_mid = oracle.mid(c, ctx)
    try:
        d2 = _exec_op(c, op2, 4)
    except HarnessError:
        raise
    except Exception as ex:
        p.evaluations += 1
        if oracle.JUDGES_MUTATION_EXCEPTIONS:
            p.viol(f"{type(c).__name__}/{_gen(op2['m'])}/exception/{type(ex).__name__}{_feat(c, op2['m'])}",
                   f"{op2['m']}({op2['kw']}) draws={op2['draws']} raised {ex!r} in architecture {_short(a_mid)}", rp)
        return "m2-raised"
    p.evaluations += 1
    e = Edge()
    e.op, e.draws, e.ret, e.a0, e.shapes0, e.replay = op2, list(d2.log), None, a_mid, s_mid, rp
    e.applied = c.last_mutation_attr
    e.a1, e.shapes1 = arch(c), param_shapes(c)
    e.changed = (e.a0 != e.a1) or (e.shapes0 != e.shapes1)
    cl = annotate(c, ctx, rp)
    oracle.after(pre_mid, c, cl, e, ctx)
    return "done:" + jhash([e.a1, e.shapes1, e.applied])


def pair_key(base, root_cls, is_network, m1, m2):
    """key of a verdict that only the in-place order produces: root kind + direction of the pair + kind of problem.
    (one stale-reference defect shows up under every root class and every nested method; those details stay in the text)"""
    c1, c2 = component(m1), component(m2)
    rel = "same-component" if c1 == c2 else ("parent-then-nested" if c1 == c2[:len(c1)] else "nested-then-parent")
    parts = base.split("/")
    if parts and parts[0] == root_cls:
        parts = parts[1:]
    if parts and parts[0] == _gen(m2):
        parts = parts[1:]
    if parts[:2] == ["rebuild-from-init_dict", "load_state_dict-strict"]:
        parts = ["rebuild-from-init_dict"] + parts[3:]
    parts = [x for x in parts if x not in ("Conv3d", "Conv2d-tuple-kernels")]
    kind = "EvolvableNetwork" if is_network else root_cls
    return "/".join([kind, rel] + parts + ["in-place-pair"])


def judge_pair(st, op1, op2, ctx, rp):
    real = ctx.p
    s1 = Partial()
    ctx.p = s1
    try:
        status = pair_once(st, op1, op2, ctx, rp, with_clone=False)
    finally:
        ctx.p = real
    real.transitions += 1
    real.evaluations += s1.evaluations
    real.nontrivial |= s1.nontrivial
    real.outcomes |= {"in-place-pair|" + o for o in s1.outcomes}
    for k, v in s1.extra.items():
        if k != "violating_cases":
            real.extra["in_place_pairs:" + k] += v
    real.extra["in_place_pairs"] += 1
    real.extra["in_place_pairs:" + status.split(":")[0]] += 1
    keys = sorted({v["key"] for v in s1.violations})
    if s1.violations:
        # control: the same two mutations with the library's usual clone in between. A verdict the control reproduces is
        # not specific to the in-place order and keeps its plain key; otherwise the key is tagged.
        s2 = Partial()
        ctx.p = s2
        try:
            pair_once(st, copy.deepcopy(op1), copy.deepcopy(op2), ctx, rp, with_clone=True)
        finally:
            ctx.p = real
        real.extra["in_place_pairs:control_runs"] += 1
        kc = {v["key"] for v in s2.violations}
        for v in s1.violations:
            key = v["key"] if v["key"] in kc else pair_key(v["key"], type(st).__name__, isinstance(st, EvolvableNetwork), op1["m"], op2["m"])
            real.viol(key, f"[in place, no clone in between: {op1['m']}({op1['kw']}) draws={op1['draws']} THEN {op2['m']}] " + v["what"], rp,
                      observed=v.get("observed"), expected=v.get("expected"))
        keys = sorted({(k if k in kc else pair_key(k, type(st).__name__, isinstance(st, EvolvableNetwork), op1["m"], op2["m"])) for k in keys})
    real.dg("pair", op1["m"], op1["draws"], op2["m"], op2["draws"], status, keys)


def run_pairs(st, ctx):
    names = list(st._vf_adv)
    path = list(getattr(st, "_vf_path", []))
    for m1 in names:
        for m2 in names:
            if not pair_selected(ctx.spec, m1, m2):
                continue
            op1 = {"m": m1, "kw": {}, "draws": []}
            op2 = {"m": m2, "kw": {}, "draws": []}
            judge_pair(st, op1, op2, ctx, ctx.replay_pair(path, op1, op2))
            c1, c2 = component(m1), component(m2)
            if len(c2) < len(c1) and c2 == c1[:len(c2)]:
                # nested mutation, then the PARENT's mutation with the largest amounts (typically refused by a bound:
                # the parent is re-created although nothing may change)
                first = list(op2["draws"])
                op1 = {"m": m1, "kw": {}, "draws": []}
                op2 = {"m": m2, "kw": {}, "draws": [], "auto": "last"}
                rp = ctx.replay_pair(path, op1, op2)
                judge_pair(st, op1, op2, ctx, rp)
                if op2["draws"] == first:
                    ctx.p.extra["in_place_pairs:last_answer_variant_equal_to_first"] += 1


class Edge:
    __slots__ = ("op", "draws", "ret", "a0", "a1", "applied", "shapes0", "shapes1", "replay", "changed")


def annotate(m, ctx, replay):
    """clone the state once: the clone's advertised methods are the operations enabled in this state"""
    try:
        _seed(SEED)
        cl = m.clone()
    except Exception as e:
        ctx.p.viol(f"{type(m).__name__}/clone/exception/{type(e).__name__}", f"clone() of a reachable architecture raised {e!r}; init_dict={typed(m.init_dict)}", replay)
        m._vf_adv = ()
        return None
    m._vf_adv = tuple(sorted(cl.mutation_methods))
    return cl


def apply_fn_factory(ctx: Ctx):
    p, oracle = ctx.p, ctx.oracle

    def apply(st, op, path):
        ctx.siblings = []
        rp = ctx.replay(path)  # holds `op` itself: completing op["draws"] below completes the replay
        if getattr(st, "_vf_corrupt", False):
            return None        # the stored state was changed through one of its clones (reported on that edge): no further edges from it
        _seed(SEED)
        try:
            st_before = (arch(st), param_shapes(st), typed(st.init_dict))
        except Exception:
            st_before = None
        try:
            c = st.clone()
        except Exception:
            # already reported by annotate() on the edge that produced `st` (no ops are enabled then)
            raise HarnessError("edge from a state that cannot be cloned")
        c._vf_adv = tuple(sorted(c.mutation_methods))
        if op["m"] not in c._vf_adv:
            raise HarnessError(f"replayed operation {op['m']} is not advertised in this state")
        pre = oracle.before(c, ctx)
        a0, s0 = arch(c), param_shapes(c)
        d = Draws(op["draws"])
        _seed(SEED + 1)
        def parent_untouched():
            # independence of the rebuilt copy: mutating the clone must leave the state it was cloned from as it was
            # (architecture, parameter shapes, init_dict) - otherwise the parent is no longer rebuildable from its init_dict
            if st_before is None:
                return
            try:
                now = (arch(st), param_shapes(st), typed(st.init_dict))
            except Exception as ex:
                now = ("unreadable", repr(ex))
            if now != st_before:
                st._vf_corrupt = True
                if not oracle.JUDGES_MUTATION_EXCEPTIONS:
                    p.extra["parent_changed_through_clone_(judged_by_C03)"] += 1
                    return
                which = [n for n, a, b in zip(("architecture", "parameter shapes", "init_dict"), st_before, now) if a != b] if len(now) == 3 else ["unreadable"]
                p.viol(f"{type(c).__name__}/{_gen(op['m'])}/mutating-the-clone-changed-its-parent/{'+'.join(which)}",
                       f"{op['m']}({op['kw']}) applied to a clone() changed the {', '.join(which)} of the object it was cloned from "
                       f"(parent init_dict before {st_before[2]} after {now[2] if len(now) == 3 else now}): clone and parent share constructor arguments", rp)

        try:
            with scripted(d):
                ret = getattr(c, op["m"])(**typed_kwargs(op["kw"]))
        except HarnessError:
            raise
        except Exception as e:
            parent_untouched()
            if len(d.answers) > d.i:
                raise HarnessError(f"scripted answers not consumed: {op}")
            ctx.siblings = d.siblings
            op["draws"][:] = d.full
            p.evaluations += 1
            tgt = _target_cls(c, op["m"])
            feat = _feat(c, op["m"])
            if not oracle.JUDGES_MUTATION_EXCEPTIONS:
                p.extra["mutation_exceptions_(judged_by_C03)"] += 1
                p.out(f"{type(c).__name__}|{_gen(op['m'])}|exception:{type(e).__name__}")
                p.dg("exc", op, type(e).__name__)
                return None
            p.viol(f"{type(c).__name__}/{_gen(op['m'])}/exception/{type(e).__name__}{feat}",
                   f"{tgt}.{op['m'].split('.')[-1]}({op['kw']}) with draws {d.log} raised {e!r} in architecture {_short(a0)}", rp)
            p.out(f"{type(c).__name__}|{_gen(op['m'])}|exception:{type(e).__name__}")
            p.dg("exc", op, type(e).__name__)
            return None
        parent_untouched()
        if d.i < len(d.answers):
            raise HarnessError(f"scripted answers not consumed: {op}")
        ctx.siblings = d.siblings
        op["draws"][:] = d.full
        p.evaluations += 1
        e = Edge()
        e.op, e.draws, e.ret, e.a0, e.shapes0, e.replay = op, list(d.log), ret, a0, s0, rp
        e.applied = c.last_mutation_attr
        try:
            e.a1 = arch(c)
        except Exception as ex:
            raise HarnessError(f"architecture description failed after {op}: {ex!r}")
        e.shapes1 = param_shapes(c)
        e.changed = (e.a0 != e.a1) or (e.shapes0 != e.shapes1)
        cl = annotate(c, ctx, rp)
        oracle.after(pre, c, cl, e, ctx)
        p.dg(op["m"], op["kw"], op["draws"], e.applied, jhash(e.a1), e.shapes1)
        if cl is None:
            return None
        c._vf_path = list(path)
        return c

    return apply


def _gen(name):
    """method path with the observation key of a multi-input feature net generalised"""
    parts = name.split(".")
    out = []
    for i, x in enumerate(parts):
        out.append("*" if i > 0 and parts[i - 1] == "feature_net" else x)
    return ".".join(out)


def _target_cls(m, name):
    try:
        return type(resolve(m, name.split(".")[:-1])).__name__
    except Exception:
        return "?"


def _feat(m, name):
    try:
        t = resolve(m, name.split(".")[:-1])
    except Exception:
        return ""
    if isinstance(t, EvolvableCNN):
        return _cnn_flavour(t)
    return ""


def _cnn_flavour(t):
    if t.block_type == "Conv3d":
        return "/Conv3d"
    return "/Conv2d-tuple-kernels" if t.mut_kernel_size.tuple_sizes else ""


def _short(a):
    if a["t"] == "net":
        return {"latent": a["latent_dim"], "encoder": _short(a["encoder"]), "head": _short(a["head_net"])}
    if a["t"] == "mi":
        return {"latent": a["latent_dim"], **{k: _short(v) for k, v in a["feature_net"].items()}}
    return {k: v for k, v in a.items() if k not in ("t", "cls", "b", "in_hw")}


def run(task, oracle_cls) -> Partial:
    """explore one spec's graph with one oracle; task = {spec, level, max_depth, [path]}"""
    import time

    t0 = time.process_time()
    p = Partial()
    spec = task["spec"]
    ctx = Ctx(spec, int(task.get("level", 0)), oracle_cls(), p, task)
    m0 = build(spec)
    ctx.root_cls = type(m0).__name__
    cl0 = annotate(m0, ctx, ctx.replay([]))
    m0._vf_path = []
    if task.get("pair"):
        pr = task["pair"]
        st, apply = m0, apply_fn_factory(ctx)
        for i, op in enumerate(pr["path"]):
            st = apply(st, op, pr["path"][: i + 1])
            p.transitions += 1
            if st is None:
                raise HarnessError("pair replay: the path to the source state does not lead to a state")
        judge_pair(st, pr["op1"], pr["op2"], ctx, ctx.replay_pair(pr["path"], pr["op1"], pr["op2"]))
        p.traces += 1
        return p
    if task.get("path") in (None, []):
        p.evaluations += 1
        ctx.oracle.initial(m0, cl0, ctx)
        p.dg("init", spec, jhash(arch(m0)))
    deepest = explore(m0, ops_fn_factory(ctx), apply_fn_factory(ctx), canon, p, max_depth=task.get("max_depth"),
                      copier=lambda m: m, path_only=task.get("path"), max_states=int(task.get("max_states", 200000)))
    p.sample({"spec": spec, "initial": _short(arch(m0)), "deepest_bfs_path": task.get("path") or deepest})
    p.extra["cpu_seconds_(not_part_of_determinism_digest)"] += int(round(time.process_time() - t0))
    return p


# ------------------------------------------------------------------------------------------
# reference model of the limit / fallback rules (written from the docstrings; C03 oracle part 4)


class Mis(Exception):
    pass


class Rd:
    """immutable reader over the recorded draws"""

    def __init__(self, log, i=0):
        self.log, self.i = log, i

    def take(self, kind):
        if self.i >= len(self.log) or self.log[self.i][0] != kind:
            raise Mis()
        return self.log[self.i][1], Rd(self.log, self.i + 1)

    @property
    def done(self):
        return self.i == len(self.log)


def node_change(cur, delta, lo, hi):
    """acceptable results of 'change a size by delta inside [lo, hi]'.
    strictly inside -> must happen; outside -> must not happen; landing exactly on a bound -> either
    (the library's limits are inclusive in some methods and exclusive in others; the statement does not say)."""
    r = cur + delta
    if not (lo <= cur <= hi):
        # only the library's own default configurations start outside their declared bounds; "stays inside" says nothing then
        return [(r, "source-outside-declared-bounds:applied"), (cur, "source-outside-declared-bounds:refused")]
    if lo < r < hi:
        return [(r, "applied")]
    if r < lo or r > hi:
        return [(cur, "blocked-by-bound")]
    return [(r, "applied-onto-bound"), (cur, "blocked-at-bound")]


# documented fallbacks (where the docstring is silent: any node mutation of the same module)
FALLBACK = {
    ("mlp", "add_layer"): ["add_node"], ("mlp", "remove_layer"): ["add_node"],
    ("lstm", "add_layer"): ["add_node"], ("lstm", "remove_layer"): ["add_node"],
    ("simba", "add_block"): ["add_node"], ("simba", "remove_block"): ["add_node", "remove_node"],  # docstring says remove_node, summary line says add_node
    ("resnet", "add_block"): ["add_channel"], ("resnet", "remove_block"): ["add_channel"],
    ("cnn", "add_layer"): ["add_channel", "remove_channel"], ("cnn", "remove_layer"): ["add_channel", "remove_channel"],
}


def declared_max_kernels(a):
    """the library's declared kernel limit: a quarter of the layer's output feature map, clipped to [1, 9]"""
    out, n = [], min(a["in_hw"])
    for k, s in zip(a["kernel_size"], a["stride_size"]):
        n = conv_out(n, kint(k), s)
        out.append(max(1, min(9, n // 4)))
    return out, n


def ref(a, method, kw, rd):
    """-> list of (new arch of this module, applied local method, tag, reader after)"""
    t, b = a["t"], a.get("b", {})
    alts = []

    def cp(**ch):
        n = copy.deepcopy(a)
        n.update(ch)
        return n

    def fallback(reason):
        res = []
        for fm in FALLBACK[(t, method)]:
            try:
                for (na, ap, tag, r2) in ref(a, fm, {}, rd):
                    res.append((na, ap, f"fallback:{reason}->{fm}:{tag}", r2))
            except Mis:
                pass
        return res

    def amount(key):
        if kw.get(key) is not None:
            return int(kw[key]), rd_box[0]
        v, r2 = rd_box[0].take("choice")
        return int(v), r2

    rd_box = [rd]

    if t in ("net", "mi") and method in ("add_latent_node", "remove_latent_node"):
        n, r2 = amount("numb_new_nodes")
        sgn = 1 if method.startswith("add") else -1
        for v, tag in node_change(a["latent_dim"], sgn * n, b["nmin"], b["nmax"]):
            alts.append((cp(latent_dim=v), method, tag, r2))
        return alts

    if t == "mlp":
        hs = a["hidden_size"]
        L = len(hs)
        if method == "add_layer":
            if L < b["lmax"]:
                return [(cp(hidden_size=hs + [hs[-1]]), method, "applied", rd)]
            return fallback("max-layers")
        if method == "remove_layer":
            if L > b["lmin"]:
                return [(cp(hidden_size=hs[:-1]), method, "applied", rd)]
            return fallback("min-layers")
        if method in ("add_node", "remove_node"):
            if kw.get("hidden_layer") is not None:
                h = min(int(kw["hidden_layer"]), L - 1)
            else:
                h, rd_box[0] = rd_box[0].take("randint")
            n, r2 = amount("numb_new_nodes")
            sgn = 1 if method == "add_node" else -1
            for v, tag in node_change(hs[h], sgn * n, b["nmin"], b["nmax"]):
                alts.append((cp(hidden_size=hs[:h] + [v] + hs[h + 1:]), method, tag, r2))
            return alts

    if t in ("lstm", "simba", "resnet"):
        lk = "num_layers" if t == "lstm" else "num_blocks"
        nk = "channel_size" if t == "resnet" else "hidden_size"
        addl, reml = ("add_layer", "remove_layer") if t == "lstm" else ("add_block", "remove_block")
        addn, remn = ("add_channel", "remove_channel") if t == "resnet" else ("add_node", "remove_node")
        ak = "numb_new_channels" if t == "resnet" else "numb_new_nodes"
        if method == addl:
            if a[lk] < b["lmax"]:
                return [(cp(**{lk: a[lk] + 1}), method, "applied", rd)]
            return fallback("max-layers")
        if method == reml:
            if a[lk] > b["lmin"]:
                return [(cp(**{lk: a[lk] - 1}), method, "applied", rd)]
            return fallback("min-layers")
        if method in (addn, remn):
            n, r2 = amount(ak)
            sgn = 1 if method == addn else -1
            for v, tag in node_change(a[nk], sgn * n, b["nmin"], b["nmax"]):
                alts.append((cp(**{nk: v}), method, tag, r2))
            return alts

    if t == "cnn":
        ch, ks, ss = a["channel_size"], a["kernel_size"], a["stride_size"]
        L = len(ch)

        def wrapk(k, depth=1):
            if isinstance(ks[0], list):
                return [k, k] if a["block"] == "Conv2d" else [depth, k, k]
            return k

        if method == "add_layer":
            mk, n_out = declared_max_kernels(a)
            if L < b["lmax"]:
                feasible = mk[-1] > 2 and n_out > 2
                try:
                    k, r1 = rd.take("randint")
                    s, r2 = r1.take("randint")
                    if 1 <= k <= mk[-1] and 1 <= s <= ss[-1]:
                        alts.append((cp(channel_size=ch + [ch[-1]], kernel_size=ks + [wrapk(k)], stride_size=ss + [s]), method, "applied", r2))
                except Mis:
                    pass
                if not feasible:
                    alts += fallback("feature-map-too-small")
                return alts
            return fallback("max-layers")
        if method == "remove_layer":
            if L > b["lmin"]:
                return [(cp(channel_size=ch[:-1], kernel_size=ks[:-1], stride_size=ss[:-1]), method, "applied", rd)]
            return fallback("min-layers")
        if method == "change_kernel":
            if L > 1:
                if kw.get("hidden_layer") is not None:
                    h = int(kw["hidden_layer"])
                else:
                    h, rd_box[0] = rd_box[0].take("randint")
                    if not (1 <= h < L):
                        raise Mis()
                if kw.get("kernel_size") is not None:
                    k, r2 = int(kw["kernel_size"]), rd_box[0]
                else:
                    k, r2 = rd_box[0].take("randint")
                    mk, _ = declared_max_kernels(a)
                    if not (1 <= k <= mk[h]):
                        return [(None, method, "kernel-draw-outside-declared-maximum", r2)]
                depth = ks[h][0] if isinstance(ks[h], list) and a["block"] == "Conv3d" else 1
                nk = ks[:h] + [wrapk(k, depth)] + ks[h + 1:]
                return [(cp(kernel_size=nk), method, "applied" if nk != ks else "applied-same-kernel", r2)]
            # single layer: no kernel but the input layer's; the implementation adds a layer instead (undocumented)
            res = []
            for (na, ap, tag, r2) in ref(a, "add_layer", {}, rd):
                res.append((na, ap, f"fallback:single-layer->add_layer:{tag}", r2))
            return res
        if method in ("add_channel", "remove_channel"):
            if kw.get("hidden_layer") is not None:
                h = min(int(kw["hidden_layer"]), L - 1)
            else:
                h, rd_box[0] = rd_box[0].take("randint")
            n, r2 = amount("numb_new_channels")
            sgn = 1 if method == "add_channel" else -1
            for v, tag in node_change(ch[h], sgn * n, b["nmin"], b["nmax"]):
                alts.append((cp(channel_size=ch[:h] + [v] + ch[h + 1:]), method, tag, r2))
            return alts

    raise HarnessError(f"reference model has no rule for {a['cls']}.{method}")


def predict(a0, name, kw, draws):
    """-> list of (expected full arch, expected last_mutation_attr, tag)"""
    parts = name.split(".")
    keys = []  # path of dict keys into the arch description
    for p_ in parts[:-1]:
        keys.append(p_)
    tgt = a0
    for k in keys:
        tgt = tgt[k]
    try:
        alts = ref(tgt, parts[-1], kw, Rd(draws))
    except Mis:
        alts = []
    out = []
    for (na, ap, tag, r2) in alts:
        if not r2.done:
            continue
        if na is None:
            out.append((None, None, tag))
            continue
        full = copy.deepcopy(a0)
        if keys:
            cur = full
            for k in keys[:-1]:
                cur = cur[k]
            cur[keys[-1]] = na
        else:
            full = na
        out.append((full, ".".join(parts[:-1] + [ap]), tag))
    return out


# ------------------------------------------------------------------------------------------
# state checks shared by both oracles


def outputs(m, kind, mode, batches=(1, 2, 3)):
    """-> {B: [tensors]} ; restores train/eval flag and BatchNorm buffers afterwards"""
    was = m.training
    saved = {n: b.detach().clone() for n, b in m.named_buffers()}
    nn.Module.train(m, mode == "train")
    res = {}
    try:
        for B in batches:
            res[B] = forward(m, kind, B, phase=float(B))
    finally:
        nn.Module.train(m, was)
        with torch.no_grad():
            for n, b in m.named_buffers():
                b.copy_(saved[n])
    return res


def same_outputs(o1, o2):
    for B in o1:
        if len(o1[B]) != len(o2[B]):
            return False, B
        for x, y in zip(o1[B], o2[B]):
            if (x is None) != (y is None):
                return False, B
            if x is not None and (x.shape != y.shape or not torch.equal(x, y)):
                return False, B
    return True, None


def state_equal(m, cl):
    s1, s2 = m.state_dict(), cl.state_dict()
    if list(s1.keys()) != list(s2.keys()):
        return False, f"state_dict keys differ: only in original {sorted(set(s1) - set(s2))[:3]} only in clone {sorted(set(s2) - set(s1))[:3]}"
    for k in s1:
        if s1[k].shape != s2[k].shape:
            return False, f"{k}: shape {tuple(s1[k].shape)} vs clone {tuple(s2[k].shape)}"
        if not torch.equal(s1[k], s2[k]):
            return False, f"{k}: values differ"
    return True, ""


def cnn_feature(m):
    """discriminating feature for keys: which convolution flavours live in this object"""
    fl = set()
    for x in [m] + [v for v in _walk(m)]:
        x = unwrap(x)
        if isinstance(x, EvolvableCNN) and _cnn_flavour(x):
            fl.add(_cnn_flavour(x).strip("/"))
    return "+".join(sorted(fl))


def _walk(m):
    for x in nn.Module.modules(m):
        if isinstance(x, EvolvableModule) and x is not m:
            yield x


# ------------------------------------------------------------------------------------------
# C03 oracle


class OracleC03:
    JUDGES_MUTATION_EXCEPTIONS = True

    def before(self, c, ctx):
        return None

    def mid(self, c, ctx):
        return None

    def initial(self, m, cl, ctx):
        pre_existing = {k for k, _ in bounds_problems(arch(m))}
        if pre_existing:
            if ctx.spec not in DEFAULT_SPECS:
                raise HarnessError(f"tight initial configuration {ctx.spec} violates its own bounds: {pre_existing}")
            for k in pre_existing:  # a property of the library's defaults, outside "stays inside"; counted, not judged
                ctx.p.out(f"default-configuration-starts-outside-declared-bounds|{k}")
                ctx.p.extra["default_configurations_starting_outside_declared_bounds"] += 1
        self.state_checks(m, cl, ctx, ctx.replay([]), "initial", pre_existing)

    def after(self, pre, c, cl, e, ctx):
        p = ctx.p
        root = type(c).__name__
        g = _gen(e.op["m"])
        local = e.op["m"].split(".")[-1]
        # (4) advertised effect and last_mutation_attr
        alts = predict(e.a0, e.op["m"], e.op["kw"], e.draws)
        what = f"{_target_cls(c, e.op['m'])}.{local}({e.op['kw']}) draws={e.draws} on {_short(e.a0)} -> {_short(e.a1)}, last_mutation_attr={e.applied!r}"
        hit = [x for x in alts if x[0] == e.a1]
        tag = None
        if e.applied is None and not e.draws and not e.changed and (not alts or any(x[0] != e.a0 for x in alts)):
            # the advertised method was never executed (nothing drawn, nothing applied, nothing changed)
            p.viol(f"{root}/{g}/advertised-but-no-effect", f"{what}; the advertised method did not run at all", e.replay)
            p.out(f"{root}|{g}|not-executed")
        elif not alts:
            p.viol(f"{root}/{g}/draw-protocol-unexplained", f"{what}: no documented behaviour consumes these draws", e.replay)
        elif alts[0][0] is None:
            p.viol(f"{root}/{g}/{alts[0][2]}", what, e.replay)
        elif not hit:
            unchanged = e.a1 == e.a0
            must = [x for x in alts if x[0] != e.a0]
            if unchanged and must and len(must) == len(alts):
                p.viol(f"{root}/{g}/advertised-but-no-effect", f"{what}; not stopped by a bound, expected {_short(must[0][0])}", e.replay,
                       observed=_short(e.a1), expected=_short(must[0][0]))
            else:
                p.viol(f"{root}/{g}/wrong-effect", f"{what}; expected one of {[(_short(x[0]), x[2]) for x in alts]}", e.replay,
                       observed=_short(e.a1), expected=[_short(x[0]) for x in alts])
        else:
            names = {x[1] for x in hit}
            tag = hit[0][2]
            if e.applied not in names and not (e.applied is None and not e.changed):
                p.viol(f"{root}/{g}/last_mutation_attr", f"{what}; the method really applied is {sorted(names)}", e.replay, observed=e.applied, expected=sorted(names))
            if tag != "applied":
                p.nt(f"{ctx.spec}|{e.op['m']}|{jhash(e.a0)}|{tag}")
            p.out(f"{root}|{g}|{tag.split(':')[0] if tag.startswith('fallback') else tag}|{hit[0][1].split('.')[-1]}")
        if not e.changed and e.a0 == e.a1:
            p.extra["edges_architecture_unchanged"] += 1
        self.state_checks(c, cl, ctx, e.replay, g, {k for k, _ in bounds_problems(e.a0)})

    def state_checks(self, c, cl, ctx, rp, g, pre_existing=()):
        p = ctx.p
        root = type(c).__name__
        feat = cnn_feature(c)
        feat = f"/{feat}" if feat else ""
        a = arch(c)
        # (1) bounds
        for key, text in bounds_problems(a):
            if key in pre_existing:
                continue  # was already outside before this edge ("stays inside" is about edges that start inside)
            p.viol(f"{root}/bounds/{key}", f"after {g}: {text}", rp)
        # (2) rebuild from the constructor description, strict load; clone has bit-equal state.
        # `cl` was built by clone() as type(m)(**deepcopy(m.init_dict)); a clone() that raised is reported by annotate().
        if cl is not None:
            ok, why = state_equal(c, cl)
            if not ok:
                p.viol(f"{root}/clone/state-not-equal{feat}", f"clone() returned a network whose state differs from the original (load error swallowed?): {why}; architecture {_short(a)}", rp)
            try:
                cl.load_state_dict(c.state_dict(), strict=True)
            except Exception as ex:
                msg = str(ex)
                kind = "size-mismatch" if "size mismatch" in msg else ("key-mismatch" if ("Missing key" in msg or "Unexpected key" in msg) else type(ex).__name__)
                p.viol(f"{root}/rebuild-from-init_dict/load_state_dict-strict/{kind}{feat}",
                       f"the architecture rebuilt from init_dict does not accept the current weights: {msg[:300]}; architecture {_short(a)}", rp)
        # (3) forward: finite outputs of the declared shape for batch sizes 1..3
        bn = has_batchnorm(c)
        for mode in ("eval", "train"):
            for B in (1, 2, 3):
                if mode == "train" and B == 1 and bn:
                    continue  # BatchNorm cannot normalise a single value per channel: not a valid training batch
                try:
                    outs = outputs(c, ctx.kind, mode, batches=(B,))[B]
                except Exception as ex:
                    p.viol(f"{root}/forward/exception/{type(ex).__name__}{feat}", f"after {g}: forward(batch={B}, {mode}) raised {ex!r}; architecture {_short(a)}", rp)
                    p.out(f"{root}|forward|exception")
                    return
                p.evaluations += 1
                exp = declared_shapes(c, B)
                for o, es in zip(outs, exp):
                    if es == "entropy":
                        if o is None:
                            continue
                        es = (B,)
                    if o is None or tuple(o.shape) != tuple(es):
                        p.viol(f"{root}/forward/shape", f"after {g}: output shape {None if o is None else tuple(o.shape)} declared {es} (batch={B}, {mode}); architecture {_short(a)}", rp)
                        return
                    if not bool(torch.isfinite(o.to(torch.float32)).all()):
                        p.viol(f"{root}/forward/non-finite", f"after {g}: non-finite output (batch={B}, {mode}); architecture {_short(a)}", rp)
                        return


# ------------------------------------------------------------------------------------------
# C04 oracle


def tensor_kinds(m):
    """name -> (kind, owner class, owner path) for every parameter and buffer"""
    mods = dict(nn.Module.named_modules(m))
    out = {}
    names = [n for n, _ in m.named_parameters()] + [n for n, _ in m.named_buffers()]
    for n in names:
        mp, _, leaf = n.rpartition(".")
        mod = mods.get(mp)
        if isinstance(mod, nn.modules.batchnorm._BatchNorm):
            kind = "batchnorm-buffer" if leaf in ("running_mean", "running_var", "num_batches_tracked") else "batchnorm-affine"
        elif isinstance(mod, nn.LayerNorm):
            kind = "layernorm-affine"
        elif isinstance(mod, NoisyLinear):
            kind = "noise-epsilon" if leaf.endswith("epsilon") else "noisy-linear"
        elif isinstance(mod, nn.Linear):
            kind = "linear"
        elif isinstance(mod, (nn.Conv2d, nn.Conv3d)):
            kind = "conv"
        elif isinstance(mod, nn.LSTM):
            kind = "lstm"
        elif leaf == "log_std":
            kind = "log_std"
        else:
            kind = type(mod).__name__
        # innermost evolvable owner
        owner, opath = type(m).__name__, ""
        pp = mp
        while pp:
            mm = mods.get(pp)
            if isinstance(mm, EvolvableModule) and not isinstance(mm, (EvolvableWrapper,)) and type(mm).__name__ != "ModuleDict":
                owner, opath = type(mm).__name__, pp
                break
            pp = pp.rpartition(".")[0]
        out[n] = (kind, owner, opath)
    return out


def fill_pattern(m):
    """overwrite every parameter and buffer with value = f(name, multi-index): non-constant, sign-changing,
    distinct from every default initialisation, small enough to keep activations finite"""
    with torch.no_grad():
        for n, t in list(m.named_parameters()) + list(m.named_buffers()):
            h = int(jhash(n), 16)
            if not t.is_floating_point():
                t.fill_(3 + h % 5)
                continue
            base = 0.11 + (h % 23) / 100.0
            v = torch.full(tuple(t.shape), base, dtype=torch.float64)
            par = torch.zeros(tuple(t.shape), dtype=torch.float64)
            w = [0.0131, 0.00717, 0.00339, 0.00173, 0.00091]
            for ax, sz in enumerate(t.shape):
                shp = [1] * t.dim()
                shp[ax] = sz
                idx = torch.arange(sz, dtype=torch.float64).reshape(shp)
                v = v + idx * w[ax % len(w)] * (1 + ax)
                par = par + idx
            if t.dim() > 0 and not n.endswith("running_var") and not n.endswith("log_std"):
                v = torch.where((par % 3) == 2, -v, v)
            scale = 1.0 / max(1.0, float(t.shape[-1]) ** 0.5) if t.dim() >= 2 else 1.0
            t.copy_((v * scale).to(t.dtype))


def mutated_path(applied, requested):
    name = applied if applied else requested
    parts = name.split(".")[:-1]
    # module path in torch naming: head_net of a distribution wrapper lives under head_net._wrapped
    return parts


class OracleC04:
    MODES = ("eval", "train")
    JUDGES_MUTATION_EXCEPTIONS = False  # an exception raised by a mutation method is C03's verdict

    def before(self, c, ctx):
        fill_pattern(c)
        return self.mid(c, ctx)

    def mid(self, c, ctx):
        snap = {n: t.detach().clone() for n, t in list(c.named_parameters()) + list(c.named_buffers())}
        outs = {}
        bn = has_batchnorm(c)
        for mode in self.MODES:
            try:
                outs[mode] = outputs(c, ctx.kind, mode, batches=(2, 3) if (bn and mode == "train") else (1, 2, 3))
            except Exception as ex:
                outs[mode] = ("exception", repr(ex))
        return {"snap": snap, "outs": outs, "kinds": tensor_kinds(c)}

    def initial(self, m, cl, ctx):
        if cl is None:
            return
        c = cl
        fill_pattern(c)
        self.clone_check(c, ctx, ctx.replay([]), "initial")

    def clone_check(self, c, ctx, rp, g):
        p = ctx.p
        root = type(c).__name__
        feat = cnn_feature(c)
        feat = f"/{feat}" if feat else ""
        try:
            _seed(SEED + 3)
            c2 = c.clone()
        except Exception:
            return  # reported by annotate()
        for mode in self.MODES:
            bs = (1, 2, 3) if mode == "eval" else (2,)
            try:
                o1 = outputs(c, ctx.kind, mode, bs)
            except Exception as ex:
                p.out(f"{root}|forward-exception")
                p.extra["forward_exceptions_(judged_by_C03)"] += 1
                return
            try:
                o2 = outputs(c2, ctx.kind, mode, bs)
            except Exception as ex:
                p.viol(f"{root}/clone/forward-exception/{type(ex).__name__}{feat}", f"after {g}: the clone raises {ex!r} where the original computes; architecture {_short(arch(c))}", rp)
                return
            p.evaluations += 1
            ok, B = same_outputs(o1, o2)
            if not ok:
                p.viol(f"{root}/clone/outputs-differ{feat}", f"after {g}: clone()(x) != m(x) on probe batch {B} ({mode} mode); architecture {_short(arch(c))}", rp)
                p.out(f"{root}|clone|differs")
                return
        p.out(f"{root}|clone|reproduces")

    def after(self, pre, c, cl, e, ctx):
        p = ctx.p
        root = type(c).__name__
        g = _gen(e.op["m"])
        kinds0 = pre["kinds"]
        kinds1 = tensor_kinds(c)
        now = dict(list(c.named_parameters()) + list(c.named_buffers()))
        mpath = mutated_path(e.applied, e.op["m"])
        resized_any = False
        reported = set()
        for n, old in pre["snap"].items():
            if n not in now:
                continue
            kind, owner, opath = kinds1[n]
            if kind == "noise-epsilon":
                continue  # factorised noise is resampled by design, it is not a learned weight
            new = now[n].detach()
            same_shape = tuple(new.shape) == tuple(old.shape)
            resized_any |= not same_shape
            if new.dim() != old.dim():
                ok = False
            else:
                sl = tuple(slice(0, min(a_, b_)) for a_, b_ in zip(old.shape, new.shape))
                ok = torch.equal(new[sl], old[sl])
            oparts = [x for x in opath.split(".") if x not in ("_wrapped", "model")] if opath else []
            if oparts[: len(mpath)] == mpath:
                via = "own-mutation" if len(oparts) == len(mpath) else "recreated-by-parent"
            else:
                via = "not-mutated-part"
            tag = f"{owner}|{via}|{kind}|{'same-shape' if same_shape else 'resized'}|{'kept' if ok else 'LOST'}"
            p.out(tag)
            if not ok:
                key = f"{owner}/{kind}/{'same-shape' if same_shape else 'resized'}/not-preserved"
                if key not in reported:
                    reported.add(key)
                    p.viol(key, f"{root}: after {e.op['m']}({e.op['kw']}) draws={e.draws} (applied {e.applied!r}) tensor {n} {tuple(old.shape)}->{tuple(new.shape)} "
                                f"lost its values on the common index range; architecture {_short(e.a0)} -> {_short(e.a1)}", e.replay)
        p.evaluations += 1
        if resized_any or set(pre["snap"]) != set(now):
            p.nt(f"{ctx.spec}|{e.op['m']}|{jhash(e.a0)}|{jhash(e.a1)}")
        # unchanged architecture => same function. Also judged when the independent limit model says this mutation had to be
        # refused (every acceptable result is the source architecture) but the object was rebuilt differently all the same.
        alts = predict(e.a0, e.op["m"], e.op["kw"], e.draws)
        refused = bool(alts) and all(x[0] is not None and x[0] == e.a0 for x in alts)
        if not e.changed or refused:
            p.extra["edges_architecture_unchanged" if not e.changed else "edges_refused_but_rebuilt_differently"] += 1
            # the factorised-noise buffers are not part of the function being compared
            with torch.no_grad():
                for n, t in c.named_buffers():
                    if kinds1[n][0] == "noise-epsilon" and n in pre["snap"] and pre["snap"][n].shape == t.shape:
                        t.copy_(pre["snap"][n])
            bn = has_batchnorm(c)
            for mode in self.MODES:
                o0 = pre["outs"][mode]
                if isinstance(o0, tuple):
                    continue
                try:
                    o1 = outputs(c, ctx.kind, mode, tuple(o0.keys()))
                except Exception as ex:
                    p.viol(f"{root}/unchanged-architecture/forward-exception/{type(ex).__name__}", f"after no-op {e.op['m']}: forward raises {ex!r}", e.replay)
                    break
                p.evaluations += 1
                ok, B = same_outputs(o0, o1)
                p.out(f"{root}|noop|{mode}|{'same' if ok else 'DIFFERENT'}")
                if not ok:
                    lost = sorted({k.split("/")[1] for k in reported})
                    key = f"unchanged-architecture/outputs-differ/{mode}/lost={'+'.join(lost)}" if lost else f"{root}/unchanged-architecture/outputs-differ/{mode}"
                    if e.changed:
                        key = f"{root}/refused-mutation-rebuilt-the-network/outputs-differ/{mode}"
                    p.viol(key,
                           f"{e.op['m']}({e.op['kw']}) draws={e.draws} left the architecture {_short(e.a0)} unchanged but the outputs on probe batch {B} changed ({mode} mode)", e.replay)
        if cl is not None:
            self.clone_check(c, ctx, e.replay, g)


# ------------------------------------------------------------------------------------------
# exploration plan shared by C03 and C04

TIGHT = {
    "mlp": "hidden layers 1..2 (one bare MLP 1..3), nodes 16..64 in steps of 16 (menu 16/32/64)",
    "off-grid variants": "one configuration per module class has bounds that no reachable size can land on exactly (e.g. nodes 12..72), so 'strictly inside must apply / outside must be refused' is decided on every edge",
    "cnn": "layers 1..2, channels 8..16 (menu 8/16/32), images 3x12x12 (one 3x24x24 stride-2 variant), Conv2d int/tuple kernels, Conv3d int/tuple kernels (depth 2)",
    "lstm": "layers 1..2, hidden 16..48", "simba": "blocks 1..2, hidden 16..64", "resnet": "blocks 1..2, channels 4..24",
    "latent": "8..40 from 16 (menu 8/16/32)",
}

_QUICK_DEPTH = {"multiinput/dict": 3, "multiinput/tuple": 3, "multiinput/dict/vector-mlp": 2, "multiinput/dictseq/flattened/vector-mlp": 3,
                "cnn2d/tuple-kernels": 1, "cnn3d/tuple-kernels/depth-on-layer2": 1}
_THOROUGH_DEPTH = {"multiinput/dict/vector-mlp": 3, "cnn2d/tuple-kernels": 2, "cnn3d/tuple-kernels/depth-on-layer2": 2}


def _space_of(spec):
    return spec.split("/")[1]


def _pair_depth(tier, spec):
    """BFS depth up to which a state is also a source of in-place pairs (None: every expanded state)"""
    if tier == "quick":
        return 0 if (spec in NETWORK_SPECS and _space_of(spec) in ("dict", "tuple")) else 1
    return None if spec in MODULE_SPECS else 2


def plan(tier):
    return [dict(t, pair_depth=_pair_depth(tier, t["spec"])) for t in _plan(tier)]


def _plan(tier):
    out = []
    for s in MODULE_SPECS:
        if tier == "quick":
            out.append({"spec": s, "level": 0, "max_depth": _QUICK_DEPTH.get(s)})
        else:
            out.append({"spec": s, "level": 0 if s.startswith("multiinput") else 1, "max_depth": _THOROUGH_DEPTH.get(s)})
    for s in NETWORK_SPECS:
        sp = _space_of(s)
        if s in DEFAULT_SPECS:
            if tier != "quick":
                out.append({"spec": s, "level": -1, "max_depth": 2})
            continue
        if tier == "quick":
            # a Tuple space is converted to a Dict space in the constructor: the tuple variants differ in key names and
            # in the observation container only, the quick tier takes one step from them (thorough: 2)
            d = {"dict": 2, "image": 2, "tuple": 1}.get(sp, 3)
            if sp == "dict" and s.split("/")[0] in ("RainbowQNetwork", "ValueNetwork", "DeterministicActor"):
                d = 1  # budget: the three structurally distinct heads (value / action-input / distribution) go to depth 2 on dict spaces
            out.append({"spec": s, "level": -1, "max_depth": d})
        else:
            out.append({"spec": s, "level": -1, "max_depth": {"dict": 3, "tuple": 2, "image": 4}.get(sp)})
    return out


def cost(t):
    s = t["spec"]
    if s in NETWORK_SPECS:
        if (t.get("max_depth") or 9) <= 1:
            return 3.0
        return {"dict": 60.0, "tuple": 60.0, "image": 30.0}.get(_space_of(s), 25.0)
    if s.startswith("multiinput"):
        return 30.0
    if s.startswith("cnn") or s.startswith("mlp/ln"):
        return 35.0 if t.get("max_depth") is None else 2.0
    return 3.0


def tasks(tier):
    ts = [dict(t, _cost=cost(t)) for t in plan(tier)]
    # the runner re-executes the first and the last task twice (determinism probe): keep those two cheap
    cheap = [t for t in ts if t["spec"] in ("lstm/L1-2", "simba/B1-2")]
    rest = [t for t in ts if t not in cheap]
    return cheap[:1] + rest + cheap[1:]


def bounds(tier):
    pl = plan(tier)
    return {
        "initial_configurations": len(pl),
        "modules": sorted(x["spec"] for x in pl if x["spec"] in MODULE_SPECS),
        "networks": sorted(x["spec"] for x in pl if x["spec"] in NETWORK_SPECS),
        "tight_limits": TIGHT,
        "explicit_arguments": {
            "modules": ("hidden_layer in {None, L (clamped)} (change_kernel: {None, 0, L-1}) x amount in {None, smallest menu value} x kernel_size in {None, 1, 2}" if tier == "quick"
                        else "hidden_layer in {None, 0..L} (change_kernel: {None, 0..L-1}) x amount in {None, two smallest menu values} x kernel_size in {None, 1, 2}; multiinput/* as in quick"),
            "networks": "per method: all arguments None (everything drawn) and all arguments explicit (hidden_layer=L resp. 0, smallest menu amount, kernel_size=1)",
        },
        "draws": "every answer of every np.random.randint / np.random.choice call made inside the mutation method (domains read off the real call)",
        "search": {s["spec"]: ("BFS to closure" if s["max_depth"] is None else f"BFS, every clone-and-mutate chain of length <= {s['max_depth']}") for s in pl},
        "probe_batches": [1, 2, 3],
        "in_place_pairs": {
            "what": "from a source state: clone ONCE, apply m1 and then m2 on the same object (no clone in between); the second step is judged by the "
                    "same oracle from the architecture/weights observed after the first; a verdict is re-run with a clone in between (control) and "
                    "is re-keyed <root kind>/<parent-then-nested|nested-then-parent|same-component>/<problem>/in-place-pair only when the control does not reproduce it",
            "pairs": "module specs: every ordered pair (m1, m2) of advertised methods whose components are equal or nested (plain modules: all pairs); "
                     "network specs: ordered pairs where one method's component strictly contains the other's (root vs encoder/head, encoder vs its feature nets), both orders",
            "representative": "each method is called with all arguments None and every draw answered with the first element of its domain (lowest layer index, smallest amount / kernel); "
                              "when m2's component strictly contains m1's, m2 is additionally run with every draw answered by the LAST element (largest amount: the refused-by-a-bound path of the parent)",
            "source_states": {s["spec"]: ("every expanded state" if s["pair_depth"] is None else f"states at BFS depth <= {s['pair_depth']}") for s in pl},
        },
    }
