"""C15 — observation handling is value-correct and batch-, agent- and env-consistent.

E3 lattice.  Five families of tasks, all exhaustive products executed on the real AgileRL code:

  pre   preprocess_observation / get_vect_dim / apply_image_normalization over
        spaces x input forms x containers x normalisation flag, judged by an independent numpy reference (O1),
        by row-vs-alone consistency (O2) and by the true number of environments (O3)
  sa    single-agent learners: agent.preprocess_observation vs the reference, and
        get_action(batch)[i] == get_action(batch[i]) / value(batch)[i] == value(batch[i]) under every
        permutation of the env rows (O4)
  ma    IPPO / MADDPG / MATD3: per (agent, env row) the greedy action and the value estimate must equal the
        ones the agent's own networks give for that single observation, for every ordered subset of co-present
        agents x every permutation of env rows (O4)
  homo  assemble_/disassemble_homogeneous_outputs round trip for every ordered subset of agents
  stack stack_critic_observations vs a numpy layout reference, row consistency and agent ordering
"""
from __future__ import annotations

import contextlib
import itertools
import warnings

import numpy as np
import torch
import torch.distributions as D
from gymnasium import spaces
from tensordict import TensorDict

from agilerl.algorithms.cqn import CQN
from agilerl.algorithms.ddpg import DDPG
from agilerl.algorithms.dqn import DQN
from agilerl.algorithms.dqn_rainbow import RainbowDQN
from agilerl.algorithms.ippo import IPPO
from agilerl.algorithms.maddpg import MADDPG
from agilerl.algorithms.matd3 import MATD3
from agilerl.algorithms.ppo import PPO
from agilerl.algorithms.td3 import TD3
from agilerl.utils import algo_utils as AU

from ..core import HarnessError, Partial
from ..rand import patched_many, seeded

LEVEL = "exploration"
RULE = (
    "exhaustive Cartesian product (no sampling) of observation space x input form {unbatched, batch 1, batch 3, (step 2, env 3), (1,1)} "
    "x container {ndarray, tensor, TensorDict, numpy scalar, python number; only combinations legal for the space} x image "
    "normalisation {on, off}; for agents additionally algorithm x encoder layer-norm x every permutation of env rows x every "
    "ordered subset of co-present agents.  One evaluation = one call of real AgileRL code judged by an oracle (numpy reference, "
    "row-vs-alone, true env count, per-(agent,row) network baseline).  A point is counted non-trivial when it contains a "
    "batch-of-one form (batch 1 or (1,1)), a size-1 space (Discrete(1), MultiBinary(1), MultiDiscrete([2]), Box with a singleton or "
    "trailing singleton dimension, rank-0 Box), or for agents a non-identity env permutation / agent re-ordering / proper agent subset; "
    "tags are the distinct (space, form, container, flag) or (algorithm, space, case class) tuples.  An outcome is a distinct "
    "(space kind, form, result shape) or (algorithm, space kind, case class, verdict)."
)
ASSUMPTIONS = [
    "legal inputs only: uint8 Box only with bounds [0,255]/[0,1]; integer Box not with infinite bounds; python numbers / numpy scalars only "
    "for unbatched observations of scalar-shaped spaces (Discrete, rank-0 Box); TensorDict only for Dict spaces; illegal combinations are skipped",
    "image = rank-3 Box (AgileRL's own definition); with an infinite bound 'min-max scaling' is undefined and the reference expects the raw values",
    "float dtype means torch.is_floating_point; values are compared with atol 1e-6 / rtol 1e-6 against a float64 reference",
    "O3 (get_vect_dim) is judged for unbatched / batch 1 / batch 3 inputs only: a (step, env) rollout is not 'a vectorised observation'",
    "greedy action of a stochastic policy = mode of its distribution: torch.distributions.{Categorical,Normal,Bernoulli}.sample are scripted to "
    "return the mode; the Gumbel noise of MADDPG/MATD3 discrete actors is scripted to a constant (torch.rand_like -> 0.5)",
    "network outputs of different batch compositions are compared with atol 1e-5 / rtol 1e-4 (BLAS kernels differ with batch size); discrete actions exactly",
    "a constructor that refuses an observation space (exception in __init__) marks the configuration unsupported: skipped and counted "
    "(counter constructor_refused), not a violation; a network that accepts the space but cannot evaluate one correctly preprocessed observation IS reported (key get_action/<space>/single/exception/..)",
    "single-agent O4 runs twice per configuration: with every network put into eval mode by the harness (the designed precondition) and with the networks exactly as the constructor "
    "leaves them plus set_training_mode(False), the only public switch; findings of the second run carry the key suffix /networks-as-constructed and are reported only if the eval-mode run "
    "of the same case class passed; harness-side value estimates (Q-values, Q(s,a)) are always evaluated in eval mode with flags restored, and judged in the eval-mode run only",
    "python numbers are not handed to multi-agent get_action (get_vect_dim needs .shape, its signature admits arrays only); numpy scalars are",
    "violations on re-ordered proper agent subsets are reported under their own key only when neither re-ordering alone nor sub-setting alone fails for that configuration (otherwise only counted)",
    "multi-agent value baseline for centralised critics = critic(stack_critic_observations(preprocess(single env row, agents in agent_ids order)), baseline actions)",
    "MADDPG/MATD3 critics need every agent, so values are judged for full agent sets only (all orderings); actions for every ordered subset",
]

# =============================================================================================
# space alphabet

BOUNDS = {"255": (0.0, 255.0), "01": (0.0, 1.0), "m13": (-1.0, 3.0), "inf": (-np.inf, np.inf)}
DT = {"f32": np.float32, "f64": np.float64, "u8": np.uint8, "i64": np.int64}
BOX_SHAPES = [[], [3], [1], [2, 3], [2, 1], [2, 4, 4], [3, 2, 1], [2, 2, 3, 3], [2, 1, 2, 1]]
FORMS = {"u": (), "b1": (1,), "b3": (3,), "se": (2, 3), "11": (1, 1)}
CONTS = ["np", "pt", "td", "npr", "nps", "py"]
ILLEGAL = object()


def box(shape, dt="f32", b="m13"):
    return {"k": "box", "shape": list(shape), "dt": dt, "b": b}


def leaf_legal(leaf):
    if leaf["k"] != "box":
        return True
    if leaf["dt"] == "u8" and leaf["b"] not in ("255", "01"):
        return False
    if leaf["dt"] in ("u8", "i64") and leaf["b"] == "inf":
        return False
    return True


def all_leaves():
    out = []
    for shape in BOX_SHAPES:
        for dt in DT:
            for b in BOUNDS:
                leaf = box(shape, dt, b)
                if leaf_legal(leaf):
                    out.append(leaf)
    out += [{"k": "disc", "n": n} for n in (1, 2, 5)]
    out += [{"k": "md", "nvec": v} for v in ([2], [2, 3])]
    out += [{"k": "mb", "n": n} for n in (1, 3)]
    return out


def member_leaves_quick():
    """one representative per (rank, singleton-ness) plus every non-Box leaf"""
    out = [box([], "f32", "m13"), box([3], "f32", "m13"), box([1], "f64", "inf"), box([2, 3], "i64", "m13"), box([2, 1], "f32", "01"),
           box([2, 4, 4], "u8", "255"), box([2, 4, 4], "f32", "m13"), box([3, 2, 1], "f32", "inf"), box([3, 2, 1], "i64", "255"),
           box([2, 2, 3, 3], "f32", "m13"), box([2, 1, 2, 1], "u8", "01")]
    out += [{"k": "disc", "n": n} for n in (1, 2, 5)]
    out += [{"k": "md", "nvec": v} for v in ([2], [2, 3])]
    out += [{"k": "mb", "n": n} for n in (1, 3)]
    return out


def mk_space(d):
    k = d["k"]
    if k == "box":
        lo, hi = BOUNDS[d["b"]]
        return spaces.Box(low=lo, high=hi, shape=tuple(d["shape"]), dtype=DT[d["dt"]])
    if k == "disc":
        return spaces.Discrete(d["n"])
    if k == "md":
        return spaces.MultiDiscrete(d["nvec"])
    if k == "mb":
        return spaces.MultiBinary(d["n"])
    if k == "dict":
        return spaces.Dict({key: mk_space(m) for key, m in zip(("p", "q"), d["m"])})
    if k == "tuple":
        return spaces.Tuple([mk_space(m) for m in d["m"]])
    raise HarnessError(f"bad space descriptor {d}")


def kind(d):
    k = d["k"]
    if k == "box":
        return f"Box-r{len(d['shape'])}"
    if k in ("dict", "tuple"):
        return ("Dict" if k == "dict" else "Tuple") + "[" + ",".join(kind(m) for m in d["m"]) + "]"
    return {"disc": "Discrete", "md": "MultiDiscrete", "mb": "MultiBinary"}[k]


def ckind(d):
    """coarse kind for exception keys: composite spaces are labelled by the members a vector encoder cannot take as they are"""
    if d["k"] not in ("dict", "tuple"):
        return kind(d)
    ks = [kind(m) for m in d["m"]]
    odd = sorted(set(ks) & {"Box-r0", "Box-r2", "Box-r4"})
    label = "images-only" if all(k == "Box-r3" for k in ks) else ",".join(odd)
    return ("Dict" if d["k"] == "dict" else "Tuple") + (f"[{label}]" if label else "")


def short(d):
    k = d["k"]
    if k == "box":
        return f"B{'x'.join(map(str, d['shape'])) or '0d'}{d['dt']}{d['b']}"
    if k == "disc":
        return f"D{d['n']}"
    if k == "md":
        return "MD" + "_".join(map(str, d["nvec"]))
    if k == "mb":
        return f"MB{d['n']}"
    return ("Di(" if k == "dict" else "Tu(") + ",".join(short(m) for m in d["m"]) + ")"


def members(d):
    return d["m"] if d["k"] in ("dict", "tuple") else [d]


def raw_shape(leaf):
    k = leaf["k"]
    if k == "box":
        return tuple(leaf["shape"])
    if k == "disc":
        return ()
    if k == "md":
        return (len(leaf["nvec"]),)
    return (leaf["n"],)


def net_shape(leaf):
    k = leaf["k"]
    if k == "box":
        return tuple(leaf["shape"])
    if k == "disc":
        return (leaf["n"],)
    if k == "md":
        return (int(sum(leaf["nvec"])),)
    return (leaf["n"],)


def is_small(leaf):
    """size-1 / singleton features that squeeze/unsqueeze logic may confuse"""
    k = leaf["k"]
    if k == "box":
        return len(leaf["shape"]) == 0 or 1 in leaf["shape"]
    if k == "disc":
        return leaf["n"] == 1
    if k == "md":
        return len(leaf["nvec"]) == 1
    return leaf["n"] == 1


def has_image(d):
    return any(m["k"] == "box" and len(m["shape"]) == 3 for m in members(d))


# =============================================================================================
# deterministic observation values, containers, numpy reference

def gen(leaf, lead, off=0):
    """legal observation values of shape lead + raw_shape(leaf); rows differ; bounds are touched"""
    lead = tuple(lead)
    k = leaf["k"]
    R = int(np.prod(lead, dtype=np.int64)) if lead else 1
    if k == "box":
        shape = tuple(leaf["shape"])
        n = R * (int(np.prod(shape, dtype=np.int64)) if shape else 1)
        base = np.arange(n, dtype=np.int64) + 5 * off
        isf = leaf["dt"] in ("f32", "f64")
        b = leaf["b"]
        if b == "255":
            v = (base * 37) % 256
        elif b == "01":
            v = ((base * 7) % 11) / 10.0 if isf else base % 2
        elif b == "m13":
            v = -1 + ((base * 7) % 9) * 0.5 if isf else -1 + (base * 3) % 5
        else:
            v = ((base * 7) % 21 - 10) * 0.5
        v = np.asarray(v, dtype=np.float64)
        hi = BOUNDS[b][1]
        if np.isfinite(hi) and n > 1:
            v[-1] = hi
        return v.astype(DT[leaf["dt"]]).reshape(lead + shape)
    r = np.arange(R, dtype=np.int64)
    if k == "disc":
        return ((r * 2 + 1 + off) % leaf["n"]).astype(np.int64).reshape(lead)
    if k == "md":
        nvec = leaf["nvec"]
        cols = [((r + off + 1) * (c + 2) + c) % nvec[c] for c in range(len(nvec))]
        return np.stack(cols, axis=-1).astype(np.int64).reshape(lead + (len(nvec),))
    n = leaf["n"]
    cols = [(r + off + c * (r + 1)) % 2 for c in range(n)]
    return np.stack(cols, axis=-1).astype(np.int8).reshape(lead + (n,))


def gen_tree(d, lead, off=0):
    if d["k"] in ("dict", "tuple"):
        return [gen(m, lead, off + 3 * i) for i, m in enumerate(d["m"])]
    return gen(d, lead, off)


def row_of(d, raw, i, lead):
    """raw values of flat row i (unbatched)"""
    def one(leaf, arr):
        return np.array(arr.reshape((-1,) + raw_shape(leaf))[i], copy=True)
    if d["k"] in ("dict", "tuple"):
        return [one(m, a) for m, a in zip(d["m"], raw)]
    return one(d, raw)


def take_rows(d, raw, idx):
    """raw is (B, ...) per member; reorder rows"""
    if d["k"] in ("dict", "tuple"):
        return [a[list(idx)] for a in raw]
    return raw[list(idx)]


def _wrap_leaf(arr, cont):
    if cont in ("np", "npr"):
        return np.array(arr, copy=True)
    if cont in ("pt", "td"):
        return torch.from_numpy(np.array(arr, copy=True))
    if cont == "nps":
        return arr[()] if arr.ndim == 0 else ILLEGAL
    if cont == "py":
        return arr.item() if arr.ndim == 0 else ILLEGAL
    raise HarnessError(f"container {cont}")


def wrap(d, raw, form, cont):
    """build the observation object handed to AgileRL, or ILLEGAL"""
    k = d["k"]
    if k not in ("dict", "tuple"):
        if cont in ("td", "npr"):
            return ILLEGAL
        if cont in ("nps", "py") and form != "u":
            return ILLEGAL
        return _wrap_leaf(raw, cont)
    if cont in ("td", "npr") and k != "dict":
        return ILLEGAL
    if cont in ("nps", "py"):
        if form != "u" or not any(a.ndim == 0 for a in raw):
            return ILLEGAL
        ms = [_wrap_leaf(a, cont if a.ndim == 0 else "np") for a in raw]
    else:
        ms = [_wrap_leaf(a, cont) for a in raw]
    if k == "tuple":
        return tuple(ms)
    if cont == "td":
        return TensorDict({"p": ms[0], "q": ms[1]}, batch_size=list(FORMS[form]))
    if cont == "npr":
        return {"q": ms[1], "p": ms[0]}
    return {"p": ms[0], "q": ms[1]}


def ref_leaf(leaf, arr, norm):
    """independent reference: float64 array (rows, *network input shape)"""
    x = np.asarray(arr, dtype=np.float64)
    k = leaf["k"]
    if k == "box":
        shape = tuple(leaf["shape"])
        rows = x.reshape((-1,) + shape)
        if norm and len(shape) == 3:
            lo, hi = BOUNDS[leaf["b"]]
            if np.isfinite(lo) and np.isfinite(hi):
                rows = (rows - lo) / (hi - lo)
        return rows
    if k == "disc":
        idx = x.reshape(-1).astype(np.int64)
        out = np.zeros((len(idx), leaf["n"]))
        out[np.arange(len(idx)), idx] = 1.0
        return out
    if k == "md":
        nvec = leaf["nvec"]
        rows = x.reshape(-1, len(nvec)).astype(np.int64)
        parts = []
        for c, n in enumerate(nvec):
            oh = np.zeros((len(rows), n))
            oh[np.arange(len(rows)), rows[:, c]] = 1.0
            parts.append(oh)
        return np.concatenate(parts, axis=1)
    return x.reshape(-1, leaf["n"])


def ref_tree(d, raw, norm):
    if d["k"] in ("dict", "tuple"):
        return [ref_leaf(m, a, norm) for m, a in zip(d["m"], raw)]
    return ref_leaf(d, raw, norm)


def _cmp_leaf(got, exp, atol=1e-6, rtol=1e-6):
    if not isinstance(got, torch.Tensor):
        return "type", f"{type(got).__name__} instead of a tensor"
    if not torch.is_floating_point(got):
        return "dtype", f"dtype {got.dtype}"
    if tuple(got.shape) != tuple(exp.shape):
        return "shape", f"shape {tuple(got.shape)} expected {tuple(exp.shape)}"
    g = got.detach().cpu().numpy().astype(np.float64)
    if not np.allclose(g, exp, atol=atol, rtol=rtol, equal_nan=False):
        i = int(np.argmax(np.abs(g - exp)))
        return "value", f"max deviation at flat index {i}: got {g.reshape(-1)[i]!r} expected {exp.reshape(-1)[i]!r}"
    return None


def unpack(d, got):
    """-> list of member results (or error tuple)"""
    k = d["k"]
    if k == "dict":
        if not hasattr(got, "keys") or sorted(got.keys()) != ["p", "q"]:
            return ("type", f"{type(got).__name__} with keys {sorted(got.keys()) if hasattr(got, 'keys') else None} instead of a dict with the space's keys")
        return [got["p"], got["q"]]
    if k == "tuple":
        if not isinstance(got, tuple) or len(got) != 2:
            return ("type", f"{type(got).__name__} instead of a 2-tuple")
        return list(got)
    return [got]


def compare(d, got, exp, atol=1e-6, rtol=1e-6):
    """-> None | (member index, symptom, detail)"""
    gs = unpack(d, got)
    if isinstance(gs, tuple):
        return (None,) + gs
    es = exp if d["k"] in ("dict", "tuple") else [exp]
    for i, (g, e) in enumerate(zip(gs, es)):
        r = _cmp_leaf(g, e, atol, rtol)
        if r:
            return (i,) + r
    return None


def to_np_tree(d, got):
    gs = unpack(d, got)
    if isinstance(gs, tuple):
        return None
    out = []
    for g in gs:
        if not isinstance(g, torch.Tensor):
            return None
        out.append(g.detach().cpu().numpy().astype(np.float64))
    return out


# =============================================================================================
# part "pre": preprocess_observation / get_vect_dim / apply_image_normalization

def _attribute(d, raw, form, cont, norm, exc_type):
    """for a composite space: which member kind raises the same exception on its own?"""
    if d["k"] not in ("dict", "tuple"):
        return kind(d)
    for m, a in zip(d["m"], raw):
        o = wrap(m, a, form, cont if cont in ("np", "pt") else "np")
        if o is ILLEGAL:
            continue
        try:
            with warnings.catch_warnings():
                warnings.simplefilter("ignore")
                AU.preprocess_observation(o, mk_space(m), normalize_images=norm)
        except Exception as e:  # noqa: BLE001
            if type(e).__name__ == exc_type:
                return kind(m)
    return "Dict" if d["k"] == "dict" else "Tuple"


def pre_point(p: Partial, d, form, cont, norm, rp):
    lead = FORMS[form]
    raw = gen_tree(d, lead)
    obs = wrap(d, raw, form, cont)
    if obs is ILLEGAL:
        p.extra["illegal_skipped"] += 1
        return
    space = mk_space(d)
    exp = ref_tree(d, raw, norm)
    R = int(np.prod(lead, dtype=np.int64)) if lead else 1
    e0 = exp[0] if isinstance(exp, list) else exp
    if e0.shape[0] != R:
        raise HarnessError(f"reference produced {e0.shape[0]} rows for form {form}")
    tag = f"{short(d)}|{form}|{cont}|{int(norm)}"
    if form in ("b1", "11") or any(is_small(m) for m in members(d)):
        p.nt(tag)
    if len(p.samples) < 2 and form == "11" and any(is_small(m) for m in members(d)):
        p.sample({"part": "pre", "space": short(d), "form": form, "container": cont, "normalize_images": norm})
    what0 = f"preprocess_observation({short(d)}, form={form} lead={lead}, container={cont}, normalize_images={norm})"
    # ---- O1
    p.evaluations += 1
    got = None
    try:
        with warnings.catch_warnings():
            warnings.simplefilter("ignore")
            got = AU.preprocess_observation(obs, space, normalize_images=norm)
    except Exception as e:  # noqa: BLE001
        tn = type(e).__name__
        kd = _attribute(d, raw, form, cont, norm, tn)
        p.viol(f"preprocess_observation/{kd}/{form}/exception/{tn}", f"{what0} raised {e!r}", rp)
        p.out([kind(d), form, "exception", tn])
    if got is not None:
        r = compare(d, got, exp)
        if r:
            mi, sym, det = r
            kd = kind(members(d)[mi]) if mi is not None and d["k"] in ("dict", "tuple") else kind(d) if mi is not None else ("Dict" if d["k"] == "dict" else "Tuple")
            p.viol(f"preprocess_observation/{kd}/{form}/{sym}", f"{what0}: member {mi}: {det}", rp)
            p.out([kind(d), form, sym])
            got = None
        else:
            gt = to_np_tree(d, got)
            p.out([kind(d), form, [list(g.shape) for g in gt]])
            p.dg(tag, [g.shape for g in gt], [round(float(g.sum()), 4) for g in gt])
    # ---- O2: row i of the batch result == result for observation i alone
    if got is not None and form != "u" and cont in ("np", "pt", "td", "npr"):
        gt = to_np_tree(d, got)
        for i in range(R):
            o1 = wrap(d, row_of(d, raw, i, lead), "u", cont)
            p.evaluations += 1
            try:
                with warnings.catch_warnings():
                    warnings.simplefilter("ignore")
                    g1 = to_np_tree(d, AU.preprocess_observation(o1, space, normalize_images=norm))
            except Exception:  # noqa: BLE001   (already reported by the unbatched point itself)
                continue
            if g1 is None:
                continue
            for mi, (gb, ga) in enumerate(zip(gt, g1)):
                if ga.shape[0] != 1 or ga.shape[1:] != gb.shape[1:] or not np.allclose(gb[i], ga[0], atol=1e-7, rtol=0):
                    p.viol(f"preprocess_observation/{kind(members(d)[mi])}/{form}/row-differs-from-alone",
                           f"{what0}: row {i} of the batch result differs from the result for that observation alone", rp)
                    break
    # ---- O3: vectorised observation recognised
    if form in ("u", "b1", "b3") and cont in ("np", "pt", "td", "npr", "nps"):
        p.evaluations += 1
        want = 3 if form == "b3" else 1
        first = members(d)[0] if cont != "npr" else members(d)[1]
        try:
            n = AU.get_vect_dim(obs, space)
            if n != want:
                p.viol(f"get_vect_dim/{kind(first)}/{form}/wrong-count", f"get_vect_dim({short(d)}, form={form}, container={cont}) = {n!r}, true number of envs {want}", rp,
                       observed=int(n) if isinstance(n, (int, np.integer)) else repr(n), expected=want)
        except Exception as e:  # noqa: BLE001
            p.viol(f"get_vect_dim/{kind(first)}/exception/{type(e).__name__}", f"get_vect_dim({short(d)}, form={form}, container={cont}) raised {e!r}", rp)
    # ---- apply_image_normalization called directly (ndarray and tensor paths)
    if d["k"] == "box" and len(d["shape"]) == 3 and norm and form in ("u", "b1", "b3") and cont in ("np", "pt"):
        p.evaluations += 1
        lo, hi = BOUNDS[d["b"]]
        x = np.asarray(raw, dtype=np.float64)
        e = (x - lo) / (hi - lo) if np.isfinite(lo) and np.isfinite(hi) else x
        try:
            with warnings.catch_warnings():
                warnings.simplefilter("ignore")
                g = AU.apply_image_normalization(obs if cont == "np" else obs.float(), space)
            g = g.detach().cpu().numpy() if isinstance(g, torch.Tensor) else np.asarray(g)
            if g.shape != e.shape or not np.allclose(g.astype(np.float64), e, atol=1e-6, rtol=1e-6):
                p.viol(f"apply_image_normalization/{form}/value", f"apply_image_normalization({short(d)}, form={form}, container={cont}) differs from (x-low)/(high-low)", rp)
        except Exception as ex:  # noqa: BLE001
            p.viol(f"apply_image_normalization/exception/{type(ex).__name__}", f"apply_image_normalization({short(d)}, form={form}, container={cont}) raised {ex!r}", rp)


def run_pre(task, p: Partial):
    for d in task["spaces"]:
        for form in task["forms"]:
            for cont in task["conts"]:
                for norm in task["norms"]:
                    if not norm and task.get("norm_off_images_only") and not has_image(d):
                        continue
                    rp = {"part": "pre", "spaces": [d], "forms": [form], "conts": [cont], "norms": [norm]}
                    pre_point(p, d, form, cont, norm, rp)


# ---------------------------------------------------------------------------------------------
# preseq: one execution = a SEQUENCE of calls, each with a fresh short-lived space of the same shape/dtype and other bounds
# (an environment sweep in one process). "Value-correct for the space that is passed in" must not depend on which spaces were
# preprocessed before: catches results memoised per shape / dtype / object identity. The spaces are created and dropped inside
# the point so that the allocator's reuse of a freed space's address happens inside one execution.
SEQ_BOUNDS = {"f32": ["255", "m13", "01", "255", "m13", "255", "01", "m13"], "f64": ["m13", "255", "m13", "01", "255", "01"], "u8": ["255", "01", "255", "01", "255", "01"]}


def run_preseq(task, p: Partial):
    shape, dt = task["shape"], task["dt"]
    for cont in task["conts"]:
        for form in task["forms"]:
            lead = FORMS[form]
            bad = []
            for rep in range(3):
                for j, b in enumerate(SEQ_BOUNDS[dt]):
                    leaf = box(shape, dt, b)
                    raw = gen(leaf, lead, off=j)
                    obs = wrap(leaf, raw, form, cont)
                    if obs is ILLEGAL:
                        continue
                    space = mk_space(leaf)
                    exp = ref_tree(leaf, raw, True)
                    p.evaluations += 1
                    try:
                        with warnings.catch_warnings():
                            warnings.simplefilter("ignore")
                            got = AU.preprocess_observation(obs, space, normalize_images=True)
                        r = compare(leaf, got, exp)
                    except Exception as e:  # noqa: BLE001
                        r = (0, "exception/" + type(e).__name__, repr(e))
                    del space
                    if r:
                        bad.append((rep, j, b, r[1], r[2]))
            p.nt(f"preseq|{shape}|{dt}|{form}|{cont}")
            p.out(["preseq", dt, form, cont, len(bad) > 0])
            if bad:
                rep, j, b, sym, det = bad[0]
                p.viol(f"preprocess_observation/image/fresh-space-sequence/{sym}",
                       f"preprocess_observation on a sequence of fresh Box{tuple(shape)} {dt} spaces with bounds {SEQ_BOUNDS[dt]} (x3), container={cont}, form={form}: "
                       f"{len(bad)} of {3 * len(SEQ_BOUNDS[dt])} calls wrong; first: round {rep} call {j} bounds {b}: {det}",
                       {"part": "preseq", "shape": shape, "dt": dt, "conts": [cont], "forms": [form]})


# =============================================================================================
# agents

def _mode_patches():
    def cat_sample(self, sample_shape=torch.Size()):
        return self.probs.argmax(dim=-1)

    def normal_sample(self, sample_shape=torch.Size()):
        return self.loc.detach().clone()

    def bern_sample(self, sample_shape=torch.Size()):
        return (self.probs > 0.5).to(self.probs.dtype)

    def rand_like(t, *a, **k):
        return torch.full_like(t, 0.5, dtype=torch.float32 if not t.is_floating_point() else t.dtype)

    return [(D.Categorical, "sample", cat_sample), (D.Normal, "sample", normal_sample), (D.Bernoulli, "sample", bern_sample), (torch, "rand_like", rand_like)]


def net_config(d, ln):
    cnn = {"channel_size": [4], "kernel_size": [3], "stride_size": [2], "layer_norm": ln}
    mlp = {"hidden_size": [8], "layer_norm": ln}
    if d["k"] in ("dict", "tuple"):
        enc = {"latent_dim": 8, "cnn_config": cnn, "mlp_config": mlp}
    elif d["k"] == "box" and len(d["shape"]) == 3:
        enc = cnn
    else:
        enc = mlp
    return {"latent_dim": 8, "encoder_config": enc, "head_config": {"hidden_size": [16], "layer_norm": ln}}


def act_space(act):
    return spaces.Discrete(3) if act == "disc" else spaces.Box(-1.0, 1.0, (2,), dtype=np.float32)


SA_ALGOS = {"DQN": "disc", "RainbowDQN": "disc", "CQN": "disc", "DDPG": "box", "TD3": "box", "PPO": "disc", "PPO-box": "box"}


def make_sa(algo, d, ln, norm):
    cls = {"DQN": DQN, "RainbowDQN": RainbowDQN, "CQN": CQN, "DDPG": DDPG, "TD3": TD3, "PPO": PPO, "PPO-box": PPO}[algo]
    with seeded(1234), warnings.catch_warnings():
        warnings.simplefilter("ignore")
        ag = cls(mk_space(d), act_space(SA_ALGOS[algo]), net_config=net_config(d, ln), normalize_images=norm)
    ag.set_training_mode(False)
    return ag


def agent_modules(agent):
    out = []
    for v in vars(agent).values():
        if isinstance(v, torch.nn.Module):
            out.append(v)
        elif isinstance(v, (list, tuple)):
            out += [m for m in v if isinstance(m, torch.nn.Module)]
    return out


@contextlib.contextmanager
def evaluating(*modules):
    """run harness-side forward passes in eval mode and restore every train/eval flag afterwards
    (a train-mode pass would update BatchNorm running statistics, i.e. change the agent under test)"""
    saved = [(sm, sm.training) for m in modules for sm in torch.nn.Module.modules(m)]
    try:
        for m in modules:
            m.eval()
        yield
    finally:
        for sm, t in saved:
            sm.training = t


def sa_act(agent, algo, obs):
    """the agent's own entry point -> (action ndarray, reported value | None); exceptions are AgileRL's"""
    v = None
    with torch.no_grad(), warnings.catch_warnings():
        warnings.simplefilter("ignore")
        if algo in ("DQN", "CQN"):
            a = agent.get_action(obs, epsilon=0.0)
        elif algo in ("RainbowDQN", "DDPG", "TD3"):
            a = agent.get_action(obs, training=False)
        else:
            a, _, _, v = agent.get_action(obs)
            v = np.asarray(v)
    return np.asarray(a), v


def sa_val(agent, algo, obs, a):
    """harness-side value estimate of the same networks in eval mode (Q-values / Q(s, a)); flags restored"""
    with torch.no_grad(), warnings.catch_warnings():
        warnings.simplefilter("ignore")
        if algo in ("DQN", "CQN", "RainbowDQN"):
            with evaluating(agent.actor):
                v = agent.actor(agent.preprocess_observation(obs))
        else:
            critic = agent.critic if algo == "DDPG" else agent.critic_1
            with evaluating(critic):
                v = critic(agent.preprocess_observation(obs), torch.as_tensor(np.asarray(a), dtype=torch.float32))
    return v.detach().cpu().numpy()


def sa_call(agent, algo, obs, harness_values):
    a, v = sa_act(agent, algo, obs)
    if v is None and harness_values:
        try:
            v = sa_val(agent, algo, obs, a)
        except Exception as e:  # noqa: BLE001
            raise HarnessError(f"value evaluation failed after a successful get_action: {e!r}") from e
    return a, v


class _BadShape(Exception):
    pass


def _rows(x, B):
    x = np.asarray(x)
    if x.ndim == 0 or x.shape[0] != B:
        return None
    return x.reshape(B, -1).astype(np.float64)


def close(a, b):
    return a.shape == b.shape and np.allclose(a, b, atol=1e-5, rtol=1e-4)


def sa_config(p: Partial, algo, d, ln, norm, rp):
    kd = kind(d)
    cfg = f"{algo}(obs={short(d)}, layer_norm={ln}, normalize_images={norm})"
    failed_eval = set()
    for mode in ("eval", "as-constructed"):
        try:
            agent = make_sa(algo, d, ln, norm)
        except Exception as e:  # noqa: BLE001
            p.extra["constructor_refused"] += 1
            p.out([algo, kd, "constructor-refused", type(e).__name__])
            return
        if mode == "eval":
            for m in agent_modules(agent):
                m.eval()
            sa_preprocess(p, agent, cfg, d, norm, rp)
        sa_o4(p, agent, algo, d, cfg, mode, failed_eval, rp)
    if len(p.samples) < 3:
        p.sample({"part": "sa", "config": cfg, "modes": ["eval", "as-constructed"]})


def sa_preprocess(p: Partial, agent, cfg, d, norm, rp):
    """agent.preprocess_observation vs the reference, every form / container"""
    kd = kind(d)
    for form in FORMS:
        for cont in CONTS:
            raw = gen_tree(d, FORMS[form])
            obs = wrap(d, raw, form, cont)
            if obs is ILLEGAL:
                continue
            p.evaluations += 1
            try:
                with warnings.catch_warnings():
                    warnings.simplefilter("ignore")
                    got = agent.preprocess_observation(obs)
            except Exception as e:  # noqa: BLE001
                p.viol(f"preprocess_observation/{_attribute(d, raw, form, cont, norm, type(e).__name__)}/{form}/exception/{type(e).__name__}",
                       f"{cfg}.preprocess_observation(form={form}, container={cont}) raised {e!r}", rp)
                continue
            r = compare(d, got, ref_tree(d, raw, norm))
            if r:
                mk = kind(members(d)[r[0]]) if r[0] is not None else kd.split("[")[0]
                p.viol(f"RLAlgorithm.preprocess_observation/{mk}/{form}/{r[1]}", f"{cfg}.preprocess_observation(form={form}, container={cont}): member {r[0]}: {r[2]}", rp)


def sa_o4(p: Partial, agent, algo, d, cfg, mode, failed_eval, rp):
    kd = kind(d)
    hv = mode == "eval"
    sfx = "" if mode == "eval" else "/networks-as-constructed"
    cfg = f"{cfg}[{mode}]"
    raw3 = gen_tree(d, (3,))
    base = []
    with patched_many(_mode_patches()):
        for i in range(3):
            o = wrap(d, row_of(d, raw3, i, (3,)), "u", "np")
            p.evaluations += 1
            try:
                a, v = sa_call(agent, algo, o, hv)
                a = _rows(a, 1)
                v = _rows(v, 1) if v is not None else np.zeros((1, 0))
                if a is None or v is None:
                    raise _BadShape()
            except HarnessError:
                raise
            except _BadShape:
                if mode == "eval":
                    p.viol(f"get_action/{ckind(d)}/single/shape", f"{cfg}: get_action on one unbatched observation does not return a leading batch dimension of 1", rp)
                p.out([algo, kd, "single", "shape"])
                failed_eval.add("single")
                return
            except Exception as e:  # noqa: BLE001
                if mode == "eval":
                    p.viol(f"get_action/{ckind(d)}/single/exception/{type(e).__name__}", f"{cfg}: get_action on one unbatched observation raised {e!r}", rp)
                p.out([algo, kd, "single", "exception"])
                failed_eval.add("single")
                return
            base.append((a[0], v[0]))
        p.dg(algo, short(d), mode, [np.round(b[0], 4).tolist() for b in base])
        cases = []
        for cont in ("np", "pt", "td", "npr", "nps", "py"):
            cases.append(("u", cont, (0,)))
            cases.append(("b1", cont, (0,)))
            cases.append(("b1", cont, (2,)))
            for perm in itertools.permutations(range(3)):
                cases.append(("b3", cont, perm))
        failed = set()
        for form, cont, idx in cases:
            rawc = take_rows(d, raw3, idx)
            if form == "u":
                rawc = row_of(d, raw3, idx[0], (3,))
            obs = wrap(d, rawc, form, cont)
            if obs is ILLEGAL:
                continue
            B = len(idx)
            cls_ = "single" if form == "u" else ("batch1" if form == "b1" else ("batch" if idx == (0, 1, 2) else "env-perm"))
            if cls_ == "env-perm" and "batch" in failed:
                continue
            p.evaluations += 1
            if cls_ in ("batch1", "env-perm") or any(is_small(m) for m in members(d)):
                p.nt(f"{algo}|{short(d)}|{cfg[-20:]}|{form}|{cont}|{''.join(map(str, idx))}")
            report = mode == "eval" or cls_ not in failed_eval
            try:
                a, v = sa_call(agent, algo, obs, hv)
            except HarnessError:
                raise
            except Exception as e:  # noqa: BLE001
                failed.add(cls_)
                if report:
                    p.viol(f"get_action/{ckind(d)}/{cls_}/exception/{type(e).__name__}{sfx}", f"{cfg}: get_action(form={form}, container={cont}, rows={idx}) raised {e!r}", rp)
                p.out([algo, kd, cls_, "exception"])
                continue
            a = _rows(a, B)
            v = _rows(v, B) if v is not None else np.zeros((B, 0))
            if a is None or v is None:
                failed.add(cls_)
                if report:
                    p.viol(f"get_action/{ckind(d)}/{cls_}/shape{sfx}", f"{cfg}: get_action(form={form}, container={cont}, rows={idx}): leading dimension is not the batch size {B}", rp)
                p.out([algo, kd, cls_, "shape"])
                continue
            bad = None
            for j, i in enumerate(idx):
                if not close(a[j], base[i][0]):
                    bad = ("action", j, i, a[j].tolist(), base[i][0].tolist())
                    break
                if not close(v[j], base[i][1]):
                    bad = ("value", j, i, v[j].tolist(), base[i][1].tolist())
                    break
            if bad:
                failed.add(cls_)
                if report:
                    p.viol(f"{algo}/get_action/{cls_}/{bad[0]}{sfx}",
                           f"{cfg}: {bad[0]} for observation {bad[2]} inside get_action(form={form}, container={cont}, rows={idx}) [position {bad[1]}] = {bad[3]} but alone = {bad[4]}", rp,
                           observed=bad[3], expected=bad[4])
            p.out([algo, kd, cls_, mode, bad[0] if bad else "ok"])
        if mode == "eval":
            failed_eval |= failed


def run_sa(task, p: Partial):
    for d in task["spaces"]:
        for ln in task["lns"]:
            for norm in task["norms"]:
                if not norm and not has_image(d):
                    continue
                rp = {"part": "sa", "algo": task["algo"], "spaces": [d], "lns": [ln], "norms": [norm]}
                sa_config(p, task["algo"], d, ln, norm, rp)


# ---------------------------------------------------------------------------------------------
# multi-agent

def agent_ids(nag):
    return ["a_0", "a_1", "b_0"] if nag == 3 else ["a_0", "a_1", "a_2", "b_0"]


def make_ma(algo, d, act, ln, norm, nag):
    cls = {"IPPO": IPPO, "MADDPG": MADDPG, "MATD3": MATD3}[algo]
    ids = agent_ids(nag)
    with seeded(4321), warnings.catch_warnings():
        warnings.simplefilter("ignore")
        ag = cls([mk_space(d) for _ in ids], [act_space(act) for _ in ids], agent_ids=ids, net_config=net_config(d, ln), normalize_images=norm)
    ag.set_training_mode(False)
    return ag


def ordered_subsets(ids):
    out = []
    for k in range(1, len(ids) + 1):
        for comb in itertools.combinations(range(len(ids)), k):
            for perm in itertools.permutations(comb):
                out.append([ids[i] for i in perm])
    return out


def ma_baseline(agent, algo, d, act, norm, ids, raws):
    """per agent X and env row r: (action, discrete action or None, value or None) from X's own networks on that single observation"""
    base = {}
    space = mk_space(d)
    lowhigh = act_space(act)
    for xi, X in enumerate(ids):
        for r in range(3):
            o = wrap(d, row_of(d, raws[X], r, (3,)), "u", "np")
            with torch.no_grad(), warnings.catch_warnings():
                warnings.simplefilter("ignore")
                pre = AU.preprocess_observation(o, space, normalize_images=norm)
                if algo == "IPPO":
                    g = agent.shared_agent_ids.index(agent.get_homo_id(X))
                    actor, critic = agent.actors[g], agent.critics[g]
                    actor.eval()
                    critic.eval()
                    a, _, _ = actor(pre)
                    v = critic(pre).squeeze(-1)
                    a = a.cpu().numpy()
                    if act == "box":
                        a = np.clip(a, lowhigh.low, lowhigh.high)
                    base[(X, r)] = (a.reshape(1, -1).astype(np.float64)[0], None, v.cpu().numpy().reshape(-1).astype(np.float64))
                else:
                    actor = agent.actors[xi]
                    actor.eval()
                    a = actor(pre).cpu().numpy()
                    actor.train()
                    da = a.argmax(axis=-1).reshape(-1).astype(np.float64) if act == "disc" else None
                    base[(X, r)] = (a.reshape(1, -1).astype(np.float64)[0], da, None)
    return base


def ma_critics(agent, algo):
    if algo == "MADDPG":
        return list(agent.critics)
    return list(agent.critics_1) + list(agent.critics_2)


def ma_q(agent, algo, obs, acts):
    """centralised Q estimates for an observation dict -> (B, n_critics)"""
    with torch.no_grad(), warnings.catch_warnings():
        warnings.simplefilter("ignore")
        st = agent.stack_critic_observations(agent.preprocess_observation(obs))
        outs = []
        for c in ma_critics(agent, algo):
            c.eval()
            outs.append(c(st, acts).reshape(-1, 1))
    return torch.cat(outs, dim=1).cpu().numpy().astype(np.float64)


def ma_config(p: Partial, algo, d, act, ln, norm, nag, full_product, rp):
    kd = kind(d)
    ids = agent_ids(nag)
    try:
        agent = make_ma(algo, d, act, ln, norm, nag)
    except Exception as e:  # noqa: BLE001
        p.extra["constructor_refused"] += 1
        p.out([algo, kd, "constructor-refused", type(e).__name__])
        return
    cfg = f"{algo}(agents={ids}, obs={short(d)}, action={act}, layer_norm={ln}, normalize_images={norm})"
    raws = {X: gen_tree(d, (3,), off=2 * xi + 1) for xi, X in enumerate(ids)}
    with patched_many(_mode_patches()):
        try:
            base = ma_baseline(agent, algo, d, act, norm, ids, raws)
        except Exception as e:  # noqa: BLE001
            p.evaluations += 1
            p.viol(f"get_action/{ckind(d)}/single/exception/{type(e).__name__}", f"{cfg}: the agent's own network on one preprocessed observation raised {e!r}", rp)
            p.out([algo, kd, "single", "exception"])
            return
        baseq = None
        if algo != "IPPO":
            try:
                baseq = []
                for r in range(3):
                    o = {X: wrap(d, row_of(d, raws[X], r, (3,)), "u", "np") for X in ids}
                    acts = torch.as_tensor(np.concatenate([base[(X, r)][0] for X in ids])[None], dtype=torch.float32)
                    baseq.append(ma_q(agent, algo, o, acts)[0])
            except Exception as e:  # noqa: BLE001
                p.evaluations += 1
                p.viol(f"{algo}/critic/{ckind(d)}/single/exception/{type(e).__name__}", f"{cfg}: centralised critic on one env row (agents in agent_ids order) raised {e!r}", rp)
                baseq = None
        p.dg(algo, short(d), act, ln, norm, nag, [np.round(base[(X, 0)][0], 4).tolist() for X in ids])

        # ---- case list: (class, agent order, form, container, env rows)
        perms = list(itertools.permutations(range(3)))
        cases = []
        for cont in ("np", "pt", "td", "nps"):   # python numbers: not an admitted input of multi-agent get_action (get_vect_dim needs .shape)
            cases.append(("single", ids, "u", cont, (0,)))
            cases.append(("batch1", ids, "b1", cont, (1,)))
            cases.append(("batch", ids, "b3", cont, (0, 1, 2)))
        for perm in perms[1:]:
            cases.append(("env-perm", ids, "b3", "np", perm))
        for sub in ordered_subsets(ids):
            if sub == ids:
                continue
            full = len(sub) == len(ids)
            inorder = sub == [x for x in ids if x in sub]
            cls_ = "agent-order" if full else ("agent-subset" if inorder else "agent-subset+order")
            cases.append((cls_, sub, "u", "np", (0,)))
            for perm in (perms if full_product else [perms[0], perms[4]]):
                cases.append((cls_, sub, "b3", "np", perm))
        failed = set()
        deferred = []
        for cls_, sub, form, cont, idx in cases:
            obs = {}
            for X in sub:
                rawc = row_of(d, raws[X], idx[0], (3,)) if form == "u" else take_rows(d, raws[X], idx)
                obs[X] = wrap(d, rawc, form, cont)
            if any(o is ILLEGAL for o in obs.values()):
                continue
            if cls_ in ("batch1", "batch", "env-perm") and "single" in failed:
                continue
            if cls_ == "env-perm" and "batch" in failed:
                continue
            if cls_ in ("agent-order", "agent-subset", "agent-subset+order") and ({"single", "batch"} & failed):
                continue
            B = len(idx)
            p.evaluations += 1
            if cls_ != "batch" and (cls_ != "single" or any(is_small(m) for m in members(d))):
                p.nt(f"{algo}|{short(d)}|{act}|{ln}|{int(norm)}|{cls_}|{','.join(sub)}|{form}|{cont}|{''.join(map(str, idx))}")
            where = f"get_action(agents={sub}, form={form}, container={cont}, env rows={idx})"
            try:
                with torch.no_grad(), warnings.catch_warnings():
                    warnings.simplefilter("ignore")
                    out = agent.get_action(obs) if algo == "IPPO" else agent.get_action(obs, training=False)
            except Exception as e:  # noqa: BLE001
                failed.add(cls_)
                v_ = (f"{algo}/get_action/{ckind(d) + '/' if cls_ in ('single', 'batch1', 'batch', 'env-perm') else ''}{cls_}/exception/{type(e).__name__}", f"{cfg}: {where} raised {e!r}", rp)
                if cls_ != "agent-subset+order":
                    p.viol(*v_)
                else:
                    deferred.append(v_)
                    p.extra["subset_order_cases_failing"] += 1
                p.out([algo, kd, cls_, "exception"])
                continue
            bad = None
            for X in sub:
                if algo == "IPPO":
                    got = {"action": out[0].get(X), "value": out[3].get(X)}
                    want = {"action": [base[(X, i)][0] for i in idx], "value": [base[(X, i)][2] for i in idx]}
                else:
                    got = {"action": out[0].get(X)}
                    want = {"action": [base[(X, i)][0] for i in idx]}
                    if act == "disc":
                        got["discrete-action"] = None if out[1] is None else out[1].get(X)
                        want["discrete-action"] = [base[(X, i)][1] for i in idx]
                for name, g in got.items():
                    if g is None:
                        bad = ("action" if name != "value" else "value", X, f"{name}: no entry for this agent in the returned dict", None, want[name][0].tolist())
                        break
                    g = np.asarray(g, dtype=np.float64)
                    if g.size != B * want[name][0].size:
                        bad = ("shape", X, name, list(g.shape), [B, want[name][0].size])
                        break
                    g = g.reshape(B, -1)
                    for j in range(B):
                        if not close(g[j], want[name][j]):
                            bad = (name, X, f"row {j} (observation {idx[j]})", g[j].tolist(), want[name][j].tolist())
                            break
                    if bad:
                        break
                if bad:
                    break
            # centralised critics: full agent sets only
            if bad is None and baseq is not None and len(sub) == len(ids):
                try:
                    acts = torch.as_tensor(np.stack([np.concatenate([base[(X, i)][0] for X in ids]) for i in idx]), dtype=torch.float32)
                    q = ma_q(agent, algo, obs, acts)
                    if q.shape[0] != B:
                        bad = ("value-shape", "critic", "", list(q.shape), B)
                    else:
                        for j, i in enumerate(idx):
                            if not close(q[j], baseq[i]):
                                bad = ("value", "critic", f"row {j} (observation {i})", q[j].tolist(), baseq[i].tolist())
                                break
                except Exception as e:  # noqa: BLE001
                    bad = (f"value/exception/{type(e).__name__}", "critic", repr(e), None, None)
            if bad:
                failed.add(cls_)
                key = f"{algo}/get_action/{cls_}/{bad[0]}"   # space kind only in the text: a mismatch is rarely specific to one space
                txt = f"{cfg}: {where}: {bad[0]} of {bad[1]} {bad[2]} = {bad[3]}, but for that single observation of that agent alone = {bad[4]}"
                if cls_ == "agent-subset+order":
                    deferred.append((key, txt, rp))
                    p.extra["subset_order_cases_failing"] += 1
                else:
                    p.viol(key, txt, rp, observed=bad[3], expected=bad[4])
            p.out([algo, kd, cls_, bad[0] if bad else "ok"])
        # re-ordered proper subsets are reported only when neither re-ordering nor sub-setting alone fails
        if deferred and not ({"agent-order", "agent-subset"} & failed):
            for v_ in deferred:
                p.viol(*v_)
    if len(p.samples) < 3:
        p.sample({"part": "ma", "config": cfg, "cases": len(cases), "ordered_agent_subsets": len(ordered_subsets(ids))})


def run_ma(task, p: Partial):
    for d in task["spaces"]:
        for ln in task["lns"]:
            for norm in task["norms"]:
                if not norm and not has_image(d):
                    continue
                rp = {"part": "ma", "algo": task["algo"], "act": task["act"], "spaces": [d], "lns": [ln], "norms": [norm], "nag": task["nag"], "full_product": task["full_product"]}
                ma_config(p, task["algo"], d, task["act"], ln, norm, task["nag"], task["full_product"], rp)


# ---------------------------------------------------------------------------------------------
# assemble / disassemble round trip, stack_critic_observations layout

def run_homo(task, p: Partial):
    d = box([3])
    nag = task["nag"]
    ids = agent_ids(nag)
    agent = make_ma("IPPO", d, "disc", True, True, nag)
    for vect in task["vects"]:
        for width in task["widths"]:
            data = {}
            for xi, X in enumerate(ids):
                shape = (vect,) if width == 0 else (vect, width)
                data[X] = (np.arange(int(np.prod(shape)), dtype=np.float64) + 100 * (xi + 1)).reshape(shape)
            for sub in ordered_subsets(ids):
                full = len(sub) == len(ids)
                inorder = sub == [x for x in ids if x in sub]
                cls_ = ("canonical" if inorder else "agent-order") if full else "agent-subset"
                rp = {"part": "homo", "nag": nag, "vects": [vect], "widths": [width], "only_sub": sub}
                if task.get("only_sub") and task["only_sub"] != sub:
                    continue
                p.evaluations += 1
                if cls_ != "canonical" or vect == 1:
                    p.nt(f"homo|{nag}|{vect}|{width}|{','.join(sub)}")
                inp = {X: data[X].copy() for X in sub}
                try:
                    asm = agent.assemble_homogeneous_outputs(inp, vect)
                    # groups present
                    for g, rows in asm.items():
                        present = [X for X in agent.homogeneous_agents[g] if X in sub]
                        want = np.concatenate([data[X].reshape(vect, -1) for X in present], axis=0)
                        if rows.shape != want.shape or not np.array_equal(rows, want):
                            p.viol(f"assemble_homogeneous_outputs/{cls_}/rows", f"assemble(agents={sub}, vect_dim={vect}, width={width}): group {g} rows are not the present agents' rows agent by agent", rp)
                    if sorted(asm.keys()) != sorted({agent.get_homo_id(X) for X in sub}):
                        p.viol(f"assemble_homogeneous_outputs/{cls_}/groups", f"assemble(agents={sub}): groups {sorted(asm.keys())}", rp)
                    if not all(g in asm for g in agent.shared_agent_ids):
                        # disassemble needs every group; a missing group is a sub-setting case handled by get_action checks
                        p.out(["homo", cls_, "group-missing"])
                        continue
                    dis = agent.disassemble_homogeneous_outputs({g: np.array(v, copy=True) for g, v in asm.items()}, vect)
                    bad = None
                    for X in sub:
                        if X not in dis:
                            bad = f"{X} missing"
                            break
                        got = np.asarray(dis[X])
                        want = data[X].reshape(vect, -1)
                        if got.shape != want.shape or not np.array_equal(got, want):
                            bad = f"{X}: got {got.tolist()} expected {want.tolist()}"
                            break
                    if bad:
                        p.viol(f"disassemble_homogeneous_outputs/{cls_}/round-trip", f"disassemble(assemble(agents={sub}, vect_dim={vect}, width={width})) does not give each present agent its own rows: {bad}", rp)
                    p.out(["homo", cls_, "bad" if bad else "ok"])
                except Exception as e:  # noqa: BLE001
                    p.viol(f"disassemble_homogeneous_outputs/{cls_}/exception/{type(e).__name__}", f"assemble/disassemble(agents={sub}, vect_dim={vect}, width={width}) raised {e!r}", rp)
                    p.out(["homo", cls_, "exception"])
    p.dg("homo", nag, task["vects"], task["widths"])


def run_stack(task, p: Partial):
    nag = task["nag"]
    ids = agent_ids(nag)
    for d in task["spaces"]:
        for norm in task["norms"]:
            if not norm and not has_image(d):
                continue
            rp = {"part": "stack", "nag": nag, "spaces": [d], "norms": [norm]}
            try:
                agent = make_ma("MADDPG", d, "box", True, norm, nag)
            except Exception as e:  # noqa: BLE001
                p.extra["constructor_refused"] += 1
                p.out(["stack", kind(d), "constructor-refused", type(e).__name__])
                continue
            raws = {X: gen_tree(d, (3,), off=2 * xi + 1) for xi, X in enumerate(ids)}
            refs = {X: ref_tree(d, raws[X], norm) for X in ids}
            ms = members(d)

            def layout(rows):
                outs = []
                for mi, m in enumerate(ms):
                    parts = [(refs[X][mi] if isinstance(refs[X], list) else refs[X])[list(rows)] for X in ids]
                    if m["k"] == "box" and len(m["shape"]) == 3:
                        outs.append(np.stack(parts, axis=2))
                    else:
                        outs.append(np.concatenate(parts, axis=1))
                return outs

            for order in itertools.permutations(ids):
                for rows in [(0,), (2,), (0, 1, 2), (2, 0, 1)]:
                    cls_ = "canonical" if list(order) == ids else "agent-order"
                    p.evaluations += 1
                    if cls_ != "canonical" or len(rows) == 1:
                        p.nt(f"stack|{short(d)}|{int(norm)}|{','.join(order)}|{rows}")
                    obs = {X: wrap(d, take_rows(d, raws[X], rows), "b3" if len(rows) == 3 else "b1", "np") for X in order}
                    try:
                        with warnings.catch_warnings():
                            warnings.simplefilter("ignore")
                            st = agent.stack_critic_observations(agent.preprocess_observation(obs))
                    except Exception as e:  # noqa: BLE001
                        p.viol(f"stack_critic_observations/{kind(d)}/{cls_}/exception/{type(e).__name__}", f"stack_critic_observations(obs={short(d)}, agents={list(order)}, rows={rows}) raised {e!r}", rp)
                        continue
                    r = compare(d, st, layout(rows) if d["k"] in ("dict", "tuple") else layout(rows)[0], atol=1e-6)
                    if r:
                        p.viol(f"stack_critic_observations/{cls_}/{r[1]}",
                               f"stack_critic_observations(obs={short(d)}, agents given as {list(order)}, rows={rows}): member {r[0]}: {r[2]} (reference: agents in agent_ids order, vectors concatenated on the feature axis, images stacked on a new axis after the channels)", rp)
                    p.out(["stack", kind(d), cls_, r[1] if r else "ok"])
    p.dg("stack", nag, [short(d) for d in task["spaces"]])


# =============================================================================================
# task lists

def o4_leaves(tier):
    out = [box([], "f32", "m13"), box([3], "f32", "m13"), box([1], "f32", "m13"), box([2, 3], "f32", "m13"),
           box([3, 8, 8], "u8", "255"), box([3, 8, 8], "f32", "m13"), box([2, 2, 2, 2], "f32", "01"),
           {"k": "disc", "n": 1}, {"k": "disc", "n": 2}, {"k": "disc", "n": 5}, {"k": "md", "nvec": [2]}, {"k": "md", "nvec": [2, 3]},
           {"k": "mb", "n": 1}, {"k": "mb", "n": 3}]
    if tier != "quick":
        out += [box([3], "f64", "inf"), box([3], "i64", "255"), box([2, 1], "f32", "m13"), box([3, 8, 8], "f32", "inf"), box([3, 8, 8], "f32", "01"),
                box([1, 8, 8], "u8", "255"), box([2, 1, 2, 1], "f32", "01")]
    return out


def o4_members(tier):
    out = [box([3], "f32", "m13"), box([1], "f32", "m13"), box([3, 8, 8], "u8", "255"), {"k": "disc", "n": 1}, {"k": "disc", "n": 5},
           {"k": "md", "nvec": [2, 3]}, {"k": "mb", "n": 3}]
    if tier != "quick":
        out += [box([], "f32", "m13"), box([2, 3], "f32", "m13"), {"k": "md", "nvec": [2]}, {"k": "disc", "n": 2}]
    return out


def o4_spaces(tier, pairs=True):
    out = list(o4_leaves(tier))
    if pairs:
        ms = o4_members(tier)
        for outer in ("dict", "tuple"):
            for a in ms:
                for b in ms:
                    out.append({"k": outer, "m": [a, b]})
    return out


def ma_spaces(tier):
    out = list(o4_leaves(tier))
    prs = [(box([3]), {"k": "disc", "n": 5}), (box([3, 8, 8], "u8", "255"), {"k": "disc", "n": 2}), ({"k": "disc", "n": 1}, box([1])), (box([3]), {"k": "md", "nvec": [2, 3]}),
           (box([3, 8, 8], "u8", "255"), box([3]))]
    if tier != "quick":
        ms = o4_members("quick")
        prs = [(a, b) for a in ms for b in ms]
    for outer in ("dict", "tuple"):
        for a, b in prs:
            out.append({"k": outer, "m": [a, b]})
    return out


def bounds(tier):
    q = tier == "quick"
    return {
        "leaf_spaces": {"Box": {"shapes(rank 0-4, with and without singleton dims)": BOX_SHAPES, "dtype": list(DT), "bounds": ["[0,255]", "[0,1]", "[-1,3]", "[-inf,inf]"]},
                        "Discrete": [1, 2, 5], "MultiDiscrete": [[2], [2, 3]], "MultiBinary": [1, 3], "count": len(all_leaves())},
        "composite_spaces": "Dict and Tuple of every ordered pair of " + (f"{len(member_leaves_quick())} representative leaves (every rank, singleton variant, every non-Box leaf)" if q else f"all {len(all_leaves())} leaves"),
        "forms": {k: list(v) for k, v in FORMS.items()},
        "fresh_space_sequences": {"shapes": [[2, 4, 4], [3, 2, 1]], "bounds_sequence_per_dtype(x3 rounds)": SEQ_BOUNDS, "containers": ["pt", "np"],
                                  "forms": ["u", "b3"] if q else ["u", "b1", "b3", "se"], "oracle": "every call judged against the bounds of the space passed to THAT call"},
        "containers": CONTS,
        "normalize_images": [True, False] if not q else "both for spaces containing a rank-3 Box and for every leaf; on only for image-free composites",
        "single_agent": {"algorithms": list(SA_ALGOS) if not q else [a for a in SA_ALGOS if a != "PPO-box"], "obs_spaces": len(o4_spaces(tier)), "encoder_layer_norm": [True, False],
                         "forms": ["u", "b1", "b3"], "containers": "all legal", "env_row_permutations": "all 6", "network_modes": ["eval (set by harness)", "as constructed"], "networks": "latent 8, encoder hidden [8] / conv 4ch k3 s2, head [16], images 3x8x8"},
        "multi_agent": {"algorithms": ["IPPO", "MADDPG", "MATD3"], "actions": ["Discrete(3)", "Box(2)"], "agents": agent_ids(3 if q else 4), "obs_spaces": len(ma_spaces(tier)),
                        "encoder_layer_norm": [True, False], "agent_sets": "every ordered non-empty subset", "canonical_set_forms_x_containers": [["u", "b1", "b3"], ["np", "pt", "td", "nps"]],
                        "env_row_permutations": "all 6 on the canonical set; identity and (2,0,1) on the other ordered subsets" if q else "all 6 on every ordered subset"},
        "homo": {"agents": [3, 4], "vect_dim": [1, 3], "width": [0, 1, 2]},
        "stack": {"agents": [3], "orderings": "all", "rows": [[0], [2], [0, 1, 2], [2, 0, 1]]},
    }


def tasks(tier, seed):
    q = tier == "quick"
    out = []
    forms = list(FORMS)
    leaves = all_leaves()
    # ---- pre: leaves
    for i in range(0, len(leaves), 8):
        out.append({"part": "pre", "spaces": leaves[i:i + 8], "forms": forms, "conts": CONTS, "norms": [True, False], "_cost": 8 * 40})
    # ---- pre: pairs
    ms = member_leaves_quick() if q else leaves
    for outer in ("dict", "tuple"):
        for a in ms:
            sp = [{"k": outer, "m": [a, b]} for b in ms]
            out.append({"part": "pre", "spaces": sp, "forms": forms, "conts": CONTS, "norms": [True, False], "norm_off_images_only": q, "_cost": len(sp) * 60})
    # ---- pre: sequences of fresh same-shape image spaces with changing bounds
    for shape in ([2, 4, 4], [3, 2, 1]):
        for dt in ("f32", "f64", "u8"):
            out.append({"part": "preseq", "shape": shape, "dt": dt, "conts": ["pt", "np"], "forms": ["u", "b3"] if q else ["u", "b1", "b3", "se"], "_cost": 200})
    # ---- single agent
    sas = o4_spaces(tier)
    for algo in SA_ALGOS:
        if q and algo == "PPO-box":
            continue
        step = 14 if q else 12
        for i in range(0, len(sas), step):
            out.append({"part": "sa", "algo": algo, "spaces": sas[i:i + step], "lns": [True, False], "norms": [True, False], "_cost": step * 2 * 250})
    # ---- multi agent
    mas = ma_spaces(tier)
    for algo in ("IPPO", "MADDPG", "MATD3"):
        for act in ("disc", "box"):
            step = 4 if q else 3
            for i in range(0, len(mas), step):
                out.append({"part": "ma", "algo": algo, "act": act, "spaces": mas[i:i + step], "lns": [True, False], "norms": [True, False], "nag": 3 if q else 4,
                            "full_product": not q, "_cost": step * 2 * (600 if q else 6000)})
    # ---- helpers
    for nag in (3, 4):
        out.append({"part": "homo", "nag": nag, "vects": [1, 3], "widths": [0, 1, 2], "_cost": 200})
    st = [box([3]), box([1]), box([2, 3]), box([3, 8, 8], "u8", "255"), {"k": "disc", "n": 1}, {"k": "disc", "n": 5}, {"k": "md", "nvec": [2, 3]},
          {"k": "dict", "m": [box([3]), {"k": "disc", "n": 5}]}, {"k": "dict", "m": [box([3, 8, 8], "u8", "255"), box([3])]}, {"k": "tuple", "m": [box([3, 8, 8], "u8", "255"), {"k": "md", "nvec": [2]}]}]
    for i in range(0, len(st), 2):
        out.append({"part": "stack", "nag": 3, "spaces": st[i:i + 2], "norms": [True, False], "_cost": 300})
    return out


def run_task(task):
    p = Partial()
    part = task["part"]
    torch.manual_seed(0)
    np.random.seed(0)
    if part == "pre":
        run_pre(task, p)
    elif part == "preseq":
        run_preseq(task, p)
    elif part == "sa":
        run_sa(task, p)
    elif part == "ma":
        run_ma(task, p)
    elif part == "homo":
        run_homo(task, p)
    elif part == "stack":
        run_stack(task, p)
    else:
        raise HarnessError(f"unknown part {part}")
    return p
