"""C01 — a cloned agent is a faithful and fully independent copy of its parent.

E2: stateless exhaustive enumeration of operation histories (learn, the five mutation kinds with the
architecture method / hyper-parameter enumerated, continue-with-clone, tournament round) on real
agents; after each history P, C1=P.clone(), C2=P.clone() are compared (faithful) and scanned for
shared storage, then a fixed sequence of probe operations is applied to one of the three while
the deep fingerprints of the other two must not move.
"""
from __future__ import annotations

import itertools

import numpy as np
import torch

from ..core import HarnessError, Partial
from ..fixtures import agentops as O
from ..fixtures import agents as A
from ..rand import seeded

LEVEL = "model_checking"
RULE = (
    "all histories over {L, Ma(every advertised method), Mp, Mact, Mh(every hp), K(clone), T(tournament)} up to the stated depth "
    "(full alphabet at the first position(s), reduced alphabet {L, Ma(first), Mp, Mh(first), K} at the deeper ones) on real tiny agents; "
    "per history: faithful oracle on (P,C1),(P,C2), pointer scan over all pairs, 6 probe ops with bystander fingerprints; "
    "states = distinct (algo, config, architecture signature, optimizer-has-state) reached; non-trivial = histories with >=1 learn "
    "(non-empty optimizer state) and >=1 architecture change; outcomes = distinct (algo, architecture signature)"
)
ASSUMPTIONS = [
    "tiny networks (latent 8, hidden 8/16, image 3x8x8) exercise the same clone code paths as large ones",
    "module-internal np.random draws of architecture mutations are pinned by seed (the property does not quantify over them)",
    "a network registered as shared/target may equal the clone's own eval network instead of the parent's target (re-sync clause)",
    "the same-update clause is evaluated only when the clone's targets equal the parent's (otherwise the statement exempts it)",
]

SHARE = {"PPO": [True, False], "DDPG": [True, False], "TD3": [True, False]}
REDUCED = ["L", "Ma0", "Mp", "Mh0", "K"]


def bounds(tier):
    q = tier == "quick"
    return {
        "algorithms": A.ALGOS,
        "obs_kinds": ["vector", "discrete"] if q else ["vector", "image", "dict", "tuple", "discrete"],
        "share_encoders": SHARE,
        "depth": "<=1 full alphabet + depth 2 (full x reduced)" if q else "<=2 full alphabet + depth 3 (reduced x reduced x reduced)",
        "agent_wrapper": "RSNorm(DQN), RSNorm(DDPG): all histories over {A(act, moves statistics), L, K} of length <=2",
        "probe_ops": ["L on C1", "L on P (same batch+seed)", "Mp on C2", "Mh on C1", "Ma on P", "discard C2 + gc"],
    }


def configs(tier):
    b = bounds(tier)
    out = []
    for algo in A.ALGOS:
        for kind in b["obs_kinds"]:
            if kind not in A.kinds_for(algo):
                continue
            for se in SHARE.get(algo, [None]):
                if se is False and kind not in ("vector", "image"):
                    continue
                out.append({"algo": algo, "kind": kind, "share": se})
    return out


def tasks(tier, seed):
    out = []
    for algo, share in (("DQN", None), ("DDPG", True)):
        out.append({"algo": algo, "kind": "vector", "share": share, "wrapper": "RSNorm", "tier": tier, "first": None, "_cost": 8})
    for cfg in configs(tier):
        cost = 3 if cfg["algo"] in A.MULTI else 1
        out.append({**cfg, "tier": tier, "first": None, "_cost": cost})          # the empty history
        # one task per first op (indices resolved against the alphabet inside the worker)
        for i in range(24):
            out.append({**cfg, "tier": tier, "first": i, "_cost": cost * (6 if tier == "quick" else 30)})
    return out


class NotEnabled(Exception):
    pass


class SharedAfterTournament(Exception):
    pass


# ------------------------------------------------------------------------------------------ operations
def build(cfg):
    kw = {}
    if cfg["share"] is not None:
        kw["share_encoders"] = cfg["share"]
    return A.make_agent(cfg["algo"], cfg["kind"], seed=0, **kw)


def alphabet(agent):
    ops = ["L"]
    ops += [f"Ma:{m}" for m in O.arch_methods(agent)]
    ops += ["Mp", "Mact"]
    ops += [f"Mh:{h}" for h in O.hp_names(agent)]
    ops += ["K", "T"]
    return ops


def resolve(agent, op):
    if op == "Ma0":
        ms = O.arch_methods(agent)
        return f"Ma:{ms[0]}" if ms else None
    if op == "Mh0":
        hs = O.hp_names(agent)
        return f"Mh:{hs[0]}" if hs else None
    return op


def apply_op(agent, op, cfg, step):
    """returns the agent to continue with"""
    algo, kind = cfg["algo"], cfg["kind"]
    op = resolve(agent, op)  # "Ma0"/"Mh0" = first method / hp the CURRENT agent advertises
    if op is None:
        return agent
    if op == "L":
        for _ in range(getattr(agent, "policy_freq", 1)):
            A.learn(agent, A.batch_for(agent, algo, kind, seed=step), seed=step)
        return agent
    if op.startswith("Ma:"):
        if op[3:] not in O.arch_methods(agent):
            raise NotEnabled(op)
        return O.mutate(agent, "arch", seed=step, method=op[3:])
    if op == "Mp":
        return O.mutate(agent, "param", seed=step)
    if op == "Mact":
        return O.mutate(agent, "act", seed=step)
    if op.startswith("Mh:"):
        if op[3:] not in O.hp_names(agent):
            raise NotEnabled(op)
        return O.mutate(agent, "hp", seed=step, hp=op[3:])
    if op == "K":
        return agent.clone()
    if op == "T":
        pop = [agent.clone(index=i) for i in range(3)]
        for i, a in enumerate(pop):
            a.fitness.append(float(i))
        ts = O.TournamentSelection(2, True, 3, 1)
        with seeded(step):
            elite, new = ts.select(pop)
        # elite, the new generation and the old population are all copies of each other (siblings): none may be the same
        # object as, or share storage with, another
        fam = [("elite", elite)] + [(f"new[{i}]", m) for i, m in enumerate(new)] + [(f"old[{i}]", m) for i, m in enumerate(pop)]
        for (na, a), (nb, b) in itertools.combinations(fam, 2):
            if a is b:
                raise SharedAfterTournament(f"{na} and {nb} are the same object")
            hits = O.shared_storage(a, b)
            if hits:
                raise SharedAfterTournament(f"{na} and {nb} share {O.classify_tensor_name(hits[0][0])}")
        return new[1]
    raise HarnessError(f"unknown op {op}")


# ------------------------------------------------------------------------------------------ oracles
def shared_names(agent):
    out = []
    for g in agent.registry.groups:
        if g.shared is not None:
            sh = g.shared if isinstance(g.shared, list) else [g.shared]
            for s in sh:
                if isinstance(s, list):
                    out += [(x, g.eval) for x in s]
                else:
                    out.append((s, g.eval))
    return dict(out)


def faithful(p: Partial, P, C, cfg, hist, who):
    algo = cfg["algo"]
    rp = {**cfg, "history": hist}
    ok = True

    def v(aspect, text):
        nonlocal ok
        ok = False
        p.viol(f"{algo}/clone/faithful/{aspect}", f"{who} after history {hist}: {text}", rp)

    if type(P) is not type(C):
        v("class", f"{type(C)}")
        return False, False
    # hyper-parameters / constructor arguments / registry
    ia, ib = type(P).inspect_attributes(P, input_args_only=True), type(C).inspect_attributes(C, input_args_only=True)
    for k in sorted(set(ia) | set(ib)):
        if k in ("index", "wrap", "device", "accelerator"):
            continue
        if not O.init_dict_equal(ia.get(k), ib.get(k)):
            v(f"hyperparameter:{k}", f"{k}: parent {ia.get(k)!r} clone {ib.get(k)!r}")
    if repr(O.hp_state(P)) != repr(O.hp_state(C)):
        v("registry-hp-values", f"parent {O.hp_state(P)} clone {O.hp_state(C)}")
    if C.index != P.index or C.mut != P.mut or list(C.scores) != list(P.scores) or list(C.fitness) != list(P.fitness) or list(C.steps) != list(P.steps):
        v("bookkeeping", f"index/mut/scores/fitness/steps differ: {(P.index, P.mut, P.scores, P.fitness, P.steps)} vs {(C.index, C.mut, C.scores, C.fitness, C.steps)}")
    # networks
    np_, nc = O.networks(P), O.networks(C)
    shared = shared_names(P)
    targets_equal = True
    if sorted(np_) != sorted(nc):
        v("network-attributes", f"{sorted(np_)} vs {sorted(nc)}")
        return False, False
    for attr in np_:
        if len(np_[attr]) != len(nc[attr]):
            v(f"network-count:{attr}", "")
            continue
        for i, (m1, m2) in enumerate(zip(np_[attr], nc[attr])):
            why = O.modules_equal(m1, m2)
            if why is None:
                continue
            if why == "weights" and attr != P.registry.policy and getattr(P, "share_encoders", False):
                # shared encoders: the critic's encoder is a copy of the policy's encoder that is re-made on every
                # copy (mutation hook); like a re-synchronised target it may follow the clone's own policy encoder
                t1, t2 = O.module_tensors(m1), O.module_tensors(m2)
                pol = O.module_tensors(O.policy_of(C))
                diff = [k for k in t1 if not torch.equal(t1[k], t2[k])]
                if all(k.startswith("encoder.") and k in pol and torch.equal(t2[k], pol[k]) for k in diff):
                    targets_equal = False
                    continue
            if attr in shared and why == "weights":
                targets_equal = False
                ev = O.networks(C)[shared[attr]]
                ev = ev[i] if len(ev) > i else ev[0]
                if O.module_values_equal(m2, ev):
                    continue  # re-synchronised with the clone's own online network
                v(f"target-weights:{attr}", f"{attr}[{i}] equals neither the parent's target nor the clone's own eval network")
            else:
                v(f"network-{why}:{attr}", f"{attr}[{i}] differs in {why}")
    # optimizers
    op_, oc = O.optimizers(P), O.optimizers(C)
    if sorted(op_) != sorted(oc):
        v("optimizer-attributes", f"{sorted(op_)} vs {sorted(oc)}")
    else:
        for name in op_:
            why = O.opt_equal(op_[name], oc[name])
            if why:
                v(f"{why}", f"optimizer {name}: {why}")
        probs = O.opt_owns_live_params(C)
        if probs:
            v("optimizer-not-on-live-parameters", f"{probs}")
    # tensor attributes (e.g. bandit sigma_inv)
    ta, tb = O.tensor_attrs(P), O.tensor_attrs(C)
    for k in sorted(set(ta) | set(tb)):
        base = k.split(".")[0]
        if base in ("param_vals", "target_params"):
            continue  # views on the networks, compared above
        if k not in ta or k not in tb or ta[k].shape != tb[k].shape or not torch.equal(ta[k], tb[k]):
            v(f"tensor-attribute:{base}", f"{k} differs")
    # behaviour
    if ok:
        obs = A.probe_obs(algo, cfg["kind"])
        try:
            ga, gb = A.greedy_action(P, obs), A.greedy_action(C, obs)
            if ga.shape != gb.shape or not np.array_equal(ga, gb):
                v("greedy-actions", f"greedy actions differ {ga.tolist()} vs {gb.tolist()}")
        except Exception as e:
            v(f"get_action-exception/{type(e).__name__}", repr(e)[:200])
    return ok, targets_equal


def weights_fp(agent, eval_only=True):
    sh = shared_names(agent) if eval_only else {}
    out = {}
    for attr, mods in O.networks(agent).items():
        if attr in sh:
            continue
        for i, m in enumerate(mods):
            for n, t in O.module_tensors(m).items():
                out[f"{attr}[{i}].{n}"] = O._h(t)
    return out


def check_history(p: Partial, cfg, hist):
    algo, kind = cfg["algo"], cfg["kind"]
    rp = {**cfg, "history": hist}
    p.evaluations += 1
    p.traces += 1
    agent = build(cfg)
    step = 0
    try:
        for op in hist:
            step += 1
            agent = apply_op(agent, op, cfg, step)
            p.transitions += 1
    except HarnessError:
        raise
    except NotEnabled:
        p.extra["histories_with_op_not_enabled"] += 1
        p.evaluations -= 1
        p.traces -= 1
        return
    except SharedAfterTournament as e:
        p.viol(f"{algo}/tournament/copies-share-state", f"after a tournament round in history {hist}: {e}", rp)
        return
    except Exception as e:
        # operations other than clone failing belong to other properties (C02/C20); not judged here
        if op in ("K", "T"):
            p.viol(f"{algo}/clone/exception/{type(e).__name__}", f"clone inside history {hist} raised {e!r}"[:300], rp)
        else:
            p.extra["histories_aborted_by_non_clone_op_exception"] += 1
            p.out(["aborted", algo, op.split(":")[0], type(e).__name__])
        return
    P = agent
    try:
        C1, C2 = P.clone(), P.clone()
    except Exception as e:
        p.viol(f"{algo}/clone/exception/{type(e).__name__}", f"clone after {hist} raised {e!r}"[:300], rp)
        return
    has_state = any(len(o.state) for ow in O.optimizers(P).values() for o in O.opt_list(ow))
    sig = tuple(O.arch_sig(m) for mods in O.networks(P).values() for m in mods)
    sig_h = O.hashlib.sha1(repr(sig).encode()).hexdigest()[:10]
    p.out([algo, kind, sig_h])
    p.dg(algo, kind, hist, sig_h, has_state)
    p._states.add((algo, kind, cfg["share"], sig_h, has_state))
    if "L" in hist and any(o.startswith("Ma") for o in hist):
        p.nt([algo, kind, cfg["share"], hist])
    ok1, teq1 = faithful(p, P, C1, cfg, hist, "C1")
    ok2, teq2 = faithful(p, P, C2, cfg, hist, "C2")
    # ---- pointer scan
    for (na, a), (nb, b) in itertools.combinations([("P", P), ("C1", C1), ("C2", C2)], 2):
        hits = O.shared_storage(a, b)
        for h in sorted({O.classify_tensor_name(x[0]) for x in hits}):
            p.viol(f"{algo}/clone/independent/shared-storage/{h}", f"{na} and {nb} share {h} after history {hist} (e.g. {hits[0]})", rp)

    # ---- probes
    agents_ = {"P": P, "C1": C1, "C2": C2}

    def probe(name, target, fn):
        others = [k for k in agents_ if k != target and agents_[k] is not None]
        before = {k: O.fingerprint(agents_[k]) for k in others}
        try:
            res = fn(agents_[target])
        except HarnessError:
            raise
        except Exception as e:
            p.viol(f"{algo}/clone/probe-exception/{name}/{type(e).__name__}", f"{name} on {target} after {hist}: {e!r}"[:300], rp)
            return False
        if res is not None:
            agents_[target] = res
        for k in others:
            d = O.fp_diff(before[k], O.fingerprint(agents_[k]))
            if d:
                cls = sorted({O.classify_tensor_name(x) if ":" in x else x for x in d})
                for c in cls:
                    p.viol(f"{algo}/clone/independent/bystander-changed/{name}/{c}", f"{name} on {target} changed {k}: {d[:4]} after history {hist}", rp)
        return True

    def do_learn(a):
        for i in range(getattr(a, "policy_freq", 1)):
            A.learn(a, A.batch_for(a, algo, kind, seed=99), seed=99 + i)

    if not probe("learn", "C1", do_learn):
        return
    w_before = weights_fp(P)
    if not probe("learn", "P", do_learn):
        return
    if ok1 and teq1:
        d = O.fp_diff(weights_fp(P), weights_fp(C1))
        if d:
            p.viol(f"{algo}/clone/faithful/same-update", f"parent and clone trained on the same batch with the same seed end in different weights: {d[:3]} after {hist}", rp)
    if weights_fp(P) == w_before:
        p.extra["learn_did_not_move_parent"] += 1
    probe("param-mutation", "C2", lambda a: O.mutate(a, "param", seed=5))
    hs = O.hp_names(C1)
    if hs:
        probe("hp-mutation", "C1", lambda a: O.mutate(a, "hp", seed=6, hp=hs[0]))
    ms = O.arch_methods(P)
    if ms:
        probe("arch-mutation", "P", lambda a: O.mutate(a, "arch", seed=7, method=ms[0]))
    # discard C2
    before = {k: O.fingerprint(agents_[k]) for k in ("P", "C1")}
    agents_["C2"] = None
    C2 = None
    O.gc.collect()
    for k in ("P", "C1"):
        d = O.fp_diff(before[k], O.fingerprint(agents_[k]))
        if d:
            p.viol(f"{algo}/clone/independent/bystander-changed/discard", f"discarding C2 changed {k}: {d[:4]}", rp)
    probe("learn-after-discard", "C1", do_learn)


def check_wrapper(p: Partial, cfg, hist):
    """agent-wrapper variant (RSNorm): histories over A (act in training mode: moves the running statistics), L (learn
    through the wrapper), K (continue with a clone); the clone must carry equal statistics and share none of them"""
    from . import c07  # lazy: c07 imports this module

    algo = cfg["algo"] + "+" + cfg["wrapper"]
    rp = {**cfg, "history": hist}
    p.evaluations += 1
    p.traces += 1
    W = c07.build(cfg)
    for i, op in enumerate(hist):
        W = c07.apply_op(W, op, cfg, i + 1)
        p.transitions += 1
    try:
        C1, C2 = W.clone(), W.clone()
    except Exception as e:
        p.viol(f"{algo}/clone/exception/{type(e).__name__}", f"wrapper clone after {hist} raised {e!r}"[:300], rp)
        return
    p._states.add((algo, tuple(hist)))
    p.dg(algo, hist, repr({k: v.tolist() for k, v in c07.rms_state(W).items()}))
    for name, C in (("C1", C1), ("C2", C2)):
        if type(C) is not type(W):
            p.viol(f"{algo}/clone/faithful/wrapper-class", f"{name} is a {type(C).__name__}", rp)
            return
        a, b = c07.rms_state(W), c07.rms_state(C)
        if sorted(a) != sorted(b) or any(not np.array_equal(a[k], b[k]) for k in a):
            p.viol(f"{algo}/clone/faithful/wrapper-statistics", f"{name} after {hist}: running statistics differ from the parent's", rp)
    # (the wrapper patches the inner agent's get_action and moves its statistics in training mode: probe in eval mode)
    for w in (W, C1, C2):
        c07.inner(w).set_training_mode(False)
    for name, C in (("C1", C1), ("C2", C2)):
        faithful(p, c07.inner(W), c07.inner(C), {**cfg, "algo": cfg["algo"]}, hist, name)
    for w in (W, C1, C2):
        c07.inner(w).set_training_mode(True)
    fam = {"P": W, "C1": C1, "C2": C2}

    def rms_ptrs(w):
        r = w.obs_rms
        return {id(r)} | {getattr(r, f).untyped_storage().data_ptr() for f in ("mean", "var", "count") if isinstance(getattr(r, f, None), torch.Tensor)}

    for (na, a), (nb, b) in itertools.combinations(fam.items(), 2):
        if rms_ptrs(a) & rms_ptrs(b):
            p.viol(f"{algo}/clone/independent/shared-storage/wrapper-statistics", f"{na} and {nb} share their running statistics after {hist}", rp)
        for h in sorted({O.classify_tensor_name(x[0]) for x in O.shared_storage(c07.inner(a), c07.inner(b))}):
            p.viol(f"{algo}/clone/independent/shared-storage/{h}", f"{na} and {nb} share {h} after {hist}", rp)
    for opname in ("A", "L"):
        before = {k: (O.fingerprint(c07.inner(w)), repr({x: v.tolist() for x, v in c07.rms_state(w).items()})) for k, w in fam.items() if k != "C1"}
        fam["C1"] = c07.apply_op(fam["C1"], opname, cfg, 77)
        for k, (fp0, r0) in before.items():
            if repr({x: v.tolist() for x, v in c07.rms_state(fam[k]).items()}) != r0:
                p.viol(f"{algo}/clone/independent/bystander-changed/{opname}/wrapper-statistics", f"{opname} on C1 changed the running statistics of {k} after {hist}", rp)
            d = O.fp_diff(fp0, O.fingerprint(c07.inner(fam[k])))
            if d:
                p.viol(f"{algo}/clone/independent/bystander-changed/{opname}/{O.classify_tensor_name(d[0]) if ':' in d[0] else d[0]}", f"{opname} on C1 changed {k}: {d[:3]}", rp)


def run_task(task):
    p = Partial()
    p._states = set()
    cfg = {k: task[k] for k in ("algo", "kind", "share")}
    if task.get("wrapper"):
        cfg["wrapper"] = task["wrapper"]
        hists = [task["history"]] if "history" in task else [[]] + [[a] for a in "ALK"] + [[a, b] for a in "ALK" for b in "ALK"]
        for h in hists:
            check_wrapper(p, cfg, h)
        p.sample({"config": cfg, "history": hists[-1]})
        p.states = len(p._states)
        del p._states
        return p
    if "history" in task:  # replay
        check_history(p, cfg, task["history"])
        p.states = len(p._states)
        del p._states
        return p
    tier = task["tier"]
    base = build(cfg)
    sigma = alphabet(base)
    del base
    if task["first"] is None:
        check_history(p, cfg, [])
        p.sample({"config": cfg, "history": []})
    else:
        if task["first"] >= len(sigma):
            p.states = 0
            del p._states
            return p
        f = sigma[task["first"]]
        hists = [[f]]
        red = list(REDUCED)
        if tier == "quick":
            hists += [[f, r] for r in red]
        else:
            hists += [[f, s] for s in sigma]
            if f in ("L", "Mp", "K") or f == sigma[1] or f.startswith("Mh:") and f == [x for x in sigma if x.startswith("Mh:")][0]:
                hists += [[f, r2, r3] for r2 in red for r3 in red]
        for h in hists:
            check_history(p, cfg, h)
        p.sample({"config": cfg, "history": hists[-1]})
    p.states = len(p._states)
    del p._states
    return p
