"""C11 — prioritised replay samples stored items with consistent priorities and weights.

E1 stategraph over {add(w), update_priorities(I,P)} on the real PrioritizedReplayBuffer; in every
new canonical state the state-oracle checks the tree invariants, the whole retrieval function
(breakpoints +- delta and a grid) and sample() for every batch size and every scripted
stratified draw.
"""
from __future__ import annotations

import itertools
import math

import numpy as np
import torch

from agilerl.components.replay_buffer import PrioritizedReplayBuffer

from ..core import Partial
from ..rand import patched
from ..stategraph import explore
from .c09 import decode_row, make_td

LEVEL = "model_checking"
RULE = (
    "explicit-state BFS over add(width)/update_priorities(indices,priorities) on the real PrioritizedReplayBuffer; "
    "canonical state = (size,cursor,tree_ptr,leaf priorities,max_priority); per new state: tree invariants, retrieval "
    "function at every breakpoint +-delta and on a grid, sample() for every batch size x every scripted stratified "
    "draw in {0,2^-24,0.5,1-2^-24}^b, weights vs reference; non-trivial = states with non-power-of-two capacity "
    "after wrap or mixed tiny/huge priorities; outcomes = distinct (capacity, sorted leaf multiset)"
)
ASSUMPTIONS = [
    "priorities arrive as a float32 numpy array and indices as an int64 (k,1) tensor, as RainbowDQN.learn returns them",
    "update_priorities clamps priorities below 1e-5 to 1e-5 (documented in code); the reference applies the same clamp",
    "the initial max priority is 1.0 ('highest seen so far' includes this initial value)",
    "retrieve() is evaluated on breakpoints +-8ulp(total), a 33-point grid and all scripted stratum draws; indices reachable only by u within 8 ulp of the total mass are not required to be exact",
]

PM = [1e-9, 1e-5, 0.5, 1.0, 7.0, 1e6]
PM_PAIR = [1e-5, 7.0, 1e6]
PM_R = [1e-9, 0.5, 1e6]
PM_PAIR_R = [1e-5, 1e6]
RS = [0.0, 2.0 ** -24, 0.5, 1.0 - 2.0 ** -24]


def bounds(tier):
    q = tier == "quick"
    return {
        "capacity": [1, 2, 3, 4, 5] if q else [1, 2, 3, 4, 5, 6, 7],
        "alpha": [0.0, 0.6, 1.0], "beta": [0.0, 0.4, 1.0],
        "initial_states": ["empty", "full", "wrapped(add cap, add 1)"],
        "depth": ({"cap<=2": "closure from empty", "cap=3": "3 from empty, 2 from full/wrapped", "cap>=4": "2 from each initial state, reduced priority menu"} if q else
                  {"cap<=2": "closure from empty", "cap=3": "4 from empty, 3 from full/wrapped", "cap=4": "3 from each initial state", "cap>=5": "3 from empty, 2 from full/wrapped, reduced menu"}),
        "priorities": PM, "pair_priorities": PM_PAIR, "reduced_menu": [PM_R, PM_PAIR_R], "sample_batch": "1..min(size,3)", "draws": RS}


def tasks(tier, seed):
    b = bounds(tier)
    q = tier == "quick"
    out = []
    for cap in b["capacity"]:
        for alpha in b["alpha"]:
            for init in ("empty", "full", "wrapped"):
                reduced = cap >= 4 if q else cap >= 5
                if cap <= 2:
                    if init != "empty":
                        continue
                    depth = None
                elif cap == 3:
                    depth = (3 if init == "empty" else 2) if q else (4 if init == "empty" else 3)
                elif q:
                    depth = 2
                else:
                    depth = 3 if (cap == 4 or init == "empty") else 2
                out.append({"cap": cap, "alpha": alpha, "betas": b["beta"], "depth": depth, "init": init, "reduced": reduced,
                            "_cost": (cap * (3 if reduced else 8)) ** (depth or 3)})
    return out


class H:
    def __init__(self, cap, alpha, reduced=False):
        self.cap, self.alpha = cap, alpha
        self.pm = PM_R if reduced else PM
        self.pmp = PM_PAIR_R if reduced else PM_PAIR
        self.buf = PrioritizedReplayBuffer(max_size=cap, alpha=alpha)
        self.total = 0
        self.prio = [None] * cap   # reference raw priority per slot
        self.maxp = 1.0
        self.size = 0
        self.cursor = 0
        self.wrapped = False


def canon(h: H):
    b = h.buf
    tc = b.sum_tree.capacity
    return (len(b), b._cursor, b.tree_ptr, tuple(b.sum_tree.tree[tc:tc + tc]), tuple(b.min_tree.tree[tc:tc + tc]), b.max_priority)


def ops(h: H):
    out = [{"op": "add", "w": w} for w in sorted({1, 2, h.cap}) if w <= h.cap]
    n = h.size
    for i in range(n):
        for pi, _ in enumerate(h.pm):
            out.append({"op": "upd", "idx": [i], "p": [pi]})
    for i in range(n):
        for j in range(i, n):
            for a, b in itertools.product(range(len(h.pmp)), repeat=2):
                if i == j and a == b:
                    continue
                out.append({"op": "upd", "idx": [i, j], "pp": [a, b]})
    return out


def ulp(x):
    return math.ulp(x) if x > 0 else 5e-324


def state_oracle(h: H, p: Partial, rp, betas):
    b = h.buf
    st, mt = b.sum_tree, b.min_tree
    tc = st.capacity
    kp = "PER"
    # ---- tree invariants
    for node in range(1, tc):
        if st.tree[node] != st.tree[2 * node] + st.tree[2 * node + 1]:
            p.viol(f"{kp}/sum-tree/internal-node", f"sum node {node}={st.tree[node]} children {st.tree[2*node]}+{st.tree[2*node+1]}", rp)
            return False
        if mt.tree[node] != min(mt.tree[2 * node], mt.tree[2 * node + 1]):
            p.viol(f"{kp}/min-tree/internal-node", f"min node {node}={mt.tree[node]} children {mt.tree[2*node]},{mt.tree[2*node+1]}", rp)
            return False
    leaves = st.tree[tc:2 * tc]
    mleaves = mt.tree[tc:2 * tc]
    for i in range(tc):
        if i < h.size:
            want = h.prio[i] ** h.alpha
            if leaves[i] != want or mleaves[i] != want:
                p.viol(f"{kp}/leaf-priority", f"slot {i}: sum leaf {leaves[i]} min leaf {mleaves[i]} expected priority^alpha={want} (priority {h.prio[i]})", rp,
                       observed=[leaves[i], mleaves[i]], expected=want)
                return False
        else:
            if leaves[i] != 0.0 or mleaves[i] != float("inf"):
                p.viol(f"{kp}/unused-leaf-not-neutral", f"leaf {i} >= size {h.size}: sum {leaves[i]} min {mleaves[i]}", rp)
                return False
    total = st.sum()
    if h.size and abs(total - math.fsum(leaves)) > 1e-12 * math.fsum(leaves):
        p.viol(f"{kp}/sum-root", f"sum() {total} vs fsum {math.fsum(leaves)}", rp)
        return False
    if h.size and mt.min() != min(leaves[: h.size]):
        p.viol(f"{kp}/min-root", f"min() {mt.min()} vs {min(leaves[:h.size])}", rp)
        return False
    if b.max_priority != h.maxp:
        p.viol(f"{kp}/max-priority", f"max_priority {b.max_priority} expected {h.maxp}", rp)
        return False
    if h.size == 0:
        return True
    # ---- retrieval as a function of the query mass
    prefix = [0.0]
    for x in leaves[: h.size]:
        prefix.append(prefix[-1] + x)  # same left-to-right order is not what the tree does; tolerance below
    delta = 8 * ulp(total)

    def ref_idx(u):
        """set of admissible answers for query u"""
        ok = set()
        for i in range(h.size):
            lo, hi = prefix[i], prefix[i + 1]
            if lo - delta <= u < hi + delta:
                ok.add(i)
        return ok

    queries = [0.0]
    for i in range(h.size + 1):
        for d in (-3 * delta, 0.0, 3 * delta):
            u = prefix[i] + d
            if 0.0 <= u < total - delta:
                queries.append(u)
    queries += [total * k / 32.0 for k in range(32)]
    last = -1
    for u in sorted(queries):
        try:
            got = st.retrieve(u)
        except AssertionError as e:
            p.viol(f"{kp}/retrieve/assert", f"retrieve({u}) asserted {e}", rp)
            return False
        adm = ref_idx(u)
        if got not in adm:
            cls = "index-not-stored" if got >= h.size else "wrong-index"
            p.viol(f"{kp}/retrieve/{cls}", f"retrieve({u!r}) = {got}, admissible {sorted(adm)} (size {h.size}, leaves {leaves[:h.size]})", rp,
                   observed=got, expected=sorted(adm))
            return False
        if got < last:
            p.viol(f"{kp}/retrieve/non-monotone", f"retrieve not monotone at {u}", rp)
            return False
        last = got
        p.evaluations += 1
    # ---- sample() for every batch size and scripted stratified draw
    Ptot = math.fsum(leaves[: h.size])
    sp = getattr(b, "_sample_proportional", None)
    for bs in range(1, min(h.size, 3) + 1):
        seg = total / bs
        for beta in betas:
            full = list(itertools.product(RS, repeat=bs))
            short = [tuple([RS[2]] * bs), tuple([RS[3]] * bs), tuple([RS[0]] * bs)]
            if beta == betas[0]:
                # all scripted draws: through the index sampler alone when it exists (cheap), and the
                # three diagonal scripts through the public sample(); without that seam everything goes through sample()
                scripts = [(sc, sp is not None and sc not in short) for sc in full]
            else:
                scripts = [(sc, False) for sc in short[:2]]
            for script, index_only in scripts:
                used = []
                calls = []

                def fake_rand(*size, **k):
                    # serves any call pattern (one variate per stratum, or one vectorised call); answers come from the
                    # script in order, the last answer repeats if the implementation asks for more
                    if len(size) == 1 and isinstance(size[0], (tuple, list, torch.Size)):
                        size = tuple(size[0])
                    n = int(np.prod(size)) if size else 1
                    vals = []
                    for _ in range(n):
                        r = script[min(len(used), len(script) - 1)]
                        used.append(r)
                        vals.append(np.float32(r))
                    calls.append(n)
                    return torch.tensor(vals, dtype=k.get("dtype") or torch.float32).reshape(size if size else (1,))

                with patched(torch, "rand", fake_rand):
                    try:
                        if index_only:
                            ii = sp(bs)
                            out = None
                        else:
                            out = b.sample(bs, beta)
                    except Exception as e:
                        p.viol(f"{kp}/sample/exception/{type(e).__name__}", f"sample({bs},{beta}) with draws {script}: {e!r}", rp)
                        return False
                p.evaluations += 1
                idxs = (ii if out is None else out["idxs"]).reshape(-1).tolist()
                w = [] if out is None else out["weights"].reshape(-1).to(torch.float64).tolist()
                if len(idxs) != bs:
                    p.viol(f"{kp}/sample/batch-size", f"sample({bs}) -> {len(idxs)} indices", rp)
                    return False
                # the precise oracle applies when the draws were consumed one per stratum in stratum order (this is how the
                # variates are documented to be used); any other consumption pattern is judged by the draw-independent
                # stratification oracle: the k-th index must carry mass inside the k-th stratum
                per_stratum = calls == [1] * bs
                if not per_stratum:
                    p.extra["samples_judged_by_stratum_membership_only"] += 1
                for k, (ix, r) in enumerate(zip(idxs, script)):
                    a_, b_ = seg * k, seg * (k + 1)
                    if per_stratum:
                        u = float(np.float32(r)) * (b_ - a_) + a_
                        adm = ref_idx(u)
                    else:
                        adm = {i for i in range(h.size) if prefix[i] - delta < b_ and prefix[i + 1] + delta > a_}
                    if ix not in adm:
                        cls = "index-not-stored" if not (0 <= ix < h.size) else "wrong-index"
                        p.viol(f"{kp}/sample/{cls}", f"sample({bs}) stratum {k} draw {r}: idx {ix}, admissible {sorted(adm)}; leaves {leaves[:h.size]}", rp,
                               observed=ix, expected=sorted(adm))
                        return False
                    if out is None:
                        continue
                    # stored row content at that index must be what the ring buffer holds there
                    s, prob = decode_row(out[k], "vector")
                    s2, prob2 = decode_row(b.storage[ix], "vector")
                    if prob or prob2 or s != s2:
                        p.viol(f"{kp}/sample/row-not-of-index", f"sampled row {k} decodes to {s}/{prob}, storage[{ix}] to {s2}/{prob2}", rp)
                        return False
                if out is None:
                    continue
                # weights
                N = h.size
                ref_w = []
                wmax = max((N * (leaves[j] / Ptot)) ** (-beta) for j in range(N))
                for ix in idxs:
                    ref_w.append(((N * (leaves[ix] / Ptot)) ** (-beta)) / wmax)
                for k, (g, e) in enumerate(zip(w, ref_w)):
                    if not (0.0 < g <= 1.0 + 1e-6) or abs(g - e) > 2e-6 * max(e, 1e-30) + 1e-37:
                        p.viol(f"{kp}/weights", f"sample({bs},beta={beta}) idx {idxs[k]}: weight {g} expected {e}; leaves {leaves[:N]}", rp,
                               observed=g, expected=e)
                        return False
    return True


def make_apply(p: Partial, cfg, betas, seen_states, replay=False):
    def apply(h: H, op, path):
        p.evaluations += 1
        rp = {**cfg, "path": path}
        b = h.buf
        if op["op"] == "add":
            w = op["w"]
            serials = list(range(h.total, h.total + w))
            try:
                b.add(make_td(serials, "vector"))
            except Exception as e:
                p.viol(f"PER/add/exception/{type(e).__name__}", f"add({w}) raised {e!r}", rp)
                return None
            for s in serials:
                h.prio[h.cursor] = h.maxp
                if h.cursor + 1 == h.cap:
                    h.wrapped = True
                h.cursor = (h.cursor + 1) % h.cap
                h.size = min(h.size + 1, h.cap)
            h.total += w
            # the rows that received the fresh priority are the rows that received the new data
            for k, s in enumerate(serials[-h.cap:]):
                slot = (h.cursor - len(serials[-h.cap:]) + k) % h.cap
                got, prob = decode_row(b.storage[slot], "vector")
                if prob or got != s:
                    p.viol("PER/add/data-priority-slot-mismatch", f"slot {slot} expected transition {s} got {got} {prob}", rp)
                    return None
        else:
            idx = op["idx"]
            ps = [h.pm[i] for i in op["p"]] if "p" in op else [h.pmp[i] for i in op["pp"]]
            parr = np.array(ps, dtype=np.float32)
            try:
                b.update_priorities(torch.tensor(idx, dtype=torch.int64).unsqueeze(1), parr)
            except Exception as e:
                p.viol(f"PER/update/exception/{type(e).__name__}", f"update_priorities({idx},{ps}) raised {e!r}", rp)
                return None
            for i, pv in zip(idx, parr):
                pr = max(float(pv), 1e-5)
                h.prio[i] = pr
                h.maxp = max(h.maxp, pr)
        if len(b) != h.size:
            p.viol("PER/len", f"len {len(b)} expected {h.size}", rp)
            return None
        k = canon(h)
        if k not in seen_states:
            seen_states.add(k)
            if not state_oracle(h, p, rp, betas) and not replay:
                # (a replay walks through states the search had already judged elsewhere: keep going to the recorded one)
                return None
            lv = [x for x in h.prio[: h.size]]
            if (h.cap & (h.cap - 1)) and h.wrapped:
                p.nt(["npot-wrap", cfg["cap"], cfg["alpha"], sorted(lv)])
            if lv and max(lv) / min(lv) >= 1e6:
                p.nt(["mixed", cfg["cap"], cfg["alpha"], sorted(lv)])
            p.out([cfg["cap"], sorted(lv)])
        p.dg(k)
        return h

    return apply


def run_task(task):
    p = Partial()
    cfg = {k: task[k] for k in ("cap", "alpha", "betas", "depth", "init", "reduced")}
    h0 = H(task["cap"], task["alpha"], task["reduced"])
    seen = set()
    apply = make_apply(p, cfg, task["betas"], seen, replay=task.get("path") is not None)
    pre = {"empty": [], "full": [{"op": "add", "w": task["cap"]}], "wrapped": [{"op": "add", "w": task["cap"]}, {"op": "add", "w": 1}]}[task["init"]]
    for i, op in enumerate(pre):  # the initial state is reached through the real code too (and judged)
        h0 = apply(h0, op, [])
        if h0 is None:
            return p
    deepest = explore(h0, ops, apply, canon, p, max_depth=task["depth"], path_only=task.get("path"), max_states=400000)
    p.sample({"config": cfg, "deepest_bfs_path": task.get("path") or deepest})
    return p
