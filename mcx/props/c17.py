"""C17 — advantage estimation follows its definition, respects episode boundaries, and every
estimate / old log-prob / old value is applied to the observation and action it was computed for.

E3 lattice on the REAL `PPO.learn` and `IPPO.learn -> IPPO._learn_individual`:

  shapes   rollout length T, environments E (0 = unvectorised, else a vector env of E), for IPPO the
           agent set (1..3 homogeneous agents sharing one policy, two heterogeneous 2-group sets);
  history  ALL done matrices {0,1}^(T x E) (row 0 = the flag stored with the first step) x ALL final
           next_done vectors {0,1}^E;  IPPO agent k gets the matrix XOR a fixed mask_k (a bijection, so
           every agent sees every matrix and agents differ from each other);
  params   gamma, lambda from a 4-value alphabet each.

The rollout is identity-coded: observation, action, old log-prob and old value each encode their
(agent, t, env); rewards are 2^(t*E+e)*(1+agent/8); the critic is made a known function of its
input (stub: 3*obs[0]+0.25, keeps the autograd graph of the real net) or left as the real net
(reference bootstrap = value of that same net on the single next observation).

Internals are read with `mcx.trace.LocalsAtReturn` (no edit of /repo): just before the mini-batch
loop starts (line `num_samples = ...`) the locals `advantages`, `returns`, `next_value`, `values` and
the flattened `experiences` tuple (exactly the tensors the mini-batch loop indexes) are copied.

Oracles
  O1  estimates == closed-form reference  A_t = sum_k (gamma*lambda)^(k-t) delta_k over the steps of
      the same episode, delta_k = r_k + gamma V_{k+1}(1-d_{k+1}) - V_k, returns = A+V; bootstrap from
      critic(next_obs) (or the shared-encoder head value — weaker reading).
  O2  (differential) for every step b at which some (agent, env) column starts a new episode, a second
      execution with rewards/old values/next observation changed at steps >= b of those columns must
      leave every estimate before b in those columns, and every estimate of every other column,
      bit-identical.
  O3  in every flattened row, observation, action, old log-prob, old value, advantage and return
      belong to the same (agent, t, env).
A second, small family of tasks ("loop") drives the real `train_on_policy` with a scripted
environment (all termination scripts) and checks that what reaches `PPO.learn` is the emitted
history with done flags one step late, and O1 on it.
"""
from __future__ import annotations

import contextlib
import io
import os
import traceback

import numpy as np
import torch
from gymnasium import spaces

from agilerl.algorithms.ippo import IPPO
from agilerl.algorithms.ppo import PPO

from ..core import HarnessError, Partial
from ..rand import seeded
from ..trace import LocalsAtReturn

LEVEL = "exploration"
RULE = (
    "exhaustive product: algorithm config x rollout length T x envs E x ALL done matrices {0,1}^(T*E) x ALL next_done "
    "{0,1}^E x gamma x lambda, each point executed on the real PPO.learn / IPPO.learn with an identity-coded rollout and "
    "judged by O1 (closed-form GAE reference), O2 (one extra differential execution per episode-start step) and O3 (row "
    "decoding of the flattened mini-batch tensors); the network update itself is executed (batch_size >= rows) for the "
    "all-0 and all-1 done matrices and skipped via batch_size=1 otherwise (GAE/flatten code is independent of batch_size); "
    "'shape' tasks repeat all shapes with the real critic / Box actions / share_encoders on the all-0 and all-1 matrices; "
    "'loop' tasks run the real train_on_policy over all termination scripts of a scripted env. "
    "non-trivial = distinct (config,T,E,matrix,next_done) with an episode start right after the first step or at the final "
    "next_done, or with >=2 policy-sharing agents and T>=2; outcome = distinct (config,T,E,verdict); evaluation = one "
    "execution of learn()/train_on_policy judged by an oracle"
)
ASSUMPTIONS = [
    "experiences are shaped exactly as train_on_policy / train_multi_agent_on_policy build them (probed: per-step arrays (E,), IPPO log-probs/values (E,1), unvectorised IPPO (1,)); for the unvectorised PPO rollout the done flags are consistent 0-d scalars",
    "dones[t] is the flag recorded WITH step t, i.e. the done produced by step t-1 (d_t of the statement); next_done is d_T; dones[0] must not influence anything",
    "comparison with the float64 reference uses atol = 1e-6*(T+1)*max|input| (float32 storage); O2 is bit-exact",
    "the element->(agent,t,env) map of the estimate vectors used by O2 is read from the identity-coded old values, which the statement ties to the estimates (returns = A_t + V_t)",
    "stub critic: instance attribute critic.forward = real_forward*0 + 3*obs[...,0]+0.25 on agents created by the harness; nothing in /repo is modified",
    "lr = 1e-9 and update_epochs = 1; with the real critic the reference bootstrap is computed from the same weights immediately before learn()",
]

GL = [0.0, 0.5, 0.95, 1.0]
FN = {"PPO": "PPO.learn", "IPPO": "IPPO._learn_individual"}
MARK = r"^\s*num_samples\s*="
NAMES = ["advantages", "returns", "next_value", "values", "experiences"]
FIELDS = ["states", "actions", "log_probs", "advantages", "returns", "values"]
AGENT_SETS = {
    "h1": ["agent_0"],
    "h2": ["agent_0", "agent_1"],
    "h3": ["agent_0", "agent_1", "agent_2"],
    "h2r": ["agent_1", "agent_0"],          # declared order differs from the sorted order of the ids (seeded change C17-m3)
    "g11": ["speaker_0", "listener_0"],
    "g21": ["speaker_0", "listener_0", "speaker_1"],
}
MASK = [0, 0b101010101010, 0b011011011011, 0b110001110001]
NMASK = [0, 0b101, 0b011, 0b110]
ORDERS = [("agent", "t", "env"), ("t", "agent", "env"), ("agent", "env", "t"), ("env", "agent", "t"), ("t", "env", "agent"), ("env", "t", "agent")]
NET = {"encoder_config": {"hidden_size": [4]}, "head_config": {"hidden_size": [4]}}
BIG_BATCH = 64


# ------------------------------------------------------------------------------------------
# bounds / tasks

def bounds(tier):
    q = tier == "quick"
    return {
        "T": [1, 2, 3] if q else [1, 2, 3, 4],
        "E": ["unvectorised", 1, 2, 3],
        "T*E_max": 6 if q else 9,
        "done_matrices": "all 2^(T*E) (incl. row 0) x all next_done 2^E; IPPO agent k: matrix XOR fixed mask_k",
        "gamma": [0.0, 0.95, 1.0] if q else GL, "lambda": [0.0, 0.5, 1.0] if q else GL,
        "PPO_lattice_config": "stub critic, Discrete actions, share_encoders default (True)",
        "IPPO_lattice_configs": {k: v for k, v in AGENT_SETS.items()},
        "IPPO_lattice_config": "stub critics; Discrete actions + Box(4) obs for agent/speaker, Box(2) actions + Box(5) obs for listener",
        "shape_tasks": "PPO {real critic x share_encoders T/F x Discrete/Box(2), stub x Box(2)}, IPPO {real critic x Discrete/Box(2)} on done matrix in {all-0, all-1} x all next_done x gamma x lambda",
        "O2": "one differential execution per step b in 1..T at which >=1 column starts an episode",
        "loop_tasks": {"PPO": "train_on_policy, 2 consecutive rollouts, E in {unvectorised,1,2}, T <= 4, T*E <= " + ("4" if q else "6") + ", all termination/truncation scripts 2^(2*T*E), gamma=0.95, lambda=0.9"},
    }


def _shapes(tier):
    b = bounds(tier)
    out = []
    for T in b["T"]:
        for E in (0, 1, 2, 3):
            if T * max(E, 1) <= b["T*E_max"]:
                out.append((T, E))
    return out


def tasks(tier, seed):
    out = []
    b = bounds(tier)
    gl = {"g": b["gamma"], "l": b["lambda"]}
    ngl = len(gl["g"]) * len(gl["l"])
    chunk_budget = 2400 if tier == "quick" else 12000
    lattice_cfgs = [{"algo": "PPO", "critic": "stub", "share": True, "act": "disc"}] + [
        {"algo": "IPPO", "agents": k, "critic": "stub", "act": "disc"} for k in AGENT_SETS
    ]
    for cfg in lattice_cfgs:
        w = 1 if cfg["algo"] == "PPO" else 1 + len(AGENT_SETS[cfg["agents"]])
        for T, E in _shapes(tier):
            Ec = max(E, 1)
            nm = 2 ** (T * Ec)
            per_m = (2 ** Ec) * ngl * w
            step = max(1, min(nm, chunk_budget // per_m))
            for lo in range(0, nm, step):
                hi = min(nm, lo + step)
                out.append({"kind": "lattice", "cfg": cfg, "T": T, "E": E, "m": [lo, hi], "gl": gl, "seed": seed, "_cost": (hi - lo) * per_m * (1 + T)})
    shape_cfgs = [
        {"algo": "PPO", "critic": "real", "share": True, "act": "disc"},
        {"algo": "PPO", "critic": "real", "share": False, "act": "disc"},
        {"algo": "PPO", "critic": "real", "share": True, "act": "box2"},
        {"algo": "PPO", "critic": "real", "share": False, "act": "box2"},
        {"algo": "PPO", "critic": "stub", "share": True, "act": "box2"},
    ]
    for k in AGENT_SETS:
        shape_cfgs.append({"algo": "IPPO", "agents": k, "critic": "real", "act": "disc"})
        shape_cfgs.append({"algo": "IPPO", "agents": k, "critic": "real", "act": "box2"})
    for cfg in shape_cfgs:
        w = 1 if cfg["algo"] == "PPO" else 1 + len(AGENT_SETS[cfg["agents"]])
        out.append({"kind": "shape", "cfg": cfg, "shapes": _shapes(tier), "gl": gl, "seed": seed,
                    "_cost": sum(2 * 2 ** max(E, 1) * ngl * w * (3 + T) for T, E in _shapes(tier))})
    lim = 4 if tier == "quick" else 6
    for E in (0, 1, 2):
        for T in (1, 2, 3, 4):
            Ec = max(E, 1)
            if T * Ec > lim:
                continue
            n = 2 ** (2 * T * Ec)
            step = 32 if tier == "quick" else 128
            for lo in range(0, n, step):
                out.append({"kind": "loop", "algo": "PPO", "T": T, "E": E, "s": [lo, min(n, lo + step)], "seed": seed, "_cost": min(n - lo, step) * 150})
    return out


# ------------------------------------------------------------------------------------------
# identity coding

def code(a, t, e):
    return 1 + e + 4 * t + 32 * a


def uncode(c):
    c = int(c) - 1
    return (c // 32, (c % 32) // 4, c % 4)


def _val(c):
    return 3.0 * c + 0.25


class Group:
    def __init__(self, name, agents, ids, dim, act):
        self.name, self.agents, self.ids, self.dim, self.act = name, agents, ids, dim, act


class Ctx:
    """One (config, T, E): real agent + static identity-coded rollout."""

    def __init__(self, cfg, T, E):
        self.cfg, self.T, self.E = cfg, T, E
        self.Ec = Ec = max(E, 1)
        self.algo = cfg["algo"]
        self.fn = FN[self.algo]
        other = {"disc": "box2", "box2": "disc"}
        if self.algo == "PPO":
            self.ids = ["ppo"]
            self.groups = [Group("ppo", [0], ["ppo"], 4, cfg["act"])]
        else:
            self.ids = AGENT_SETS[cfg["agents"]]
            gs = {}
            for a, i in enumerate(self.ids):
                pre = i.rsplit("_", 1)[0]
                if pre not in gs:
                    lis = pre == "listener"
                    gs[pre] = Group(pre, [], [], 5 if lis else 4, other[cfg["act"]] if lis else cfg["act"])
                gs[pre].agents.append(a)
                gs[pre].ids.append(i)
            self.groups = list(gs.values())
        self.gof = {a: g for g in self.groups for a in g.agents}
        self.n = len(self.ids)
        self.codes = np.array([[[code(a, t, e) for e in range(Ec)] for t in range(T + 1)] for a in range(self.n)], dtype=np.float64)
        self.R = np.array([[[2.0 ** (t * Ec + e) * (1 + a / 8.0) for e in range(Ec)] for t in range(T)] for a in range(self.n)])
        self.V = _val(self.codes[:, :T])
        self.full_m = 2 ** (T * Ec) - 1
        self.full_nd = 2 ** Ec - 1
        self.agent = self._make_agent()
        self.agent.set_training_mode(True)
        self._static()

    # -- real agent ------------------------------------------------------------------------
    def _space(self, g):
        o = spaces.Box(-1e4, 1e4, (g.dim,), np.float32)
        a = spaces.Discrete(160) if g.act == "disc" else spaces.Box(-2.0, 2.0, (2,), np.float32)
        return o, a

    def _make_agent(self):
        cfg = self.cfg
        if self.algo == "PPO":
            o, a = self._space(self.groups[0])
            ag = PPO(o, a, net_config=NET, batch_size=BIG_BATCH, lr=1e-9, update_epochs=1, share_encoders=cfg["share"])
            crits = [ag.critic]
        else:
            sp = [self._space(self.gof[a]) for a in range(self.n)]
            ag = IPPO([s[0] for s in sp], [s[1] for s in sp], list(self.ids), net_config=NET, batch_size=BIG_BATCH, lr=1e-9, update_epochs=1)
            if ag.shared_agent_ids != [g.name for g in self.groups]:
                raise HarnessError(f"IPPO grouping {ag.shared_agent_ids} differs from harness grouping {[g.name for g in self.groups]}")
            crits = list(ag.critics)
        self.critics = crits
        if cfg["critic"] == "stub":
            for c in crits:
                orig = c.forward

                def stub(obs, *a, _orig=orig, **k):
                    y = _orig(obs, *a, **k)
                    return y * 0.0 + (3.0 * obs[..., 0:1].to(y.dtype) + 0.25).reshape(y.shape)

                c.forward = stub
        return ag

    # -- static parts of the rollout -------------------------------------------------------
    def obs_of(self, a, c):
        g = self.gof[a]
        _, t, e = uncode(c)
        v = [float(c), float(a), float(t), float(e)] + [7.0] * (g.dim - 4)
        return np.array(v, dtype=np.float32)

    def _static(self):
        T, Ec = self.T, self.Ec
        self.S, self.A, self.L = [], [], []
        for a in range(self.n):
            g = self.gof[a]
            S = np.stack([np.stack([self.obs_of(a, self.codes[a, t, e]) for e in range(Ec)]) for t in range(T)])
            c = self.codes[a, :T]
            if g.act == "disc":
                A = c.astype(np.int64)[..., None]
            else:
                A = np.stack([c / 128.0, -c / 128.0], axis=-1).astype(np.float32)
            self.S.append(S)
            self.A.append(A)
            self.L.append((-c / 256.0).astype(np.float32))

    def next_obs(self, a, shift):
        out = []
        for e in range(self.Ec):
            o = self.obs_of(a, self.codes[a, self.T, e])
            o[0] += shift[e]
            out.append(o)
        return np.stack(out)

    # -- experiences in the training loops' formats ------------------------------------------
    def experiences(self, R, V, NX, D, ND):
        """R,V,D: (n,T,Ec); NX: list of (Ec,dim); ND: (n,Ec)"""
        T, E = self.T, self.E
        if self.algo == "PPO":
            S, A, L = self.S[0], self.A[0], self.L[0]
            disc = self.groups[0].act == "disc"
            if E == 0:
                return (
                    [S[t, 0] for t in range(T)],
                    [(A[t, 0, 0] if disc else A[t, 0]) for t in range(T)],
                    [L[t, 0] for t in range(T)],
                    [float(R[0, t, 0]) for t in range(T)],
                    [np.float64(D[0, 0, 0])] + [np.int8(D[0, t, 0]) for t in range(1, T)],
                    [np.float32(V[0, t, 0]) for t in range(T)],
                    NX[0][0].copy(),
                    np.int8(ND[0, 0]),
                )
            return (
                [S[t].copy() for t in range(T)],
                [(A[t, :, 0].copy() if disc else A[t].copy()) for t in range(T)],
                [L[t].copy() for t in range(T)],
                [R[0, t].astype(np.float64) for t in range(T)],
                [D[0, 0].astype(np.float64)] + [D[0, t].astype(np.int8) for t in range(1, T)],
                [V[0, t].astype(np.float32) for t in range(T)],
                NX[0].copy(),
                ND[0].astype(np.int8),
            )
        st, ac, lp, rw, dn, vl, nx, nd = ({} for _ in range(8))
        for a, i in enumerate(self.ids):
            S, A, L = self.S[a], self.A[a], self.L[a]
            if E == 0:
                st[i] = [S[t, 0] for t in range(T)]
                ac[i] = [A[t, 0].copy() for t in range(T)]
                lp[i] = [L[t, 0:1].copy() for t in range(T)]
                rw[i] = [float(R[a, t, 0]) for t in range(T)]
                dn[i] = [D[a, 0].astype(np.float64)] + [D[a, t].astype(np.int8) for t in range(1, T)]
                vl[i] = [V[a, t, 0:1].astype(np.float32) for t in range(T)]
                nx[i] = NX[a][0].copy()
                nd[i] = ND[a].astype(np.int8)
            else:
                st[i] = [S[t].copy() for t in range(T)]
                ac[i] = [A[t].copy() for t in range(T)]
                lp[i] = [L[t][:, None].copy() for t in range(T)]
                rw[i] = [R[a, t].astype(np.float64) for t in range(T)]
                dn[i] = [D[a, 0].astype(np.float64)] + [D[a, t].astype(np.int8) for t in range(1, T)]
                vl[i] = [V[a, t][:, None].astype(np.float32) for t in range(T)]
                nx[i] = NX[a].copy()
                nd[i] = ND[a].astype(np.int8)
        return (st, ac, lp, rw, dn, vl, nx, nd)

    def dones_of(self, m, nd):
        T, Ec = self.T, self.Ec
        D = np.zeros((self.n, T, Ec), dtype=np.int64)
        ND = np.zeros((self.n, Ec), dtype=np.int64)
        for a in range(self.n):
            ma = m ^ (MASK[a] & self.full_m)
            na = nd ^ (NMASK[a] & self.full_nd)
            for t in range(T):
                for e in range(Ec):
                    D[a, t, e] = (ma >> (t * Ec + e)) & 1
            for e in range(Ec):
                ND[a, e] = (na >> e) & 1
        return D, ND

    # -- bootstrap references ----------------------------------------------------------------
    def bootstraps(self, NX):
        """list of (name, (n,Ec) array): admissible values of the final next observation"""
        if self.cfg["critic"] == "stub":
            return [("stub", np.array([[_val(float(NX[a][e][0])) for e in range(self.Ec)] for a in range(self.n)]))]
        outs = {"critic": np.zeros((self.n, self.Ec))}
        share = self.algo == "PPO" and self.cfg.get("share")
        if share:
            outs["shared-encoder-head"] = np.zeros((self.n, self.Ec))
        with torch.no_grad():
            for a in range(self.n):
                crit = self.critics[self.groups.index(self.gof[a])]
                for e in range(self.Ec):
                    x = torch.from_numpy(NX[a][e : e + 1])
                    outs["critic"][a, e] = float(crit(x).reshape(-1)[0])
                    if share:
                        outs["shared-encoder-head"][a, e] = float(crit.forward_head(self.agent.actor.extract_features(x)).reshape(-1)[0])
        return list(outs.items())


def reference(R, V, Dn, Vb, g, l):
    """closed form, float64. R,V,Dn: (n,T,Ec) with Dn[t] = d_{t+1}; Vb: (n,Ec)."""
    T = R.shape[1]
    Vn = np.concatenate([V[:, 1:], Vb[:, None]], axis=1)
    delta = R + g * Vn * (1 - Dn) - V
    A = np.zeros_like(R)
    for t in range(T):
        w = np.ones_like(Vb)
        acc = delta[:, t].copy()
        for k in range(t + 1, T):
            w = w * (g * l) * (1 - Dn[:, k - 1])
            acc = acc + w * delta[:, k]
        A[:, t] = acc
    return A, A + V


# ------------------------------------------------------------------------------------------
# executing and judging

def _where(exc):
    tb = traceback.extract_tb(exc.__traceback__)
    w = "?"
    for fr in tb:
        if "/agilerl/" in fr.filename:
            w = os.path.basename(fr.filename)[:-3] + "." + fr.name
    return w


def _order_name(seq):
    for o in ORDERS:
        idx = {"agent": 0, "t": 1, "env": 2}
        if seq == sorted(seq, key=lambda c: tuple(c[idx[x]] for x in o)):
            return ",".join(o)
    return "other"


def _order_desc(seq):
    if any(x is None for x in seq):
        return "undecodable"
    if any(isinstance(x, str) for x in seq):
        return "matches-no-field"
    return _order_name(seq)


class Runner:
    def __init__(self, ctx: Ctx, p: Partial, tracer, task_base):
        self.c, self.p, self.tr, self.base = ctx, p, tracer, task_base

    def execute(self, exps, full):
        """one real learn(); returns (snapshots or None, exception or None)"""
        ag = self.c.agent
        ag.batch_size = BIG_BATCH if full else 1
        self.tr.take()
        exc = None
        try:
            ag.learn(exps)
        except HarnessError:
            raise
        except Exception as e:  # raised by AgileRL on a legal input
            exc = e
        snaps = self.tr.take()
        self.p.evaluations += 1
        return snaps, exc

    def rows(self, snap, g):
        """normalise the six flattened tensors of one group to (N,k) float64 arrays; None + reason if malformed"""
        loc = snap["locals"]
        exp = loc["experiences"]
        if not isinstance(exp, (tuple, list)) or len(exp) != 6:
            raise HarnessError(f"{self.c.fn}: local 'experiences' is not the 6-tuple of flattened tensors")
        N = len(g.agents) * self.c.T * self.c.Ec
        widths = [g.dim, None, 1, 1, 1, 1]
        out = []
        for name, x, w in zip(FIELDS, exp, widths):
            if not isinstance(x, torch.Tensor):
                raise HarnessError(f"{self.c.fn}: flattened {name} is {type(x).__name__}, expected a tensor for Box observations")
            n = x.numel()
            if w is None:
                w = 1 if g.act == "disc" else 2
            if n != N * w:
                return None, f"{name} has {n} elements, expected {N} rows x {w}"
            if N > 1 and x.shape[0] != N:
                return None, f"{name} has leading dimension {tuple(x.shape)}, expected {N} rows"
            out.append(x.to(torch.float64).reshape(N, w).numpy())
        return out, None

    def judge(self, pt, snaps, exc, refs, D, ND):
        """O1 + O3 on the base execution. Returns verdict string and the per-group element->cell maps for O2."""
        c, p = self.c, self.p
        rp = {**self.base, "point": pt}
        if exc is not None:
            key = f"{c.algo}/learn/exception/{type(exc).__name__}@{_where(exc)}/{'T=1' if c.T == 1 else 'T>1'}"
            p.viol(key, f"{c.fn}: learn() raised {exc!r} on T={c.T} E={c.E or 'unvectorised'} agents={c.ids}", rp)
            return key, None
        if len(snaps) != len(c.groups):
            raise HarnessError(f"{c.fn}: {len(snaps)} activations captured, expected {len(c.groups)}")
        verdict = "ok"
        maps = []
        tol = 1e-6 * (c.T + 1) * max(np.abs(c.R).max(), np.abs(c.V).max(), max(np.abs(v).max() for _, v in refs["boot"]))
        for g, snap in zip(c.groups, snaps):
            rows, why = self.rows(snap, g)
            if rows is None:
                key = f"{c.algo}/{c.fn.split('.')[-1]}/rows/malformed"
                p.viol(key, f"{c.fn} group {g.name}: {why}", rp)
                verdict = key
                maps.append(None)
                continue
            st, ac, lp, adv, ret, val = rows
            exp_codes = sorted(int(c.codes[a, t, e]) for a in g.agents for t in range(c.T) for e in range(c.Ec))
            co = st[:, 0]
            ok_obs = sorted(co.tolist()) == [float(x) for x in exp_codes]
            if ok_obs:
                for i, cc in enumerate(co):
                    a, t, e = uncode(cc)
                    if st[i, 1] != a or st[i, 2] != t or st[i, 3] != e:
                        ok_obs = False
            if not ok_obs:
                key = f"{c.algo}/{c.fn.split('.')[-1]}/rows/observations-are-not-the-rollout"
                p.viol(key, f"{c.fn} group {g.name}: flattened observations decode to codes {co.tolist()}, expected a permutation of {exp_codes}", rp)
                verdict = key
                maps.append(None)
                continue
            ca = ac[:, 0] if g.act == "disc" else ac[:, 0] * 128.0
            cl = -lp[:, 0] * 256.0
            cv = (val[:, 0] - 0.25) / 3.0
            vmap = cv if sorted(cv.tolist()) == [float(x) for x in exp_codes] else None
            maps.append(vmap)
            static_ok = np.array_equal(ca, co) and np.array_equal(cl, co) and np.array_equal(cv, co)
            if g.act == "box2" and not np.array_equal(ac[:, 1], -ac[:, 0]):
                static_ok = False
            idx = co.astype(int)
            passed = False
            if static_ok:
                for name, tabA, tabR in refs["tabs"]:
                    if np.all(np.abs(adv[:, 0] - tabA[idx]) <= tol) and np.all(np.abs(ret[:, 0] - tabR[idx]) <= tol):
                        passed = True
                        break
            if passed:
                continue
            # ---- slow path: classify
            kfn = c.fn.split(".")[-1]
            best = None
            for name, tabA, tabR in refs["tabs"]:
                ra = np.sort(tabA[exp_codes])
                rr = np.sort(tabR[exp_codes])
                da = np.abs(np.sort(adv[:, 0]) - ra)
                dr = np.abs(np.sort(ret[:, 0]) - rr)
                okA, okR = bool(np.all(da <= tol)), bool(np.all(dr <= tol))
                sc = (okA + okR, -float(da.max() + dr.max()))
                if best is None or sc > best[0]:
                    best = (sc, name, tabA, tabR, okA, okR)
            _, bname, tabA, tabR, okA, okR = best
            if not (okA and okR):
                # O1: the estimates are not the GAE of this rollout, whatever their position
                vm = vmap if vmap is not None else co
                bad = None
                for i in range(len(vm)):
                    cc = int(vm[i])
                    if 0 < cc < len(tabA) and (abs(adv[i, 0] - tabA[cc]) > tol or abs(ret[i, 0] - tabR[cc]) > tol):
                        bad = (uncode(cc), float(adv[i, 0]), float(tabA[cc]), float(ret[i, 0]), float(tabR[cc]))
                        break
                which = "advantages" if not okA else "returns"
                key = f"{c.algo}/{kfn}/gae/{which}-differ-from-recursion"
                for hname, htabs in refs["hyp"]():
                    if any(np.all(np.abs(np.sort(adv[:, 0]) - np.sort(hA[exp_codes])) <= tol) and np.all(np.abs(np.sort(ret[:, 0]) - np.sort(hR[exp_codes])) <= tol)
                           for _, hA, hR in htabs):
                        key += "/" + hname
                        break
                p.viol(key, f"{c.fn} group {g.name}: {which} are not the generalised advantage estimates of the rollout "
                            f"(T={c.T}, E={c.E or 'unvectorised'}, agents={g.ids}, gamma={pt['g']}, lambda={pt['l']}, dones={D[g.agents].tolist()}, next_done={ND[g.agents].tolist()}); "
                            f"first differing element (located by its old value) (agent,t,env)={bad[0] if bad else '?'}: advantage {bad[1] if bad else '?'} expected {bad[2] if bad else '?'}, "
                            f"return {bad[3] if bad else '?'} expected {bad[4] if bad else '?'} [bootstrap reading: {bname}]", rp,
                       observed={"advantages": adv[:, 0].tolist(), "returns": ret[:, 0].tolist()},
                       expected={"advantages(sorted)": np.sort(tabA[exp_codes]).tolist()})
                verdict = key
                continue
            # O3: right numbers, wrong rows
            seqs = {"states": [uncode(x) for x in co]}
            seqs["actions"] = [uncode(x) if float(x).is_integer() and 0 < x <= 128 else None for x in ca]
            seqs["log_probs"] = [uncode(x) if float(x).is_integer() and 0 < x <= 128 else None for x in cl]
            seqs["values"] = [uncode(x) if float(x).is_integer() and 0 < x <= 128 else None for x in cv]
            for fname, col, tab in (("advantages", adv[:, 0], tabA), ("returns", ret[:, 0], tabR)):
                # an estimate vector 'follows' the first identity-coded field whose cell sequence explains all its elements
                seqs[fname] = [f"unmatched-{fname}"] * len(col)
                for f in ("states", "values", "log_probs", "actions"):
                    sq = seqs[f]
                    if None not in sq and all(abs(col[i] - tab[code(*sq[i])]) <= tol for i in range(len(col))):
                        seqs[fname] = sq
                        break
            parts = []
            for f in FIELDS:
                for pr in parts:
                    if seqs[pr[0]] == seqs[f]:
                        pr.append(f)
                        break
                else:
                    parts.append([f])
            desc = "|".join(",".join(pr) + ":(" + _order_desc(seqs[pr[0]]) + ")" for pr in parts)
            key = f"{c.algo}/{kfn}/rows-misaligned/{desc}"
            i = next(i for i in range(len(co)) if any(seqs[f][i] != seqs["states"][i] for f in FIELDS))
            p.viol(key, f"{c.fn} group {g.name} (agents {g.ids}, T={c.T}, E={c.E or 'unvectorised'}): flattened row {i} pairs "
                        + ", ".join(f"{f} of (agent,t,env)={seqs[f][i]}" for f in FIELDS)
                        + f"; field orders: {desc}", rp,
                   observed={f: seqs[f] for f in FIELDS})
            verdict = key
        return verdict, maps

    def est_vectors(self, snaps):
        out = []
        for s in snaps:
            ex = s["locals"]["experiences"]
            out.append((ex[3].reshape(-1).numpy().copy(), ex[4].reshape(-1).numpy().copy()))
        return out

    def run_point(self, m, nd, g, l, full, o2=True):
        st = {}
        verdict = self._point(m, nd, g, l, o2, st)
        if not full:
            return verdict
        c, p = self.c, self.p
        pt, refs, D, ND, NX = st["pt"], st["refs"], st["D"], st["ND"], st["NX"]
        # the same point once more with batch_size >= rows: the whole update runs on the flattened rows
        snaps_f, exc_f = self.execute(c.experiences(c.R, c.V, NX, D, ND), True)
        keep, self.p = self.p, Partial()
        try:
            verdict_f, _ = self.judge(pt, snaps_f, exc_f, refs, D, ND)
            extra = self.p
        finally:
            self.p = keep
        p.extra["executions_with_network_update"] += 1
        if verdict_f != "ok" and verdict_f != verdict:
            p.violations.extend(extra.violations)
            p.extra["violating_cases"] += extra.extra["violating_cases"]
            p.out(f"{self.tag}|update:{verdict_f}")
            if verdict == "ok":
                verdict = verdict_f
        return verdict

    def _point(self, m, nd, g, l, o2, st):
        c = self.c
        p = self.p
        pt = {"m": m, "nd": nd, "g": g, "l": l}
        c.agent.gamma, c.agent.gae_lambda = g, l
        D, ND = c.dones_of(m, nd)
        Dn = np.concatenate([D[:, 1:], ND[:, None]], axis=1)
        NX = [c.next_obs(a, [0.0] * c.Ec) for a in range(c.n)]
        boots = c.bootstraps(NX)
        def mk_tabs(dn):
            out = []
            for name, Vb in boots:
                A, Rt = reference(c.R, c.V, dn, Vb, g, l)
                tabA = np.full(130, np.nan)
                tabR = np.full(130, np.nan)
                tabA[c.codes[:, : c.T].astype(int).reshape(-1)] = A.reshape(-1)
                tabR[c.codes[:, : c.T].astype(int).reshape(-1)] = Rt.reshape(-1)
                out.append((name, tabA, tabR))
            return out

        tabs = mk_tabs(Dn)

        def hyp():
            """named wrong readings of the done flags, only used to give an O1 violation a precise key"""
            out = []
            ndt = ND.copy()
            for gr in c.groups:
                if len(gr.agents) >= 2 and c.Ec >= 2:
                    ndt[gr.agents] = ND[gr.agents].T.reshape(len(gr.agents), c.Ec)
            if not np.array_equal(ndt, ND):
                out.append(("next_done-read-in-(env,agent)-order-for-(agent,env)-columns", np.concatenate([D[:, 1:], ndt[:, None]], axis=1)))
            out.append(("done-flag-of-the-same-step-used", np.concatenate([D[:, : c.T - 1], ND[:, None]], axis=1)))
            out.append(("done-flags-ignored", np.zeros_like(Dn)))
            out.append(("next_done-ignored", np.concatenate([D[:, 1:], np.zeros_like(ND)[:, None]], axis=1)))
            return [(name, mk_tabs(dn)) for name, dn in out]

        refs = {"boot": boots, "tabs": tabs, "hyp": hyp}
        # base execution with batch_size=1: learn() computes and flattens everything but skips the update, so
        # the weights (real critic!) are the same for the differential executions that follow
        snaps, exc = self.execute(c.experiences(c.R, c.V, NX, D, ND), False)
        verdict, maps = self.judge(pt, snaps, exc, refs, D, ND)
        st.update(pt=pt, refs=refs, D=D, ND=ND, NX=NX)
        first = bool(Dn[:, 0].any())
        last = bool(ND.any())
        multi = any(len(gr.agents) >= 2 for gr in c.groups) and c.T >= 2
        if first or last or multi:
            p.nt(f"{self.tag}|{m}|{nd}")
        p.out(f"{self.tag}|{verdict}")
        if exc is None:
            for s in snaps:
                ex = s["locals"]["experiences"]
                p.digest.update(ex[3].numpy().tobytes())
                p.digest.update(ex[4].numpy().tobytes())
            if len(p.samples) < p.MAX_SAMPLES and m == min(5, c.full_m) and g == 0.95 and l == 0.5:
                p.sample({"config": c.cfg, "T": c.T, "E": c.E or "unvectorised", "done_matrix_bits": m, "next_done_bits": nd, "gamma": g, "lambda": l,
                          "dones[agent][t][env]": D.tolist(), "advantages_flat_per_group": [s["locals"]["experiences"][3].reshape(-1).tolist() for s in snaps], "verdict": verdict})
        else:
            p.dg(verdict)
        if exc is not None or not o2 or maps is None or any(mp is None for mp in maps):
            return verdict
        # ---- O2: differential executions, one per step b at which some column starts a new episode
        base = self.est_vectors(snaps)
        for b in range(1, c.T + 1):
            hit = Dn[:, b - 1] == 1          # (n,Ec) columns with an episode start at b
            if not hit.any():
                continue
            R2, V2 = c.R.copy(), c.V.copy()
            for a in range(c.n):
                for e in range(c.Ec):
                    if hit[a, e]:
                        R2[a, b:, e] = -3.0 * R2[a, b:, e] + 12345.0
                        V2[a, b:, e] = -5.0 * V2[a, b:, e] - 4321.0
            NX2 = [c.next_obs(a, [1000.0 if hit[a, e] else 0.0 for e in range(c.Ec)]) for a in range(c.n)]
            snaps2, exc2 = self.execute(c.experiences(R2, V2, NX2, D, ND), False)
            if exc2 is not None or len(snaps2) != len(snaps):
                key = f"{c.algo}/learn/exception-on-perturbed-rollout/{type(exc2).__name__}"
                p.viol(key, f"{c.fn}: learn() raised {exc2!r} only after rewards/values after an episode start were changed", {**self.base, "point": pt})
                return key
            pert = self.est_vectors(snaps2)
            for gi, gr in enumerate(c.groups):
                vm = maps[gi]
                for i, cc in enumerate(vm):
                    a, t, e = uncode(cc)
                    if hit[a, e] and t >= b:
                        continue
                    if base[gi][0][i].tobytes() != pert[gi][0][i].tobytes() or base[gi][1][i].tobytes() != pert[gi][1][i].tobytes():
                        kind = "later-episode-of-same-column" if hit[a, e] else "other-column"
                        key = f"{c.algo}/{c.fn.split('.')[-1]}/gae/leak/{kind}"
                        p.viol(key, f"{c.fn}: estimate of (agent,t,env)=({a},{t},{e}) changed from ({base[gi][0][i]!r},{base[gi][1][i]!r}) to ({pert[gi][0][i]!r},{pert[gi][1][i]!r}) "
                                    f"when only rewards/values/next observation at steps >= {b} of columns {[(int(x), int(y)) for x, y in zip(*np.nonzero(hit))]} (which start a new episode at {b}) were changed; "
                                    f"T={c.T} E={c.E or 'unvectorised'} gamma={g} lambda={l} dones={D.tolist()} next_done={ND.tolist()}", {**self.base, "point": pt})
                        return key
            p.extra["o2_differential_runs"] += 1
        return verdict


def _cfg_tag(cfg):
    if cfg["algo"] == "PPO":
        return f"PPO:{cfg['critic']}:{'share' if cfg['share'] else 'noshare'}:{cfg['act']}"
    return f"IPPO:{cfg['agents']}:{cfg['critic']}:{cfg['act']}"


def _lattice(p, cfg, T, E, ms, tr, base, gl, point=None):
    ctx = Ctx(cfg, T, E)
    r = Runner(ctx, p, tr, base)
    r.tag = f"{_cfg_tag(cfg)}|T{T}|E{E}"
    if point is not None:
        r.run_point(point["m"], point["nd"], point["g"], point["l"], True)
        return
    for m in ms:
        full = m in (0, ctx.full_m)
        for nd in range(ctx.full_nd + 1):
            for g in gl["g"]:
                for l in gl["l"]:
                    r.run_point(m, nd, g, l, full)


def run_task(task):
    p = Partial()
    with seeded(1000 + int(task.get("seed", 0))):
        if task["kind"] == "loop":
            _loop(task, p)
            return p
        targets = {PPO.learn: NAMES, IPPO._learn_individual: NAMES}
        with LocalsAtReturn(targets, at_line=MARK) as tr:
            if task["kind"] == "lattice":
                base = {k: task[k] for k in ("kind", "cfg", "T", "E", "m", "gl", "seed")}
                _lattice(p, task["cfg"], task["T"], task["E"], range(task["m"][0], task["m"][1]), tr, base, task["gl"], task.get("point"))
            elif task["kind"] == "shape":
                base = {k: task[k] for k in ("kind", "cfg", "shapes", "gl", "seed")}
                pt = task.get("point")
                for T, E in task["shapes"]:
                    if pt is not None and (pt["T"], pt["E"]) != (T, E):
                        continue
                    b2 = dict(base)
                    _shape(p, task["cfg"], T, E, tr, b2, task["gl"], pt)
            else:
                raise HarnessError(f"unknown task kind {task['kind']}")
    return p


def _shape(p, cfg, T, E, tr, base, gl, point):
    ctx = Ctx(cfg, T, E)
    r = Runner(ctx, p, tr, base)
    r.tag = f"{_cfg_tag(cfg)}|T{T}|E{E}"
    orig_run = r.run_point

    def rp(m, nd, g, l, full):
        # replay descriptors of shape tasks carry T and E in the point
        c, pp = r.c, r.p
        n0 = len(pp.violations)
        v = orig_run(m, nd, g, l, full)
        for vv in pp.violations[n0:]:
            vv["replay"]["point"].update({"T": T, "E": E})
        return v

    if point is not None:
        rp(point["m"], point["nd"], point["g"], point["l"], True)
        return
    for m in sorted({0, ctx.full_m}):
        for nd in range(ctx.full_nd + 1):
            for g in gl["g"]:
                for l in gl["l"]:
                    rp(m, nd, g, l, True)


# ------------------------------------------------------------------------------------------
# 'loop' tasks: the real train_on_policy over a scripted environment

LOOP_NAMES = ["states", "rewards", "dones", "values", "next_state", "next_done", "next_value", "advantages", "returns"]
LOOP_G, LOOP_L = 0.95, 0.9


def _f64(x):
    return x.to(torch.float64) if isinstance(x, torch.Tensor) else torch.as_tensor(np.asarray(x), dtype=torch.float64)


def _loop(task, p):
    from agilerl.training.train_on_policy import train_on_policy

    from ..fixtures.c17_envs import ScriptEnv

    T, E = task["T"], task["E"]
    Ec = max(E, 1)
    base = {k: task[k] for k in ("kind", "algo", "T", "E", "s", "seed")}
    scripts = [task["point"]["script"]] if task.get("point") else range(task["s"][0], task["s"][1])
    tag = f"loop:PPO|T{T}|E{E}"
    for bits in scripts:
        rp = {**base, "point": {"script": bits}}
        env = ScriptEnv(E, bits, 2 * T)
        agent = PPO(env.single_observation_space, env.single_action_space, net_config=NET, batch_size=BIG_BATCH, lr=1e-9,
                    update_epochs=1, learn_step=T * Ec, gamma=LOOP_G, gae_lambda=LOOP_L)
        exc = None
        sink = io.StringIO()
        with LocalsAtReturn({PPO.learn: LOOP_NAMES}) as tr:
            try:
                with contextlib.redirect_stdout(sink), contextlib.redirect_stderr(sink):
                    train_on_policy(env, "scripted", "PPO", [agent], max_steps=2 * T * Ec, evo_steps=2 * T * Ec, eval_steps=2, eval_loop=1, verbose=False)
            except HarnessError:
                raise
            except Exception as e:
                exc = e
            snaps = tr.take()
        p.evaluations += 1
        if bits & ((1 << (2 * T * Ec)) - 1):
            p.nt(f"{tag}|{bits}")
        if exc is not None and len(snaps) >= 2:
            # both rollouts were learnt from; what fails later (evaluation of the population) is not advantage estimation
            p.extra["loop_exception_after_learning_out_of_scope:" + type(exc).__name__ + "@" + _where(exc)] += 1
            snaps = snaps[:2]
            exc = None
        if exc is not None:
            key = f"PPO/train_on_policy/exception/{type(exc).__name__}@{_where(exc)}"
            p.viol(key, f"train_on_policy with a scripted {'un-vectorised' if not E else str(E) + '-env vector'} environment, learn_step={T * Ec}: {exc!r}", rp)
            p.out(f"{tag}|{key}")
            p.dg(key)
            continue
        if len(snaps) != 2:
            raise HarnessError(f"loop: expected 2 PPO.learn activations, captured {len(snaps)}")
        verdict = "ok"
        for j, s in enumerate(snaps):
            loc = s["locals"]
            log = env.steps[j * T : (j + 1) * T]
            sh = (T, Ec)
            try:
                st = _f64(loc["states"]).reshape(T, Ec, 4).numpy()
                rw = _f64(loc["rewards"]).reshape(sh).numpy()
                dn = _f64(loc["dones"]).reshape(sh).numpy()
                vl = _f64(loc["values"]).reshape(sh).numpy()
                nx = _f64(loc["next_state"]).reshape(Ec, 4).numpy()
                ndn = _f64(loc["next_done"]).reshape(Ec).numpy()
                nv = _f64(loc["next_value"]).reshape(Ec).numpy()
                adv = _f64(loc["advantages"]).reshape(sh).numpy()
                ret = _f64(loc["returns"]).reshape(sh).numpy()
            except RuntimeError as e:
                key = "PPO/train_on_policy/learn-input-shape"
                p.viol(key, f"rollout {j}: stacked learn() inputs do not have (T={T}, E={Ec}) layout: {e}", rp)
                verdict = key
                break
            want_s = np.stack([x["obs_before"] for x in log])
            want_r = np.stack([x["reward"] for x in log])
            want_d = np.stack([x["done"] for x in log])          # done produced BY step t
            problems = []
            if not np.array_equal(st, want_s):
                problems.append("states are not the observations the environment emitted before each step")
            if not np.array_equal(rw, want_r):
                problems.append("rewards differ from the emitted rewards")
            if T > 1 and not np.array_equal(dn[1:], want_d[:-1]):
                problems.append(f"dones[1:] {dn[1:].tolist()} are not the flags produced by steps 0..T-2 {want_d[:-1].tolist()}")
            if not np.array_equal(ndn, want_d[-1]):
                problems.append(f"next_done {ndn.tolist()} is not the flag produced by the last step {want_d[-1].tolist()}")
            if not np.array_equal(nx, log[-1]["obs_after"]):
                problems.append("next_state is not the observation emitted by the last step")
            if problems:
                key = "PPO/train_on_policy/rollout-recording"
                p.viol(key, f"rollout {j} (T={T}, E={E or 'unvectorised'}, script={bits:b}): " + "; ".join(problems), rp)
                verdict = key
                break
            Dn = want_d.astype(np.float64)                       # d_{t+1} = flag produced by step t
            A, Rt = reference(want_r[None], vl[None], Dn[None], nv[None], LOOP_G, LOOP_L)
            tol = 1e-6 * (T + 1) * max(np.abs(want_r).max(), np.abs(vl).max(), 1.0)
            if np.abs(A[0] - adv).max() > tol or np.abs(Rt[0] - ret).max() > tol:
                key = "PPO/train_on_policy/gae/estimates-differ-from-recursion-on-emitted-history"
                p.viol(key, f"rollout {j} (T={T}, E={E or 'unvectorised'}, script={bits:b}): advantages {adv.tolist()} expected {A[0].tolist()} "
                            f"(episode ends produced by steps: {want_d.tolist()})", rp, observed=adv.tolist(), expected=A[0].tolist())
                verdict = key
                break
            with torch.no_grad():
                nv2 = agent.critic(torch.from_numpy(nx.astype(np.float32))).reshape(-1).to(torch.float64).numpy()
            if np.abs(nv2 - nv).max() > 1e-4 * max(1.0, np.abs(nv).max()):
                key = "PPO/train_on_policy/gae/bootstrap-is-not-critic-of-final-next-observation"
                p.viol(key, f"rollout {j}: next_value {nv.tolist()} vs critic(next_state) {nv2.tolist()}", rp)
                verdict = key
                break
            p.digest.update(adv.astype(np.float32).tobytes())
        p.out(f"{tag}|{verdict}")
        if bits == 5:
            p.sample({"loop": "train_on_policy", "T": T, "E": E or "unvectorised", "script_bits": bits, "dones_seen_by_learn": [s["locals"]["dones"].tolist() for s in snaps], "verdict": verdict})
