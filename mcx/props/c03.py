"""C03 — architecture mutations keep every network valid, bounded and rebuildable.

E1 stategraph over the graph of architectures reachable by clone-and-mutate (mcx.fixtures.archgraph).
The exploration is shared with C04; this module plugs in OracleC03.
"""
from __future__ import annotations

from ..fixtures import archgraph as ag

LEVEL = "model_checking"
RULE = (
    "explicit-state BFS from each initial configuration; a state is a live module, an edge is clone() followed by one "
    "mutation method the clone advertises, for every explicit-argument choice of the stated alphabet and EVERY answer of "
    "every np.random draw the method makes (answers are read off the real call: range(low, high) / the menu); canonical "
    "state = (class, typed init_dict, parameter names+shapes, advertised methods). Oracle on every edge and on every "
    "initial state: declared bounds; type(m)(**init_dict).load_state_dict(strict) and clone() state equality; forward on "
    "batches 1..3 (eval and train mode) finite and of declared shape; effect predicted by an independent limit/fallback "
    "reference and last_mutation_attr. Non-trivial = distinct (spec, source architecture, method) on which a bound, a "
    "fallback or an on-the-bound landing fired; outcome = distinct (class, method, what happened, method applied)."
)
ASSUMPTIONS = [
    "explicit integer arguments are passed with the types the library's own returned mutation dicts carry (np.int64 sizes/layer indices, python int kernel sizes), as Mutations._apply_arch_mutation does when it re-applies a mutation to the other networks",
    "a size change that would land exactly on a declared minimum/maximum may be applied or refused (the library is inclusive in some methods and exclusive in others and the statement does not say); strictly inside must be applied, outside must be refused",
    "CNN.add_layer below max_hidden_layers may be refused only when the library's declared kernel limit (a quarter of the last feature map, recomputed independently) leaves no kernel > 2",
    "an undocumented fallback (CNN add_layer/remove_layer, change_kernel on a single-layer CNN) may be any node mutation of the same module, but last_mutation_attr must name it and its own effect is checked",
    "torch's generator is pinned per edge: the values new units are initialised with are not quantified over",
    "train-mode forward with batch size 1 is skipped for networks containing BatchNorm (not a valid training batch for torch)",
    "observation sub-spaces are Box spaces (Discrete observations need the algorithm-level one-hot preprocessing, outside this property)",
]



def bounds(tier):
    return ag.bounds(tier)


def tasks(tier, seed):
    return ag.tasks(tier)


def run_task(task):
    return ag.run(task, ag.OracleC03)
