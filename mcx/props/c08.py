"""C08 — value-based learning uses the Bellman target and really tracks its target network.

E3 lattice x E2 histories on real agents: every done mask of a small batch, reward vectors, gamma, tau,
policy delay, k consecutive learn steps, start states (fresh / after clone / after each mutation kind /
after checkpoint round trip).  O1 loss == definition recomputed from the pre-step networks; O2 a done
row's next observation never influences loss or post-step weights (and a non-done row's does);
O3 after each (policy-delay) step target == tau*online_after + (1-tau)*target_before, and between
delay steps the targets do not move.
"""
from __future__ import annotations

import copy
import itertools
import os
import shutil
import tempfile

import numpy as np
import torch
import torch.nn.functional as F

from ..core import HarnessError, Partial
from ..fixtures import agentops as O
from ..fixtures import agents as A
from ..rand import seeded

LEVEL = "exploration"
RULE = (
    "per learner (DQN plain/double, CQN plain/double, RainbowDQN 1-step/n-step/PER, DDPG, TD3, MADDPG, MATD3): exhaustive product of "
    "ALL done masks of the batch x reward vectors x gamma x tau x policy_freq x start state (fresh, clone, each mutation kind, "
    "checkpoint load) x k consecutive learn steps on real tiny agents; O1 loss vs definition, O2 next-obs masking differential, "
    "O3 target tracking; non-trivial = distinct (learner, config, done mask) with a mixed mask and target != online before the step; "
    "outcomes = distinct (learner, start state, step index, targets moved?)"
)
ASSUMPTIONS = [
    "policy noise of DDPG/TD3 learn() is set to 0 (the draw is outside the statement); exploration noise is irrelevant to learn()",
    "O1 is evaluated with the live networks immediately before the step (pure forward passes under no_grad)",
    "soft-update comparison is tensor-wise on every tensor the target module computes with (incl. tensors planted by to_module), tolerance 1e-6 abs",
    "for Rainbow (distributional) O1 is delegated to C18; O2/O3 are checked here",
]

VALUE_ALGOS = ["DQN", "CQN", "RainbowDQN", "DDPG", "TD3", "MADDPG", "MATD3"]
STARTS = ["fresh", "clone", "Ma0", "Mp", "Mact", "Mh0", "ckpt"]


def bounds(tier):
    q = tier == "quick"
    return {
        "learners": VALUE_ALGOS, "variants": {"DQN": ["plain", "double"], "CQN": ["plain", "double"], "RainbowDQN": ["1-step", "n-step", "per", "per+n-step", "combined"]},
        "batch": [2, 3] if q else [2, 3, 4], "done_masks": "all 2^B", "rewards": "2 vectors from {-1,0,2}",
        "gamma": [0.0, 0.99] if q else [0.0, 0.5, 0.99, 1.0], "tau": [0.5, 1.0] if q else [0.01, 0.5, 1.0],
        "policy_freq": [1, 2] if q else [1, 2, 3], "steps": 2 if q else 3, "start_states": STARTS,
        "obs_kinds": ["vector"] if q else ["vector", "image"],
    }


def variants(algo):
    if algo in ("DQN", "CQN"):
        return [{"double": False}, {"double": True}]
    if algo == "RainbowDQN":
        return [{"mode": m} for m in ("1-step", "n-step", "per", "per+n-step", "combined")]
    if algo in ("DDPG", "TD3"):
        return [{"share_encoders": True}, {"share_encoders": False}]
    return [{}]


def tasks(tier, seed):
    b = bounds(tier)
    out = []
    for algo in VALUE_ALGOS:
        for kind in b["obs_kinds"]:
            for var in variants(algo):
                for gamma in b["gamma"]:
                    for tau in b["tau"]:
                        pfs = b["policy_freq"] if algo in ("DDPG", "TD3", "MATD3") else [1]
                        for pf in pfs:
                            out.append({"algo": algo, "kind": kind, "var": var, "gamma": gamma, "tau": tau, "pf": pf, "B": b["batch"], "steps": b["steps"],
                                        "_cost": 4 if algo in A.MULTI else 1})
    return out


# ------------------------------------------------------------------------------------------ agent construction
def build(task, start, B=4):
    kw = {"gamma": task["gamma"], "tau": task["tau"], "batch_size": B}
    var = dict(task["var"])
    mode = var.pop("mode", None)
    kw.update(var)
    if task["algo"] in ("DDPG", "TD3", "MATD3"):
        kw["policy_freq"] = task["pf"]
    if mode == "combined":
        kw["combined_reward"] = True
    agent = A.make_agent(task["algo"], task["kind"], seed=0, **kw)
    if start == "fresh":
        return agent
    # make the target lag first so that target != online when the start op happens
    pre = A.make_batch(task["algo"], task["kind"], B=B, seed=11)
    for i in range(getattr(agent, "policy_freq", 1)):
        _learn(agent, task, pre, i)
    if start == "clone":
        return agent.clone()
    if start == "Ma0":
        ms = O.arch_methods(agent)
        return O.mutate(agent, "arch", seed=3, method=ms[0]) if ms else agent
    if start == "Mp":
        return O.mutate(agent, "param", seed=3)
    if start == "Mact":
        return O.mutate(agent, "act", seed=3)
    if start == "Mh0":
        return O.mutate(agent, "hp", seed=3, hp=O.hp_names(agent)[0])
    if start == "ckpt":
        d = tempfile.mkdtemp(prefix="c08_", dir=os.environ.get("VERIF_TMP", "/var/tmp"))
        try:
            path = os.path.join(d, "a.pt")
            agent.save_checkpoint(path)
            with seeded(5):  # load() builds fresh (randomly initialised) networks first; pin that draw so twins are identical
                return type(agent).load(path)
        finally:
            shutil.rmtree(d, ignore_errors=True)
    raise HarnessError(start)


def make_batch(task, B, mask, rew, seed, alt_rows=()):
    """alt_rows: rows whose next_obs is replaced by a different observation"""
    algo, kind = task["algo"], task["kind"]
    b = A.make_batch(algo, kind, B=B, seed=seed, done=mask, reward=rew)
    if alt_rows:
        other = A.make_batch(algo, kind, B=B, seed=seed + 500, done=mask, reward=rew)

        def repl(dst, src):
            if isinstance(dst, torch.Tensor):
                for r in alt_rows:
                    dst[r] = src[r]
            else:
                for k in dst.keys():
                    repl(dst[k], src[k])

        if algo in ("MADDPG", "MATD3"):
            for a in A.AGENT_IDS:
                repl(b[3][a], other[3][a])
        elif isinstance(b, tuple):
            repl(b[3], other[3])
        else:
            repl(b["next_obs"], other["next_obs"])
    return b


def _learn(agent, task, batch, step):
    algo = task["algo"]
    mode = task["var"].get("mode")
    batch = copy.deepcopy(batch)
    with seeded(100 + step):
        if algo in ("DDPG", "TD3"):
            return agent.learn(batch, policy_noise=0.0)
        if algo == "RainbowDQN":
            B = batch.shape[0]
            if mode in ("per", "per+n-step", "combined"):
                batch["weights"] = torch.ones(B, 1)
                batch["idxs"] = torch.arange(B).unsqueeze(1)
            elif mode == "n-step":
                batch["idxs"] = torch.arange(B)
            nb = None
            if mode in ("n-step", "per+n-step", "combined"):
                nb = copy.deepcopy(batch)
            return agent.learn(batch, n_experiences=nb, per=mode in ("per", "per+n-step", "combined"))
        return agent.learn(batch)


def target_pairs(agent):
    """[(eval module, target module, label)]"""
    out = []
    for g in agent.registry.groups:
        if g.shared is None:
            continue
        ev = getattr(agent, g.eval)
        shs = g.shared if isinstance(g.shared, list) else [g.shared]
        for sh in shs:
            tg = getattr(agent, sh)
            if isinstance(ev, list):
                for i, (e, t) in enumerate(zip(ev, tg)):
                    out.append((e, t, f"{sh}"))
            else:
                out.append((ev, tg, sh))
    return out


def snap(mod):
    return {k: v.detach().clone() for k, v in O.module_tensors(mod).items()}


def loss_scalar(algo, l):
    """the part of learn()'s return value that the statement defines"""
    if algo in ("DDPG", "TD3"):
        return float(l[1])
    if algo == "RainbowDQN":
        return float(l[0])
    if algo in ("MADDPG", "MATD3"):
        return tuple(float(l[a][1]) for a in A.AGENT_IDS)
    return float(l)


# ------------------------------------------------------------------------------------------ O1 reference losses
def reference_loss(agent, task, batch):
    algo = task["algo"]
    g = agent.gamma
    with torch.no_grad():
        if algo in ("DQN", "CQN"):
            if algo == "DQN":
                obs, act, rew, nobs, dn = (batch[k] for k in ("obs", "action", "reward", "next_obs", "done"))
            else:
                obs, act, rew, nobs, dn = batch
            o, no = agent.preprocess_observation(obs), agent.preprocess_observation(nobs)
            qn_t = agent.actor_target(no)
            if agent.double:
                idx = agent.actor(no).argmax(dim=1, keepdim=True)
                qn = qn_t.gather(1, idx)
            else:
                qn = qn_t.max(dim=1, keepdim=True)[0]
            y = rew + g * (1 - dn) * qn
            qa = agent.actor(o)
            q = qa.gather(1, act.long())
            mse = F.mse_loss(q, y)
            if algo == "DQN":
                return float(mse)
            cql = torch.logsumexp(qa, dim=1).mean() - qa.mean()
            return float(cql + 0.5 * mse)
        if algo in ("DDPG", "TD3"):
            if algo == "DDPG":
                obs, act, rew, nobs, dn = (batch[k] for k in ("obs", "action", "reward", "next_obs", "done"))
            else:
                obs, act, rew, nobs, dn = batch
            o, no = agent.preprocess_observation(obs), agent.preprocess_observation(nobs)
            na = agent.actor_target(no)
            lo, hi = torch.as_tensor(agent.min_action), torch.as_tensor(agent.max_action)
            na = torch.max(torch.min(na, hi), lo)
            if algo == "DDPG":
                y = rew + (1 - dn) * g * agent.critic_target(no, na)
                return float(F.mse_loss(agent.critic(o, act), y))
            qn = torch.min(agent.critic_target_1(no, na), agent.critic_target_2(no, na))
            y = rew + (1 - dn) * g * qn
            return float(F.mse_loss(agent.critic_1(o, act), y) + F.mse_loss(agent.critic_2(o, act), y))
        if algo in ("MADDPG", "MATD3"):
            obs, act, rew, nobs, dn = batch
            o, no = agent.preprocess_observation(obs), agent.preprocess_observation(nobs)
            ids = agent.agent_ids
            na = torch.cat([agent.actor_targets[i](no[a]) for i, a in enumerate(ids)], dim=1)
            so, sno = agent.stack_critic_observations(o), agent.stack_critic_observations(no)
            sa = torch.cat([act[a] for a in ids], dim=1)
            out = []
            for i, a in enumerate(ids):
                if algo == "MADDPG":
                    y = rew[a] + (1 - dn[a]) * g * agent.critic_targets[i](sno, na)
                    out.append(float(F.mse_loss(agent.critics[i](so, sa), y)))
                else:
                    qn = torch.min(agent.critic_targets_1[i](sno, na), agent.critic_targets_2[i](sno, na))
                    y = rew[a] + (1 - dn[a]) * g * qn
                    out.append(float(F.mse_loss(agent.critics_1[i](so, sa), y) + F.mse_loss(agent.critics_2[i](so, sa), y)))
            return tuple(out)
    return None


# ------------------------------------------------------------------------------------------ per point
def check_point(p: Partial, task, start, B, mask, rew):
    algo = task["algo"]
    kp = f"{algo}" + ("/double" if task["var"].get("double") else "") + (f"/{task['var']['mode']}" if "mode" in task["var"] else "")
    rp = {k: v for k, v in task.items() if not k.startswith("_")}
    rp.update({"point": {"start": start, "B": B, "mask": list(mask), "rew": list(rew)}})
    p.evaluations += 1
    try:
        agent = build(task, start, B)
    except HarnessError:
        raise
    except Exception as e:
        # a start operation failing is another property's business (C01/C02/C07); count and skip
        p.extra[f"start_state_unavailable:{start}:{type(e).__name__}"] += 1
        return
    tau = task["tau"]
    pf = getattr(agent, "policy_freq", 1) if algo in ("DDPG", "TD3", "MATD3") else 1
    for step in range(task["steps"] * pf):
        batch = make_batch(task, B, mask, rew, seed=step)
        pairs = target_pairs(agent)
        before_t = [snap(t) for _, t, _ in pairs]
        lag = any(not O.module_values_equal(e, t) for e, t, _ in pairs)
        ref = reference_loss(agent, task, copy.deepcopy(batch)) if step == 0 or True else None
        # ---- O2 differential twin (only on the first step, where both agents are identical by construction)
        twin_loss = twin_w = twin_loss_nd = None
        done_rows = [i for i, d in enumerate(mask) if d]
        live_rows = [i for i, d in enumerate(mask) if not d]
        if step == 0:
            if done_rows:
                tw = build(task, start, B)
                twin_loss = loss_scalar(algo, _learn(tw, task, make_batch(task, B, mask, rew, seed=step, alt_rows=done_rows), step))
                twin_w = {k: t.detach().clone() for k, t in O.all_tensors(tw).items() if k.startswith("net:") and not k.endswith("_epsilon")}
            if live_rows and task["gamma"] > 0:
                tw2 = build(task, start, B)
                twin_loss_nd = loss_scalar(algo, _learn(tw2, task, make_batch(task, B, mask, rew, seed=step, alt_rows=live_rows), step))
        try:
            l = _learn(agent, task, batch, step)
        except Exception as e:
            p.viol(f"{kp}/learn/exception/{type(e).__name__}", f"learn raised {e!r} (start={start})"[:300], rp)
            return
        loss = loss_scalar(algo, l)
        p.dg(algo, start, step, loss)
        # ---- O1
        if ref is not None:
            if not np.allclose(np.asarray(loss, dtype=np.float64), np.asarray(ref, dtype=np.float64), rtol=1e-5, atol=1e-6):
                p.viol(f"{kp}/loss-not-bellman-definition", f"learn returned {loss}, definition gives {ref} (start={start}, step={step}, mask={mask})", rp,
                       observed=loss, expected=ref)
        # ---- O2
        if twin_loss is not None:
            w = {k: t for k, t in O.all_tensors(agent).items() if k.startswith("net:") and not k.endswith("_epsilon")}
            tl, ll = np.asarray(twin_loss, dtype=np.float64), np.asarray(loss, dtype=np.float64)
            # float rounding (e.g. a softmax summing to 1 +- 1ulp) is not an influence of the observation
            same_w = sorted(w) == sorted(twin_w) and all(torch.allclose(w[k], twin_w[k], atol=1e-6, rtol=1e-5) for k in w)
            if not np.allclose(tl, ll, rtol=1e-5, atol=1e-7) or not same_w:
                p.viol(f"{kp}/done-row-next-obs-influences-update", f"replacing next_obs of done rows {done_rows} changed loss {loss}->{twin_loss} or weights (start={start})", rp)
        if twin_loss_nd is not None and twin_loss_nd == loss:
            p.extra["non_done_next_obs_did_not_change_loss"] += 1
            p.out(["O2-nonvacuity-miss", algo, start])
        # ---- O3
        is_update_step = (step + 1) % pf == 0
        pairs_after = target_pairs(agent)
        moved_any = False
        for (e, t, label), bt in zip(pairs_after, before_t):
            at = snap(t)
            ae = snap(e)
            if sorted(at) != sorted(bt):
                p.viol(f"{kp}/target-structure-changed-by-learn:{label}", "target tensors renamed by learn", rp)
                continue
            pnames = {n for n, _ in e.named_parameters()} | {n for n in ae if not any(n.endswith(x) for x in ("_epsilon", "num_batches_tracked"))}
            for k in at:
                if k not in pnames:
                    continue
                moved = not torch.equal(at[k], bt[k])
                moved_any |= moved
                if not is_update_step:
                    if moved:
                        p.viol(f"{kp}/target-moved-between-delay-steps:{label}", f"{label}.{k} changed on a non-update step (policy_freq={pf}, step={step})", rp)
                        break
                    continue
                if k in ae:
                    ek = ae[k]
                else:
                    continue
                if ek.shape != bt[k].shape:
                    continue
                want = tau * ek + (1.0 - tau) * bt[k]
                if not torch.allclose(at[k], want, atol=1e-6, rtol=1e-5):
                    frozen = torch.equal(at[k], bt[k])
                    cls = "target-frozen" if frozen else "target-not-tau-blend"
                    p.viol(f"{kp}/{cls}:{label}", f"{label}.{k}: after step {step} (start={start}) target != tau*online+(1-tau)*target_before; "
                           f"max dev {(at[k] - want).abs().max().item():.3g}, frozen={frozen}", rp)
                    break
        p.out([algo, start, step, moved_any])
        if lag and 0 < sum(mask) < len(mask):
            p.nt([algo, repr(task["var"]), task["gamma"], task["tau"], task["pf"], start, B, list(mask)])


def run_task(task):
    p = Partial()
    if "point" in task:
        pt = task["point"]
        check_point(p, task, pt["start"], pt["B"], tuple(pt["mask"]), tuple(pt["rew"]))
        return p
    for start in STARTS:
        for B in task["B"]:
            rews = [tuple([-1.0, 0.0, 2.0, 0.0][:B]), tuple([2.0, 2.0, -1.0, 0.0][:B])]
            masks = list(itertools.product([0, 1], repeat=B))
            # the full mask product is explored from the fresh state; other start states use the mixed masks
            if start != "fresh":
                masks = [m for m in masks if 0 < sum(m) < B][:2] + [tuple([0] * B)]
                rews = rews[:1]
            for mask in masks:
                for rew in rews:
                    check_point(p, task, start, B, mask, rew)
    p.sample({k: v for k, v in task.items() if not k.startswith("_")})
    return p
