"""C05 — tournament selection keeps the fittest and builds a well-formed generation.

E2 over draws, two layers, both on the REAL `agilerl.hpo.tournament.TournamentSelection`:

(a) combinatorial layer with token agents (a small test double exposing `fitness`, `index`, `clone(index=None, wrap=True)`
    that deep-copies and records its parent): every population size, configured size, tournament size, evaluation
    window, elitism flag, every assignment of fitness histories and EVERY answer of `np.random.randint(0, P, size=k)`
    for every child; generations chained (each member gets a new score appended between generations).
(b) fidelity layer with real trained agents (DQN, PPO, MADDPG): P=3, k=2, one fitness assignment per tie pattern,
    every draw for every child; members are compared with their sources field by field and for storage sharing.

The draws are scripted by replacing `numpy.random.randint` while `select` runs. Per select() call with n children and
D = P^k possible answers per child: the FULL product D^n is enumerated when D^n <= FULL_PRODUCT_CAP, otherwise the
children are enumerated independently ("cyclic": D calls, in call c child j receives answer (c + j) mod D, so every
(child, answer) pair occurs; children's tournaments share no state besides the index counter).
"""
from __future__ import annotations

import copy
import itertools

import numpy as np

from agilerl.algorithms.core.base import EvolvableAlgorithm
from agilerl.hpo.tournament import TournamentSelection

from ..core import HarnessError, Partial
from ..rand import patched, seeded

LEVEL = "model_checking"
RULE = (
    "exhaustive enumeration on the real TournamentSelection.select with numpy.random.randint scripted: (a) token agents, full "
    "product of population size x configured size x tournament size x eval window x elitism x all fitness-history "
    "assignments x all draw answers per child (full product of the children's draws when it has <= 32 elements, else "
    "each child's answers enumerated independently), plus chains of <= 3 generations where every member receives every "
    "new score in between; (b) real DQN/PPO/MADDPG agents after one learn step, P=3,k=2, all 13 tie patterns, every draw "
    "per child. Each select() is judged: elite source has maximal window mean, size, elitism slot, each child's source is in "
    "its drawn set and best in it, fresh pairwise-distinct indices, old population fingerprint unchanged, (b) field-wise "
    "equality with the source and no shared tensor storage. transitions = select() calls; traces = maximal generation "
    "chains; states = distinct (population means, indices) vectors per task. non-trivial = selections with a tie in the window "
    "means or a duplicate position inside a draw (tag: P,k,window,elitism,tie pattern,dup); outcomes = distinct "
    "(P, configured size, elitism, source positions of the new population)"
)
ASSUMPTIONS = [
    "a tie in the window mean may be resolved toward any of the tied agents (the statement only requires a maximal mean)",
    "numpy.random.randint(0, P, size=k) is the only random source of select(); any other call signature is a harness error",
    "token agents copy faithfully by construction; copy fidelity of real clone() is judged in layer (b) only",
    "layer (b) enumerates each child's draws independently (9 select() calls per configuration)",
    "the returned elite must be a copy (a different object) of a member with maximal mean; with elitism the first member must "
    "descend from the same member and keep that member's index",
]

VALUES = [-1, 0, 2]
FULL_PRODUCT_CAP = 32
HISTS = [(a,) for a in VALUES] + [(a, b) for a in VALUES for b in VALUES]     # 12 histories of length 1..2
HISTS1 = [(a,) for a in VALUES]
HISTS6 = [(-1,), (0,), (2,), (2, -1), (0, 0), (-1, 2)]       # reduced menu: every value, both lengths, ties across lengths
HIST_MENU = {"all": HISTS, "six": HISTS6, "len1": HISTS1}
REAL_ALGOS = ["DQN", "PPO", "MADDPG"]


def _resynced(agent, key, st):
    from ..fixtures import hpo

    """is `key` a weight of a registered shared/target network that equals the same weight of the copy's own eval network?"""
    try:
        _, rest = key.split(":", 1)
        attr = rest.split("[")[0].split(":")[0]
        for g in agent.registry.groups:
            if g.shared is None:
                continue
            shared = g.shared if isinstance(g.shared, list) else [g.shared]
            flat = [x for s_ in shared for x in (s_ if isinstance(s_, list) else [s_])]
            if attr in flat:
                ek = key.replace(f":{attr}[", f":{g.eval}[", 1)
                return ek in st and hpo.state_equal(st[key], st[ek])
        if attr == "target_params":
            return True
    except Exception:
        return False
    return False


def bounds(tier):
    q = tier == "quick"
    return {
        "token_layer": {
            "P": [1, 2, 3, 4], "population_size": "{P-1,P,P+1} (>0)", "tournament_size": [1, 2, 3], "eval_loop": [1, 2, 3],
            "elitism": [False, True], "fitness_values": VALUES,
            "histories": (f"P<=2: all 12^P assignments of lengths 1..2; P=3: all 6^3 assignments from {HISTS6}; P=4: all 3^4 of length 1" if q
                          else f"P<=3: all 12^P assignments of lengths 1..2; P=4: all 6^4 assignments from {HISTS6}"),
            "draws": f"every answer of randint(0,P,size=k) per child; full product when (P^k)^children <= {FULL_PRODUCT_CAP}, else per child independently",
            "chains": ("breadth-first over generations with merging of equal token populations; P0 in 1..3, k in 1..2, eval_loop in 1..2, "
                       "all 3^P0 initial histories of length 1; between generations every member gets every value appended "
                       "(values {-1,0,2} for population_size<=2, {0,2} for population_size>=3); generations: "
                       + ("3 for population_size<=2, 2 for population_size 3..4" if q else "3 for population_size<=3, 2 for population_size 4")),
        },
        "real_layer": {"algorithms": REAL_ALGOS, "P": 3, "population_size": 3, "tournament_size": 2, "eval_loop": 2,
                       "elitism": [False, True], "tie_patterns": 13, "draws": "9 answers per child, children independently",
                       "wiring": "one call of utils.tournament_selection_and_mutation (no-op mutation pass) per configuration, judged for size, sources, indices, old population"},
    }


def weak_orders3():
    seen, out = set(), []
    for lv in itertools.product(range(3), repeat=3):
        ranks = {v: i for i, v in enumerate(sorted(set(lv)))}
        c = tuple(ranks[v] for v in lv)
        if c not in seen:
            seen.add(c)
            out.append(c)
    return out


def tasks(tier, seed):
    q = tier == "quick"
    out = []
    for P in (1, 2, 3, 4):
        if q:
            hist_mode = {1: "all", 2: "all", 3: "six", 4: "len1"}[P]
        else:
            hist_mode = "six" if P == 4 else "all"
        nm = len(HIST_MENU[hist_mode])
        nh = nm ** P
        for ps in (P - 1, P, P + 1):
            if ps <= 0:
                continue
            for k in (1, 2, 3):
                for el in (False, True):
                    D = P ** k
                    n = ps - 1 if el else ps
                    scripts = D ** n if D ** n <= FULL_PRODUCT_CAP else D
                    cost = nh * 3 * max(scripts, 1)
                    if cost > 60000:
                        for h0 in range(nm):
                            out.append({"layer": "a1", "P": P, "ps": ps, "k": k, "el": el, "hist": hist_mode, "h0": h0, "_cost": cost / nm / 1000})
                    else:
                        out.append({"layer": "a1", "P": P, "ps": ps, "k": k, "el": el, "hist": hist_mode, "h0": None, "_cost": cost / 1000})
    for P0 in (1, 2, 3):
        for ps in (P0 - 1, P0, P0 + 1):
            if ps <= 0:
                continue
            if q:
                gens = 3 if ps <= 2 else 2
            else:
                gens = 3 if ps <= 3 else 2
            for k in (1, 2):
                for ev in (1, 2):
                    for el in (False, True):
                        base = {"layer": "a2", "P": P0, "ps": ps, "k": k, "ev": ev, "el": el, "gens": gens}
                        if gens == 3 and ps == 3:
                            for h in range(3 ** P0):
                                out.append({**base, "h": h, "_cost": 30})
                        else:
                            out.append({**base, "h": None, "_cost": 3 * ps ** 3})
    for algo in REAL_ALGOS:
        for ti in range(13):
            for el in (False, True):
                out.append({"layer": "b", "algo": algo, "tie": ti, "el": el, "_cost": {"DQN": 4000, "PPO": 4000, "MADDPG": 12000}[algo]})
    return out


# ------------------------------------------------------------------------------------------ token agents
class Ctx:
    def __init__(self):
        self.uid = 0
        self.clones = 0


class Tok:
    """test double of an individual: what TournamentSelection touches (`fitness`, `index`, `clone`) plus lineage"""

    def __init__(self, ctx, index, fitness, parent=None):
        self.ctx = ctx
        ctx.uid += 1
        self.uid = ctx.uid
        self.index = index
        self.fitness = list(fitness)
        self.scores = [float(x) for x in fitness]
        self.steps = [0, len(fitness)]
        self.parent = parent

    def clone(self, index=None, wrap=True):
        self.ctx.clones += 1
        c = Tok(self.ctx, self.index if index is None else index, copy.deepcopy(self.fitness), parent=self)
        c.scores = copy.deepcopy(self.scores)
        c.steps = copy.deepcopy(self.steps)
        return c

    def snap(self):
        return (self.index, tuple(self.fitness), tuple(self.scores), tuple(self.steps))


def tok_root(member, old_ids):
    """position in the old population of the member this object descends from (by recorded clone lineage)"""
    x, hops = member, 0
    while x is not None:
        if id(x) in old_ids:
            return old_ids[id(x)], hops
        x = getattr(x, "parent", None)
        hops += 1
    return None, hops


def score6(fit, ev):
    """6 x mean of the last `ev` scores, exactly (window lengths are 1..3)"""
    w = fit[-ev:]
    return sum(w) * (6 // len(w))


class Draws:
    """scripted numpy.random.randint for one select() call"""

    def __init__(self, P, k, answers):
        self.P, self.k, self.answers, self.calls = P, k, answers, 0

    def __call__(self, low, high=None, size=None, dtype=int):
        if low != 0 or high != self.P or size != self.k:
            raise HarnessError(f"randint({low},{high},size={size}) but the population has {self.P} members and tournaments {self.k}")
        a = self.answers(self.calls)
        self.calls += 1
        return np.array(a, dtype=np.int64)


def decode_draw(c, P, k):
    out = []
    for _ in range(k):
        out.append(c % P)
        c //= P
    return out


def scripts_for(P, k, n):
    """list of per-call draw lists [[positions]*n]"""
    D = P ** k
    if n == 0:
        return [[]]
    if D ** n <= FULL_PRODUCT_CAP:
        return [[decode_draw(c, P, k) for c in combo] for combo in itertools.product(range(D), repeat=n)]
    return [[decode_draw((c + j) % D, P, k) for j in range(n)] for c in range(D)]


def judge_select(p: Partial, kp, old, old_scores, snaps_before, snaps_after, cfg, draws, n_calls, elite, new, used_indices, root_fn, rp, old_list_id_ok=True):
    """the oracle for one select() call. old_scores: exact window score per old member. Returns (ok, source positions)."""
    P = len(old)
    ps, el = cfg["ps"], cfg["el"]
    ok = True
    best = max(old_scores)
    if snaps_before != snaps_after or not old_list_id_ok:
        changed = [i for i in range(P) if i >= len(snaps_after) or snaps_before[i] != snaps_after[i]]
        p.viol(f"{kp}/old-population-modified", f"select changed the old population (members {changed}) cfg={cfg}", rp)
        ok = False
    # elite (elite=None: the caller's interface does not return it, e.g. tournament_selection_and_mutation)
    epos, ehops = root_fn(elite) if elite is not None else (None, 1)
    if elite is None:
        pass
    elif epos is None:
        p.viol(f"{kp}/elite/not-a-copy-of-a-member", f"the returned elite does not descend from any member; cfg={cfg}", rp)
        return False, None
    elif ehops == 0:
        p.viol(f"{kp}/elite/is-the-member-itself-not-a-copy", f"select returned member {epos} itself as elite; cfg={cfg}", rp)
        ok = False
    if elite is not None and old_scores[epos] != best:
        p.viol(f"{kp}/elite/not-maximal-mean", f"elite descends from member {epos} (6*mean={old_scores[epos]}), best is {best} in {old_scores}; cfg={cfg}", rp,
               observed=epos, expected=[i for i, s in enumerate(old_scores) if s == best])
        ok = False
    if not isinstance(new, list) or len(new) != ps:
        p.viol(f"{kp}/new-population-size", f"len(new)={len(new) if hasattr(new, '__len__') else type(new)} configured {ps}; P={P} cfg={cfg}", rp,
               observed=len(new) if hasattr(new, "__len__") else None, expected=ps)
        return False, None
    n_children = ps - 1 if el else ps
    if n_calls != n_children:
        raise HarnessError(f"select drew {n_calls} tournaments for {n_children} children")
    src = []
    for m in new:
        pos, hops = root_fn(m)
        src.append(pos)
        if pos is None:
            p.viol(f"{kp}/member/not-a-copy-of-a-member", f"a member of the new population does not descend from the old one; cfg={cfg}", rp)
            return False, None
        if hops == 0:
            p.viol(f"{kp}/member/is-an-old-member-itself", f"the new population contains old member {pos} itself; cfg={cfg}", rp)
            ok = False
    if len({id(m) for m in new}) != len(new):
        p.viol(f"{kp}/member/same-object-twice", f"the new population contains one object twice; cfg={cfg}", rp)
        ok = False
    first_child = 0
    if el:
        first_child = 1
        if elite is None:
            epos = src[0]
            if old_scores[epos] != best:
                p.viol(f"{kp}/elitism/first-member-not-maximal-mean", f"new[0] descends from member {epos} (6*mean {old_scores[epos]}), best is {best}; cfg={cfg}", rp)
                ok = False
        if src[0] != epos:
            p.viol(f"{kp}/elitism/first-member-not-the-elite", f"new[0] descends from member {src[0]}, the elite from {epos}; cfg={cfg}", rp,
                   observed=src[0], expected=epos)
            ok = False
        elif new[0].index != snaps_before[epos][0]:
            p.viol(f"{kp}/elitism/first-member-index-changed", f"new[0].index={new[0].index}, its source has {snaps_before[epos][0]}; cfg={cfg}", rp)
            ok = False
    for j in range(n_children):
        m = new[first_child + j]
        D = draws[j]
        pos = src[first_child + j]
        if pos not in D:
            p.viol(f"{kp}/child/source-not-in-drawn-set", f"child {j} descends from member {pos}, its tournament drew {D}; cfg={cfg}", rp,
                   observed=pos, expected=sorted(set(D)))
            ok = False
        elif old_scores[pos] != max(old_scores[i] for i in D):
            p.viol(f"{kp}/child/source-not-best-of-drawn-set", f"child {j} descends from member {pos} (6*mean {old_scores[pos]}), drawn {D} with 6*means "
                   f"{[old_scores[i] for i in D]}; cfg={cfg}", rp, observed=pos, expected=[i for i in D if old_scores[i] == max(old_scores[x] for x in D)])
            ok = False
        if m.index in used_indices:
            p.viol(f"{kp}/index/child-index-used-before", f"child {j} got index {m.index}, already used (all indices so far {sorted(used_indices)}); cfg={cfg}", rp)
            ok = False
    idx = [m.index for m in new]
    if len(set(idx)) != len(idx):
        p.viol(f"{kp}/index/duplicate-in-new-population", f"indices of the new population {idx}; cfg={cfg}", rp)
        ok = False
    # the returned elite and the members of the new generation are separate copies: mutating or training the new
    # generation must not reach the elite (nor one member another)
    if elite is not None and any(m is elite for m in new):
        p.viol(f"{kp}/elite/same-object-as-new-member", f"the returned elite IS new[{[m is elite for m in new].index(True)}] (no separate copy); cfg={cfg}", rp)
        ok = False
    if len({id(m) for m in new}) != len(new):
        p.viol(f"{kp}/new-population/same-object-twice", f"one object appears twice in the new population; cfg={cfg}", rp)
        ok = False
    return ok, src


def tie_pattern(scores):
    r = {v: i for i, v in enumerate(sorted(set(scores)))}
    return "".join(str(r[s]) for s in scores)


def one_token_select(p, ts, pop, cfg, draws, used_indices, rp):
    """run the real select on token agents with the scripted draws and judge it; returns (ok, elite, new)"""
    P, k, ev = len(pop), cfg["k"], cfg["ev"]
    scores = [score6(a.fitness, ev) for a in pop]
    before = [a.snap() for a in pop]
    members = list(pop)
    d = Draws(P, k, lambda c: draws[c] if c < len(draws) else [0] * k)
    p.evaluations += 1
    p.transitions += 1
    with patched(np.random, "randint", d):
        try:
            elite, new = ts.select(pop)
        except HarnessError:
            raise
        except Exception as e:
            p.viol(f"TS/exception/{type(e).__name__}", f"select raised {e!r}; P={P} cfg={cfg} fitness={[a.fitness for a in members]}", rp)
            return False, None, None
    after = [a.snap() for a in pop]
    same_list = len(pop) == len(members) and all(a is b for a, b in zip(pop, members))
    old_ids = {id(a): i for i, a in enumerate(members)}
    ok, src = judge_select(p, "TS", members, scores, before, after, cfg, draws, d.calls, elite, new, used_indices,
                           lambda m: tok_root(m, old_ids), rp, same_list)
    p.dg(src)
    if ok:
        dup = any(len(set(D)) < len(D) for D in draws)
        tp = tie_pattern(scores)
        if dup or len(set(scores)) < len(scores):
            p.nt(f"P{P}k{k}e{ev}{'E' if cfg['el'] else 'n'}:{tp}:{'dup' if dup else 'nodup'}")
        p.out(f"{P}>{cfg['ps']}{'E' if cfg['el'] else 'n'}:{''.join(map(str, src))}")
    return ok, elite, new


def run_a1(task, p: Partial):
    P, ps, k, el = task["P"], task["ps"], task["k"], task["el"]
    n = ps - 1 if el else ps
    base = {kk: task[kk] for kk in ("layer", "P", "ps", "k", "el", "hist", "h0")}
    if task.get("point"):
        pt = task["point"]
        cfg = {"ps": ps, "k": k, "ev": pt["ev"], "el": el}
        ts = TournamentSelection(k, el, ps, pt["ev"])
        ctx = Ctx()
        pop = [Tok(ctx, i, h) for i, h in enumerate(pt["hists"])]
        if pt.get("reuse_shift"):
            # the same selector object first served another population (lower indices)
            one_token_select(Partial(), ts, pop, cfg, pt["draws"], set(range(P)), {**base, "point": pt})
            sh = pt["reuse_shift"]
            pop = [Tok(Ctx(), sh + i, h) for i, h in enumerate(pt["hists"])]
            one_token_select(p, ts, pop, cfg, pt["draws"], set(range(sh, sh + P)), {**base, "point": pt})
        else:
            one_token_select(p, ts, pop, cfg, pt["draws"], set(range(P)), {**base, "point": pt})
        p.traces += 1
        return
    hs = HIST_MENU[task["hist"]]
    scripts = scripts_for(P, k, n)
    states = set()
    first = [hs[task["h0"]]] if task.get("h0") is not None else hs
    for ev in (1, 2, 3):
        cfg = {"ps": ps, "k": k, "ev": ev, "el": el}
        ts = TournamentSelection(k, el, ps, ev)
        for hists in itertools.product(first, *([hs] * (P - 1))):
            states.add((ev, hists))
            for draws in scripts:
                ctx = Ctx()
                pop = [Tok(ctx, i, h) for i, h in enumerate(hists)]
                rp = {**base, "point": {"ev": ev, "hists": [list(h) for h in hists], "draws": draws}}
                ok, elite, new = one_token_select(p, ts, pop, cfg, draws, set(range(P)), rp)
                p.traces += 1
            # selector reuse: a selector object that already served a population is handed an unrelated population with
            # higher indices (islands sharing one selector, an immigrant): the guarantees are per call, not per selector
            ts2 = TournamentSelection(k, el, ps, ev)
            d0 = scripts[0]
            rp2 = {**base, "point": {"ev": ev, "hists": [list(h) for h in hists], "draws": d0, "reuse_shift": 10}}
            one_token_select(Partial(), ts2, [Tok(Ctx(), i, h) for i, h in enumerate(hists)], cfg, d0, set(range(P)), rp2)
            one_token_select(p, ts2, [Tok(Ctx(), 10 + i, h) for i, h in enumerate(hists)], cfg, d0, set(range(10, 10 + P)), rp2)
            p.traces += 1
            p.dg(ev, hists, len(scripts))
    p.states += len(states)
    p.sample({"layer": "a1", "P": P, "population_size": ps, "k": k, "elitism": el, "histories": len(hs) ** (P - 1) * len(first),
              "scripts_per_population": len(scripts), "script_mode": "full-product" if (P ** k) ** n <= FULL_PRODUCT_CAP else "per-child",
              "last_case": {"eval_loop": ev, "fitness": [list(h) for h in hists], "draws_per_child": draws,
                            "new_population": None if not ok else [{"index": m.index, "fitness": m.fitness} for m in new]}})


def app_values(ps):
    return VALUES if ps <= 2 else [0, 2]


def run_a2(task, p: Partial):
    """chains of generations on token agents, breadth-first with merging of equal token populations: a token population
    is completely described by its (index, fitness) pairs, and select() reads the fitness only through the last
    eval_loop entries, so the canonical state is ((index, fitness[-eval_loop:]) per member, set of indices used so far)."""
    P0, ps, k, ev, el, gens = task["P"], task["ps"], task["k"], task["ev"], task["el"], task["gens"]
    cfg = {"ps": ps, "k": k, "ev": ev, "el": el}
    base = {kk: task[kk] for kk in ("layer", "P", "ps", "k", "ev", "el", "gens", "h")}
    ts = TournamentSelection(k, el, ps, ev)

    def build(desc, app):
        ctx = Ctx()
        pop = []
        for j, (idx, fit) in enumerate(desc):
            t = Tok(ctx, idx, fit)
            if app is not None:
                t.fitness.append(app[j])
                t.scores.append(float(app[j]))
            pop.append(t)
        return pop

    if task.get("point"):
        pt = task["point"]
        desc = [(i, [v]) for i, v in enumerate(pt["init"])]
        used = set(range(len(desc)))
        for g, st in enumerate(pt["steps"]):
            pop = build(desc, st["app"])
            ok, elite, new = one_token_select(p, ts, pop, cfg, st["draws"], used, {**base, "point": {"init": pt["init"], "steps": pt["steps"][: g + 1]}})
            if not ok:
                break
            used = used | {m.index for m in new}
            desc = [(m.index, list(m.fitness)) for m in new]
        p.traces += 1
        return

    inits = list(itertools.product(VALUES, repeat=P0))
    if task.get("h") is not None:
        inits = [inits[task["h"]]]
    frontier = {}
    for init in inits:
        desc = [(i, [v]) for i, v in enumerate(init)]
        frontier[(tuple((i, (v,)) for i, v in enumerate(init)), frozenset(range(P0)))] = (desc, set(range(P0)), list(init), [])
    n = ps - 1 if el else ps
    total_states = len(frontier)
    for g in range(gens):
        nxt = {}
        for key in sorted(frontier, key=repr):
            desc, used, init, steps = frontier[key]
            P = len(desc)
            apps = [None] if g == 0 else list(itertools.product(app_values(ps), repeat=P))
            for app in apps:
                for draws in scripts_for(P, k, n):
                    pop = build(desc, app)
                    st = {"app": list(app) if app is not None else None, "draws": draws}
                    ok, elite, new = one_token_select(p, ts, pop, cfg, draws, used, {**base, "point": {"init": init, "steps": steps + [st]}})
                    if g == gens - 1 or not ok:
                        p.traces += 1
                    if not ok:
                        continue
                    used2 = used | {m.index for m in new}
                    k2 = (tuple((m.index, tuple(m.fitness[-ev:])) for m in new), frozenset(used2))
                    if k2 not in nxt:
                        nxt[k2] = ([(m.index, list(m.fitness)) for m in new], used2, init, steps + [st])
        p.dg(g, len(nxt))
        frontier = nxt
        total_states += len(nxt)
    p.states += total_states
    p.sample({"layer": "a2", "P0": P0, "population_size": ps, "k": k, "eval_loop": ev, "elitism": el, "generations": gens,
              "initial_histories": len(inits), "appended_values": app_values(ps), "distinct_states": total_states})


# ------------------------------------------------------------------------------------------ real agents
def run_b(task, p: Partial):
    from ..fixtures import hpo

    algo, el = task["algo"], task["el"]
    P, ps, k, ev = 3, 3, 2, 2
    cfg = {"ps": ps, "k": k, "ev": ev, "el": el}
    levels = weak_orders3()[task["tie"]]
    pop = hpo.build(algo, {"batch_size": 4, "learn_step": 8 if algo == "PPO" else 2}, hpo.new_hp_config(algo), size=P, seed=task["tie"])
    for i, a in enumerate(pop):
        hpo.learn_once(a, seed=10 + i)
        a.fitness = [-1.0, 0.5 + levels[i]]
        a.scores = [float(i), 0.25]
        a.steps = [0, 100 + i]
    scores = [score6([int(2 * x) for x in a.fitness], ev) for a in pop]
    ts = TournamentSelection(k, el, ps, ev)
    n = ps - 1 if el else ps
    D = P ** k
    scripts = [[decode_draw((c + j) % D, P, k) for j in range(n)] for c in range(D)]
    if task.get("point") is not None:
        scripts = [task["point"]]
    if task.get("wired"):
        first_script, scripts = scripts[0], []
    base = {kk: task[kk] for kk in ("layer", "algo", "tie", "el")}
    members = list(pop)
    st_before = [hpo.agent_state(a) for a in pop]
    dig_before = [hpo.state_digest(s) for s in st_before]
    stor_before = [hpo.storages(s) for s in st_before]
    kp = "TS/real"
    src = draws = None
    for draws in scripts:
        rp = {**base, "point": draws}
        d = Draws(P, k, lambda c: draws[c] if c < len(draws) else [0] * k)
        p.evaluations += 1
        p.transitions += 1
        p.traces += 1
        parent_of, keep = {}, []
        orig_clone = EvolvableAlgorithm.clone

        def recording_clone(self, *a, **kw):
            c = orig_clone(self, *a, **kw)
            keep.append(c)
            parent_of[id(c)] = self
            return c

        with seeded(3), patched(np.random, "randint", d), patched(EvolvableAlgorithm, "clone", recording_clone):
            try:
                elite, new = ts.select(pop)
            except HarnessError:
                raise
            except Exception as e:
                p.viol(f"{kp}/exception/{type(e).__name__}", f"{algo}: select raised {e!r}", rp)
                continue
        st_after = [hpo.agent_state(a) for a in pop]
        dig_after = [hpo.state_digest(s) for s in st_after]
        same_list = len(pop) == P and all(a is b for a, b in zip(pop, members))

        def root(m):
            """source of a real individual by the recorded clone() lineage"""
            x, hops = m, 0
            while x is not None:
                for i, a in enumerate(members):
                    if x is a:
                        return i, hops
                x = parent_of.get(id(x))
                hops += 1
            return None, hops

        snaps_b = [(st_before[i]["attr:_index"], dig_before[i]) for i in range(P)]
        snaps_a = [(st_after[i]["attr:_index"], dig_after[i]) for i in range(P)]
        ok, src = judge_select(p, kp, members, scores, snaps_b, snaps_a, cfg, draws, d.calls, elite, new, set(range(P)), root, rp, same_list)
        ok_sel = ok
        if src is not None:
            # fidelity: every member (and the elite) equals its source field by field and shares no storage with anybody
            objs = [("elite", elite, root(elite)[0])] + [(f"new[{j}]", m, src[j]) for j, m in enumerate(new)]
            all_st = []
            for name, m, pos in objs:
                if m is members[pos]:
                    continue
                sm = hpo.agent_state(m)
                all_st.append((name, sm))
                so = st_before[pos]
                seen_cat = set()
                for key in sorted(set(sm) | set(so)):
                    if key == "attr:_index":
                        continue
                    if key not in sm or key not in so or not hpo.state_equal(sm[key], so[key]):
                        kind = key.split(":")[0]
                        if kind in ("net", "td") and key in sm and _resynced(m, key, sm):
                            # a target/shared network that the algorithm re-synchronises with the copy's own online
                            # network on every copy may differ from the source's lagging target (C01's clause)
                            continue
                        what = {"attr": "attribute", "arch": "architecture", "net": "weights", "td": "detached-parameters",
                                "opt": "optimizer-state", "reg": "hyperparameter-config"}[kind]
                        if kind == "arch" and key in sm and key in so:
                            la, lb = str(so[key]).splitlines(), str(sm[key]).splitlines()
                            dl = [(x, y) for x, y in zip(la, lb) if x != y] or [("(layout)", "(layout)")]
                            detail = dl[0][0].strip().split(":")[0].strip("()")
                            so, sm = {**so, key: dl[0][0].strip()}, {**sm, key: dl[0][1].strip()}
                        else:
                            detail = key.split(":")[1].split("[")[0]
                        if (what, detail) in seen_cat:
                            continue
                        seen_cat.add((what, detail))
                        p.viol(f"{kp}/copy-differs-from-source/{what}/{detail}",
                               f"{algo}: {name} (copy of member {pos}) differs in {key}: source {str(so.get(key))[-160:]!r} copy {str(sm.get(key))[-160:]!r}", rp)
                        ok = False
                for i in range(P):
                    for attr in ("fitness", "scores", "steps"):
                        if getattr(m, attr, None) is getattr(members[i], attr):
                            p.viol(f"{kp}/copy-shares-list-with-old-member/{attr}", f"{algo}: {name}.{attr} is the very list object of old member {i}", rp)
                            ok = False
                shared = hpo.storages(sm)
                for i in range(P):
                    hit = [(shared[ptr], stor_before[i][ptr]) for ptr in shared if ptr in stor_before[i]]
                    if hit:
                        kind = hit[0][0].split(":")[0]
                        what = {"net": "weights", "td": "detached-parameters", "opt": "optimizer-state", "attr": "attribute"}.get(kind, kind)
                        p.viol(f"{kp}/copy-shares-tensor-storage/{what}",
                               f"{algo}: {name} shares tensor storage with old member {i}: {hit[:3]}", rp)
                        ok = False
                        break
            for (n1, s1), (n2, s2) in itertools.combinations(all_st, 2):
                a, b = hpo.storages(s1), hpo.storages(s2)
                hit = [(a[ptr], b[ptr]) for ptr in a if ptr in b]
                if hit:
                    kind = hit[0][0].split(":")[0]
                    what = {"net": "weights", "td": "detached-parameters", "opt": "optimizer-state", "attr": "attribute"}.get(kind, kind)
                    p.viol(f"{kp}/copy-shares-tensor-storage/{what}", f"{algo}: {n1} and {n2} share tensor storage: {hit[:3]}", rp)
                    ok = False
                    break
        if ok_sel:
            dup = any(len(set(Dj)) < len(Dj) for Dj in draws)
            if dup or len(set(levels)) < 3:
                p.nt(f"real:{algo}:{'E' if el else 'n'}:{''.join(map(str, levels))}:{'dup' if dup else 'nodup'}")
            p.out(f"real:{algo}:{'E' if el else 'n'}:{''.join(map(str, src))}")
        p.dg(draws, src, ok)
    # the same selection through the wiring every training loop uses (selection followed by a no-op mutation pass)
    if task.get("point") is None or task.get("wired"):
        from agilerl.hpo.mutation import Mutations
        from agilerl.utils.utils import tournament_selection_and_mutation

        draws = first_script if task.get("wired") else scripts[0]
        rp = {**base, "point": draws, "wired": True}
        d = Draws(P, k, lambda c: draws[c] if c < len(draws) else [0] * k)
        parent_of, keep = {}, []
        orig_clone = EvolvableAlgorithm.clone

        def recording_clone2(self, *a, **kw):
            c = orig_clone(self, *a, **kw)
            keep.append(c)
            parent_of[id(c)] = self
            return c

        def root2(m):
            x, hops = m, 0
            while x is not None:
                for i, a in enumerate(members):
                    if x is a:
                        return i, hops
                x = parent_of.get(id(x))
                hops += 1
            return None, hops

        p.evaluations += 1
        p.transitions += 1
        p.traces += 1
        new = None
        with seeded(3), patched(np.random, "randint", d), patched(EvolvableAlgorithm, "clone", recording_clone2):
            try:
                mut = Mutations(no_mutation=1, architecture=0, new_layer_prob=0, parameters=0, activation=0, rl_hp=0, rand_seed=0)
                new = tournament_selection_and_mutation(pop, ts, mut, "verif-env", algo=algo, elite_path=None, save_elite=False)
            except HarnessError:
                raise
            except Exception as e:
                p.viol(f"TS/wired/exception/{type(e).__name__}", f"{algo}: tournament_selection_and_mutation raised {e!r}", rp)
        if new is not None:
            st_after = [hpo.agent_state(a) for a in pop]
            snaps_a = [(st_after[i]["attr:_index"], hpo.state_digest(st_after[i])) for i in range(P)]
            snaps_b = [(st_before[i]["attr:_index"], dig_before[i]) for i in range(P)]
            same_list = len(pop) == P and all(a is b for a, b in zip(pop, members))
            ok, src = judge_select(p, "TS/wired", members, scores, snaps_b, snaps_a, cfg, draws, d.calls, None, new, set(range(P)), root2, rp, same_list)
            p.dg("wired", src, ok)
            if ok:
                p.out(f"wired:{algo}:{'E' if el else 'n'}:{''.join(map(str, src))}")
    p.states += 1
    p.sample({"layer": "b", "algo": algo, "tie_levels": list(levels), "elitism": el, "select_calls": len(scripts),
              "fitness": [list(a.fitness) for a in members], "last_case": {"draws_per_child": draws, "sources_of_new_population": src}})


def run_task(task):
    p = Partial()
    {"a1": run_a1, "a2": run_a2, "b": run_b}[task["layer"]](task, p)
    return p
