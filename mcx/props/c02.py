"""C02 — after any mutation an agent is coherent: optimizers, targets and critics follow.

E2: exhaustive enumeration of generation sequences (select -> mutate -> learn) on real populations of
two agents, with the mutation kind forced (one-hot probability vector) or enumerated (all 5x5 kind
assignments through the scripted rng), every advertised architecture method and every configured
hyper-parameter, pre-training and in-training mutation, mutate_elite on/off.
"""
from __future__ import annotations

import copy
import itertools

import numpy as np
import torch

from agilerl.hpo.mutation import Mutations
from agilerl.hpo.tournament import TournamentSelection

from ..core import HarnessError, Partial
from ..fixtures import agentops as O
from ..fixtures import agents as A
from ..rand import seeded
from . import c01

LEVEL = "model_checking"
RULE = (
    "all generation sequences (tournament select, Mutations.mutation, learn) up to the stated depth on real populations of 2: first "
    "generation over the full alphabet {none, Ma(every advertised method), Mp, Mact, Mh(every hp)} x {pre-training, in-training} x "
    "{mutate_elite T/F}, plus all 25 mixed kind assignments via the scripted rng; deeper generations over the reduced alphabet; oracle after "
    "every mutation() and after the following learn(); states = distinct (algo, config, architecture signature pair); non-trivial = mutations "
    "that really changed an architecture or a learning rate; outcomes = distinct (algo, kind, reported mut label)"
)
ASSUMPTIONS = [
    "tiny networks; module-internal np.random draws of an architecture method are pinned by seed (two seeds per method)",
    "the label an agent reports must equal the forced kind ('None' where the library itself documents an exemption)",
    "a target/shared network must equal its eval network right after mutation() (the library re-creates it from the eval network)",
]

REDUCED = ["Ma0", "Mp", "Mh0", "none"]
ACT_EXEMPT = ["PPO", "DDPG", "TD3", "IPPO", "MADDPG", "MATD3"]
KIND_FUN = O.KINDS


def bounds(tier):
    q = tier == "quick"
    return {
        "algorithms": A.ALGOS, "obs_kinds": ["vector"] if q else ["vector", "image", "dict", "discrete"],
        "population": 2, "depth": "1 full alphabet (+ depth 2 full x reduced)" if q else "2 full x full (+ depth 3 reduced)",
        "pre_training_mut": [False, True], "mutate_elite": [True, False], "mixed_kind_assignments": 25,
        "module_draw_seeds": [1, 2],
    }


def configs(tier):
    out = []
    for algo in A.ALGOS:
        for kind in bounds(tier)["obs_kinds"]:
            if kind not in A.kinds_for(algo):
                continue
            for se in c01.SHARE.get(algo, [None]):
                if se is False and kind != "vector":
                    continue
                out.append({"algo": algo, "kind": kind, "share": se})
    return out


def tasks(tier, seed):
    out = []
    for cfg in configs(tier):
        cost = 3 if cfg["algo"] in A.MULTI else 1
        for i in range(22):
            out.append({**cfg, "tier": tier, "first": i, "_cost": cost * 5})
        out.append({**cfg, "tier": tier, "first": "mixed", "_cost": cost * 12})
    return out


def alphabet(agent):
    return ["none"] + [f"Ma:{m}" for m in O.arch_methods(agent)] + ["Mp", "Mact"] + [f"Mh:{h}" for h in O.hp_names(agent)]


# ------------------------------------------------------------------------------------------ one generation
def arch_vec(mod):
    return O.arch_sig(mod)


def snapshot(agent):
    nets = O.networks(agent)
    return {
        "arch": {a: [arch_vec(m) for m in ms] for a, ms in nets.items()},
        "lr": {cfg.lr: getattr(agent, cfg.lr) for cfg in agent.registry.optimizers},
        "hp": {h: getattr(agent, h) for h in O.hp_names(agent)},
        "clones": {g.eval: [m.clone() for m in nets[g.eval]] for g in agent.registry.groups if not g.policy},
        "index": agent.index,
    }


def do_generation(p, pop, gen, cfg, rp, pre_training, mutate_elite, kinds=None, mseed=1, step=0):
    """select (unless pre-training) -> mutate -> oracle -> learn -> oracle. gen: op symbol applied to every member
    (or kinds = explicit per-member kind list for the mixed case). returns new population or None"""
    algo, kind = cfg["algo"], cfg["kind"]
    kp = f"{algo}/mutation"
    if not pre_training:
        for i, a in enumerate(pop):
            a.fitness.append(float(i + step))
        ts = TournamentSelection(2, True, len(pop), 1)
        with seeded(step + 7):
            _, pop = ts.select(pop)
    # --- build the Mutations object
    sym = gen
    res = [c01.resolve(a, sym) if sym in ("Ma0", "Mh0") else sym for a in pop]
    if kinds is None:
        k0 = res[0]
        kname = "none" if k0 == "none" else "arch" if k0.startswith("Ma:") else "param" if k0 == "Mp" else "act" if k0 == "Mact" else "hp"
        if pre_training and kname == "none":
            return pop  # not expressible: pre-training mutation removes the no-mutation option
        m = O.mutations(kname, seed=mseed, mutate_elite=mutate_elite)
        method = k0[3:] if kname == "arch" else None
        hp = k0[3:] if kname == "hp" else None
        exp_kinds = [kname] * len(pop)
    else:
        with seeded(mseed):
            m = Mutations(no_mutation=1, architecture=1, new_layer_prob=0.5, parameters=1, activation=1, rl_hp=1, mutate_elite=mutate_elite, rand_seed=mseed)
        method = O.arch_methods(pop[0])[0] if O.arch_methods(pop[0]) else None
        hp = O.hp_names(pop[0])[0]
        m.rng = O.ForcedRng(mseed, method=method, kinds=[KIND_FUN[k] for k in kinds])
        exp_kinds = list(kinds)
    if kinds is None:
        m.rng = O.ForcedRng(mseed, method=method)
    if not mutate_elite:
        exp_kinds[0] = "none"
    if method is not None and any(k == "arch" for k in exp_kinds):
        for a, k in zip(pop, exp_kinds):
            if k == "arch" and method not in O.arch_methods(a):
                raise c01.NotEnabled(method)
    before = [snapshot(a) for a in pop]
    ids_before = [id(a) for a in pop]
    # record what the policy mutation returned (method really applied + arguments)
    applied = []
    orig_apply = m._apply_arch_mutation

    def rec(networks, mut_method, applied_mut_dict=None):
        out = orig_apply(networks, mut_method, applied_mut_dict) if applied_mut_dict is not None else orig_apply(networks, mut_method)
        if applied_mut_dict is None:
            applied.append(out)
        return out

    m._apply_arch_mutation = rec
    names = O.hp_names(pop[0])

    def fake_randperm(n, *a, **k):
        if hp is not None and n == len(names):
            idx = names.index(hp)
            return torch.tensor([idx] + [i for i in range(n) if i != idx])
        return real_randperm(n, *a, **k)

    real_randperm = torch.randperm
    torch.randperm = fake_randperm
    try:
        with seeded(mseed):
            new = m.mutation(pop, pre_training_mut=pre_training)
    except HarnessError:
        raise
    except Exception as e:
        p.viol(f"{kp}/exception/{exp_kinds[-1]}/{type(e).__name__}", f"Mutations.mutation raised {e!r} (gen {gen}, kinds {exp_kinds})"[:300], rp)
        return None
    finally:
        torch.randperm = real_randperm
    p.transitions += 1
    # ---- population shape
    if len(new) != len(pop):
        p.viol(f"{kp}/population-size", f"{len(pop)} -> {len(new)}", rp)
        return None
    if [a.index for a in new] != [b["index"] for b in before]:
        p.viol(f"{kp}/population-order", f"indices {[b['index'] for b in before]} -> {[a.index for a in new]}", rp)
    ai = 0
    for i, (a, b, ek) in enumerate(zip(new, before, exp_kinds)):
        nets = O.networks(a)
        pol_name = a.registry.policy
        # ---- label
        lab = a.mut
        changed_arch = {n: [arch_vec(x) for x in ms] != b["arch"][n] for n, ms in nets.items()}
        if ek == "none":
            want = ["None"]
        elif ek == "param":
            want = ["param"]
        elif ek == "act":
            want = ["None"] if algo in ACT_EXEMPT else ["act", "None"]
        elif ek == "hp":
            want = [hp]
        else:
            pm = applied[ai][0] if ai < len(applied) else None
            ai += 1
            pm = pm[0] if isinstance(pm, list) else pm
            want = [pm if pm is not None else "None"] if method is not None else ["None"]
        if lab is None:
            lab = "None"  # a blocked architecture mutation reports None
        if lab not in want:
            p.viol(f"{kp}/label/{ek}", f"agent {i} reports mut={lab!r}, expected one of {want} (kinds {exp_kinds})", rp, observed=lab, expected=want)
        p.out([algo, ek, str(lab)])
        if ek == "none" and (any(changed_arch.values()) or {h: getattr(a, h) for h in b["hp"]} != b["hp"]):
            p.viol(f"{kp}/no-mutation-changed-agent", f"agent {i} (no mutation) changed architecture/hyper-parameters", rp)
        if ek == "hp":
            moved = [h for h in b["hp"] if getattr(a, h) != b["hp"][h]]
            if len(moved) > 1 or (moved and moved != [hp]):
                p.viol(f"{kp}/hp/wrong-parameter-changed", f"agent {i}: {moved} changed, sampled {hp}", rp)
            if moved:
                p.nt([algo, kind, "hp", hp])
        if ek == "arch" and any(changed_arch.values()):
            p.nt([algo, kind, "arch", method])
        # ---- optimizers
        probs = O.opt_owns_live_params(a)
        if probs:
            p.viol(f"{kp}/optimizer-not-on-live-parameters/{ek}", f"agent {i} after {ek}: {probs}", rp)
        for oc in a.registry.optimizers:
            ow = getattr(a, oc.name)
            lrs = {g["lr"] for o in O.opt_list(ow) for g in o.param_groups}
            if lrs != {getattr(a, oc.lr)}:
                p.viol(f"{kp}/optimizer-lr/{ek}", f"agent {i} after {ek}: {oc.name} groups have lr {sorted(lrs)} but {oc.lr}={getattr(a, oc.lr)}", rp,
                       observed=sorted(lrs), expected=getattr(a, oc.lr))
        # ---- targets / shared
        for sh, ev in c01.shared_names(a).items():
            for j, (t, e) in enumerate(zip(nets[sh], nets[ev])):
                te, tt = O.module_tensors(e), O.module_tensors(t)
                if type(t) is not type(e) or [(k, tuple(v.shape)) for k, v in sorted(te.items())] != [(k, tuple(v.shape)) for k, v in sorted(tt.items())] or repr(t) != repr(e):
                    p.viol(f"{kp}/target-architecture/{ek}:{sh}", f"agent {i}: {sh}[{j}] does not have the architecture of {ev}[{j}] after {ek}", rp)
                elif not O.module_values_equal(t, e):
                    # shared encoders: the target's encoder is pinned to the policy encoder by the hook
                    diff = [k for k in te if not torch.equal(te[k], tt[k])]
                    pol = O.module_tensors(O.policy_of(a))
                    if getattr(a, "share_encoders", False) and all(k.startswith("encoder.") and k in pol and torch.equal(tt[k], pol[k]) for k in diff):
                        continue
                    p.viol(f"{kp}/target-weights/{ek}:{sh}", f"agent {i}: {sh}[{j}] != {ev}[{j}] right after {ek} ({diff[:2]})", rp)
        # ---- shared encoders
        if getattr(a, "share_encoders", False):
            pol = O.module_tensors(O.policy_of(a))
            for n, ms in nets.items():
                if n == pol_name:
                    continue
                for j, mm in enumerate(ms):
                    if not hasattr(mm, "encoder"):
                        continue
                    tt = O.module_tensors(mm)
                    bad = [k for k in tt if k.startswith("encoder.") and (k not in pol or tt[k].shape != pol[k].shape or not torch.equal(tt[k], pol[k]))]
                    if bad:
                        p.viol(f"{kp}/shared-encoder-out-of-sync/{ek}:{n}", f"agent {i}: {n}[{j}].{bad[0]} differs from the policy encoder after {ek}", rp)
        # ---- critics follow the policy
        if ek == "arch" and method is not None and ai - 1 < len(applied):
            am, md = applied[ai - 1]
            for g in a.registry.groups:
                if g.policy:
                    continue
                for j, (cl, now) in enumerate(zip(b["clones"][g.eval], nets[g.eval])):
                    amj = am[j] if isinstance(am, list) else am
                    mdj = md[j] if isinstance(md, list) else md
                    try:
                        if amj is not None:
                            with seeded(mseed):
                                getattr_path(cl, amj)(**(mdj or {}))
                        if arch_vec(cl) != arch_vec(now):
                            p.viol(f"{kp}/critic-did-not-follow/{amj}:{g.eval}", f"agent {i}: {g.eval}[{j}] after policy mutation {amj}({mdj}) differs from applying the same method to its pre-mutation clone", rp)
                    except HarnessError:
                        raise
                    except Exception as e:
                        p.extra["reference_critic_mutation_failed"] += 1
        # ---- can act
        try:
            ga = A.greedy_action(a, A.probe_obs(algo, kind))
            if not np.all(np.isfinite(np.asarray(ga, dtype=np.float64))):
                p.viol(f"{kp}/get_action-nonfinite/{ek}", f"agent {i} returns non-finite actions after {ek}", rp)
        except HarnessError:
            raise
        except Exception as e:
            p.viol(f"{kp}/get_action-exception/{ek}/{type(e).__name__}", f"agent {i} after {ek}: {e!r}"[:300], rp)
    sig = tuple(O.hashlib.sha1(repr([arch_vec(mm) for ms in O.networks(a).values() for mm in ms]).encode()).hexdigest()[:8] for a in new)
    p._states.add((algo, kind, cfg["share"], sig))
    p.dg(algo, kind, gen, exp_kinds, sig, [a.mut for a in new])
    # ---- learn really moves every trained network
    for i, a in enumerate(new):
        nets = O.networks(a)
        trained = {n for oc in a.registry.optimizers for n in oc.networks}
        w0 = {n: [{k: v.detach().clone() for k, v in mm.named_parameters()} for mm in nets[n]] for n in trained}
        try:
            for r in range(getattr(a, "policy_freq", 1)):
                A.learn(a, A.batch_for(a, algo, kind, seed=step), seed=step + r)
        except HarnessError:
            raise
        except Exception as e:
            p.viol(f"{kp}/learn-exception/{exp_kinds[i]}/{type(e).__name__}", f"learn after {exp_kinds[i]} raised {e!r}"[:300], rp)
            return None
        nets = O.networks(a)
        for n in trained:
            for j, mm in enumerate(nets[n]):
                now = dict(mm.named_parameters())
                if not now:
                    continue
                if sorted(now) != sorted(w0[n][j]) or not any(not torch.equal(now[k], w0[n][j][k]) for k in now):
                    p.viol(f"{kp}/learn-does-not-move/{exp_kinds[i]}:{n}", f"agent {i}: no parameter of {n}[{j}] changed in a learn step after {exp_kinds[i]}", rp)
        probs = O.opt_owns_live_params(a)
        if probs:
            p.viol(f"{kp}/optimizer-detached-after-learn/{exp_kinds[i]}", f"{probs}", rp)
    return new


def getattr_path(obj, path):
    for part in path.split("."):
        obj = getattr(obj, part)
    return obj


def check_sequence(p, cfg, seq):
    """seq: list of generation descriptors {gen|kinds, pre, elite, mseed}"""
    rp = {**cfg, "sequence": seq}
    p.evaluations += 1
    p.traces += 1
    pop = [c01.build(cfg) for _ in range(2)]
    for i, a in enumerate(pop):
        a.index = i
    # make the members different and give the optimizers state
    for i, a in enumerate(pop):
        for r in range(getattr(a, "policy_freq", 1)):
            A.learn(a, A.batch_for(a, cfg["algo"], cfg["kind"], seed=40 + i), seed=40 + i + r)
    try:
        for step, g in enumerate(seq):
            pop = do_generation(p, pop, g.get("gen"), cfg, rp, g.get("pre", False), g.get("elite", True), kinds=g.get("kinds"), mseed=g.get("mseed", 1), step=step)
            if pop is None:
                return
    except c01.NotEnabled:
        p.evaluations -= 1
        p.traces -= 1
        p.extra["sequences_with_op_not_enabled"] += 1


def run_task(task):
    p = Partial()
    p._states = set()
    cfg = {k: task[k] for k in ("algo", "kind", "share")}

    def fin():
        p.states = len(p._states)
        del p._states
        return p

    if "sequence" in task:
        check_sequence(p, cfg, task["sequence"])
        return fin()
    tier = task["tier"]
    base = c01.build(cfg)
    sigma = alphabet(base)
    del base
    seqs = []
    if task["first"] == "mixed":
        ks = ["none", "arch", "param", "act", "hp"]
        for ka, kb in itertools.product(ks, ks):
            seqs.append([{"kinds": [ka, kb], "elite": True}])
        seqs.append([{"kinds": ["arch", "hp"], "elite": False}])
    else:
        if task["first"] >= len(sigma):
            return fin()
        f = sigma[task["first"]]
        for pre in (False, True):
            for elite in (True, False):
                seqs.append([{"gen": f, "pre": pre, "elite": elite}])
        if f.startswith("Ma:"):
            seqs.append([{"gen": f, "mseed": 2}])
        second = REDUCED if tier == "quick" else sigma
        for s in second:
            seqs.append([{"gen": f}, {"gen": s}])
        if tier != "quick" and (f in ("Mp", "none") or f == sigma[1]):
            for s2 in REDUCED:
                for s3 in REDUCED:
                    seqs.append([{"gen": f}, {"gen": s2}, {"gen": s3}])
    for s in seqs:
        check_sequence(p, cfg, s)
    if seqs:
        p.sample({"config": cfg, "sequence": seqs[-1]})
    return fin()
