"""C07 — a saved checkpoint restores an equivalent agent.

E2: exhaustive enumeration of histories over {L, Ma(m), Mp, Mact, Mh(h)} up to the stated depth on
real agents; a checkpoint is written after every history (= after every prefix of every longer
history: the crash points), restored through both load paths, compared strictly (targets and
optimizer state included) and then original and restored agent are driven through the same
continuation (learn, learn, architecture mutation, learn) with equal seeds and batches.
"""
from __future__ import annotations

import os
import shutil
import tempfile

import numpy as np
import torch

from ..core import HarnessError, Partial
from ..fixtures import agentops as O
from ..fixtures import agents as A
from ..rand import seeded
from . import c01

LEVEL = "model_checking"
RULE = (
    "all histories over {L, Ma(every advertised method), Mp, Mact, Mh(every hp)} up to the stated depth (full alphabet first, reduced "
    "alphabet deeper) on real tiny agents; after each history: save, restore via Algo.load and via fresh.load_checkpoint (and wrapper "
    "variants), strict comparison incl. target networks and optimizer state, then an identical continuation on both; states = distinct "
    "(algo, config, architecture signature, optimizer-has-state) at which a checkpoint was taken; non-trivial = saves taken after >=1 learn and "
    ">=1 architecture mutation; outcomes = distinct (algo, load path, architecture signature)"
)
ASSUMPTIONS = [
    "tiny networks; checkpoint files in a per-process temp dir under /var/tmp, removed after each case",
    "module-internal np.random draws of architecture mutations are pinned by seed",
    "the RNG is pinned (seed 5) while load()/load_checkpoint() build their fresh networks, so that two restores of one file are comparable",
]

REDUCED = ["L", "Ma0", "Mp", "Mh0"]
SHARE = c01.SHARE


def bounds(tier):
    q = tier == "quick"
    return {
        "algorithms": A.ALGOS + ["DQN+RSNorm", "DDPG+RSNorm", "TD3+RSNorm"],
        "obs_kinds": ["vector", "discrete"] if q else ["vector", "image", "dict", "tuple", "discrete"],
        "depth": "<=1 full alphabet + depth 2 (full x reduced)" if q else "<=2 full alphabet + depth 3 (reduced^3)",
        "load_paths": ["Algo.load", "fresh.load_checkpoint"],
        "continuation": ["L", "L", "Ma0", "L"],
    }


def configs(tier):
    out = c01.configs(tier)
    # agent-wrapper variant (RSNorm supports the off-policy learners; vector observations)
    for algo, share in (("DQN", None), ("DDPG", True), ("TD3", True)):
        out.append({"algo": algo, "kind": "vector", "share": share, "wrapper": "RSNorm"})
    return out


def tasks(tier, seed):
    out = []
    for cfg in configs(tier):
        cost = 3 if cfg["algo"] in A.MULTI else 1
        out.append({**cfg, "tier": tier, "first": None, "_cost": cost})
        for i in range(24):
            out.append({**cfg, "tier": tier, "first": i, "_cost": cost * (6 if tier == "quick" else 30)})
    return out


def alphabet(agent, wrapped=False):
    ops = ["L"] + (["A"] if wrapped else [])
    ops += [f"Ma:{m}" for m in O.arch_methods(agent)]
    ops += ["Mp", "Mact"]
    ops += [f"Mh:{h}" for h in O.hp_names(agent)]
    return ops


def build(cfg):
    agent = c01.build(cfg)
    if cfg.get("wrapper") == "RSNorm":
        from agilerl.wrappers.agent import RSNorm

        agent = RSNorm(agent)
    return agent


def inner(agent):
    return getattr(agent, "agent", agent)


def apply_op(agent, op, cfg, step):
    if cfg.get("wrapper"):
        algo, kind = cfg["algo"], cfg["kind"]
        if op == "A":  # act in training mode: moves the wrapper's running statistics
            with seeded(step):
                if algo == "DQN":
                    agent.get_action(A.sample_obs(A.obs_space(kind), 3, np.random.default_rng(step)), epsilon=0.0)
                else:
                    agent.get_action(A.sample_obs(A.obs_space(kind), 3, np.random.default_rng(step)), training=True)
            return agent
        if op == "L":  # learn through the wrapper (normalises the batch with the current statistics)
            for r in range(getattr(inner(agent), "policy_freq", 1)):
                b = A.batch_for(inner(agent), algo, kind, seed=step)
                with seeded(step + r):
                    if algo in ("DDPG", "TD3"):
                        agent.learn(b, policy_noise=0.0)
                    else:
                        agent.learn(b)
            return agent
        # mutations and clones act on the wrapper exactly as on a bare agent (populations of wrappers)
        return c01.apply_op(agent, op, cfg, step)
    return c01.apply_op(agent, op, cfg, step)


def rms_state(w):
    """flat {name: array} of the wrapper's running statistics"""
    out = {}
    rms = getattr(w, "obs_rms", None)
    items = rms.items() if isinstance(rms, dict) else enumerate(rms) if isinstance(rms, tuple) else [("", rms)]
    for k, r in items:
        for f in ("mean", "var", "count"):
            v = getattr(r, f, None)
            if v is not None:
                out[f"{k}.{f}"] = np.asarray(v.detach().cpu() if hasattr(v, "detach") else v, dtype=np.float64)
    return out


def strict_compare(p, P, R, cfg, hist, path_name, rp):
    algo = cfg["algo"] + ("+" + cfg["wrapper"] if cfg.get("wrapper") else "")
    ok = True

    def v(aspect, text):
        nonlocal ok
        ok = False
        p.viol(f"{algo}/checkpoint/{path_name}/{aspect}", f"after history {hist}: {text}"[:400], rp)

    if type(P) is not type(R):
        v("class", f"{type(R).__name__} instead of {type(P).__name__}")
        return False
    if cfg.get("wrapper"):
        da, db = rms_state(P), rms_state(R)
        if not da:
            raise HarnessError("RSNorm statistics not found on the wrapper")
        if sorted(da) != sorted(db) or any(da[x].shape != db[x].shape or not np.array_equal(da[x], db[x]) for x in da):
            v("wrapper-statistics", f"running observation statistics differ: {[x for x in da if x not in db or not np.array_equal(da[x], db[x])][:3]}")
    Pi, Ri = inner(P), inner(R)
    ia, ib = type(Pi).inspect_attributes(Pi, input_args_only=True), type(Ri).inspect_attributes(Ri, input_args_only=True)
    for k in sorted(set(ia) | set(ib)):
        if k in ("wrap", "device", "accelerator"):
            continue
        if not O.init_dict_equal(ia.get(k), ib.get(k)):
            v(f"hyperparameter:{k}", f"{k}: saved {ia.get(k)!r} restored {ib.get(k)!r}")
    if repr(O.hp_state(Pi)) != repr(O.hp_state(Ri)):
        v("registry-hp-values", f"{O.hp_state(Pi)} vs {O.hp_state(Ri)}")
    if (Pi.index, Pi.mut, list(Pi.scores), list(Pi.fitness), list(Pi.steps)) != (Ri.index, Ri.mut, list(Ri.scores), list(Ri.fitness), list(Ri.steps)):
        v("bookkeeping", f"{(Pi.index, Pi.mut, Pi.scores, Pi.fitness, Pi.steps)} vs {(Ri.index, Ri.mut, Ri.scores, Ri.fitness, Ri.steps)}")
    np_, nr = O.networks(Pi), O.networks(Ri)
    shared = c01.shared_names(Pi)
    if sorted(np_) != sorted(nr):
        v("network-attributes", f"{sorted(np_)} vs {sorted(nr)}")
        return False
    for attr in np_:
        if len(np_[attr]) != len(nr[attr]):
            v(f"network-count:{attr}", "")
            continue
        for i, (m1, m2) in enumerate(zip(np_[attr], nr[attr])):
            why = O.modules_equal(m1, m2)
            if why is None:
                continue
            kind = "target" if attr in shared else "network"
            if why == "weights" and kind == "network" and attr != Pi.registry.policy and getattr(Pi, "share_encoders", False):
                # a critic's copy of the shared encoder is rebuilt from the policy encoder by the hook: functionally unused
                t1, t2 = O.module_tensors(m1), O.module_tensors(m2)
                diff = [k for k in t1 if not torch.equal(t1[k], t2[k])]
                pol = O.module_tensors(O.policy_of(Ri))
                if all(k.startswith("encoder.") and k in pol and torch.equal(t2[k], pol[k]) for k in diff):
                    continue
            v(f"{kind}-{why}:{attr}", f"{attr}[{i}] differs in {why}")
    op_, or_ = O.optimizers(Pi), O.optimizers(Ri)
    if sorted(op_) != sorted(or_):
        v("optimizer-attributes", f"{sorted(op_)} vs {sorted(or_)}")
    else:
        for name in op_:
            why = O.opt_equal(op_[name], or_[name])
            if why:
                v(f"{why}", f"optimizer {name}: {why}")
        probs = O.opt_owns_live_params(Ri)
        if probs:
            v("optimizer-not-on-live-parameters", f"{probs}")
    ta, tb = O.tensor_attrs(Pi), O.tensor_attrs(Ri)
    for k in sorted(set(ta) | set(tb)):
        base = k.split(".")[0]
        if base in ("param_vals", "target_params"):
            continue
        if k not in ta or k not in tb or ta[k].shape != tb[k].shape or not torch.equal(ta[k], tb[k]):
            v(f"tensor-attribute:{base}", f"{k} differs")
    if ok:
        obs = A.probe_obs(cfg["algo"], cfg["kind"])
        try:
            if cfg.get("wrapper"):
                # the wrapper patches the inner agent's get_action and updates its statistics in training mode: probe in eval mode
                Pi.set_training_mode(False)
                Ri.set_training_mode(False)
            try:
                ga, gb = A.greedy_action(Pi, obs), A.greedy_action(Ri, obs)
            finally:
                if cfg.get("wrapper"):
                    Pi.set_training_mode(True)
                    Ri.set_training_mode(True)
            if ga.shape != gb.shape or not np.array_equal(ga, gb):
                v("greedy-actions", "greedy actions differ")
        except Exception as e:
            v(f"get_action-exception/{type(e).__name__}", repr(e)[:200])
    return ok


def check_history(p: Partial, cfg, hist):
    algo = cfg["algo"] + ("+" + cfg["wrapper"] if cfg.get("wrapper") else "")
    rp = {**cfg, "history": hist}
    p.evaluations += 1
    p.traces += 1
    agent = build(cfg)
    step = 0
    try:
        for op in hist:
            step += 1
            agent = apply_op(agent, op, cfg, step)
            p.transitions += 1
    except HarnessError:
        raise
    except c01.NotEnabled:
        p.evaluations -= 1
        p.traces -= 1
        p.extra["histories_with_op_not_enabled"] += 1
        return
    except Exception as e:
        p.extra["histories_aborted_by_op_exception"] += 1
        p.out(["aborted", algo, op.split(":")[0], type(e).__name__])
        return
    P = agent
    Pi = inner(P)
    has_state = any(len(o.state) for ow in O.optimizers(Pi).values() for o in O.opt_list(ow))
    sig = tuple(O.arch_sig(m) for mods in O.networks(Pi).values() for m in mods)
    sig_h = O.hashlib.sha1(repr(sig).encode()).hexdigest()[:10]
    p._states.add((algo, cfg["kind"], cfg["share"], sig_h, has_state))
    p.dg(algo, cfg["kind"], hist, sig_h)
    if "L" in hist and any(o.startswith("Ma") for o in hist):
        p.nt([algo, cfg["kind"], cfg["share"], hist])
    d = tempfile.mkdtemp(prefix="c07_", dir=os.environ.get("VERIF_TMP", "/var/tmp"))
    try:
        path = os.path.join(d, "ck.pt")
        try:
            P.save_checkpoint(path)
        except Exception as e:
            p.viol(f"{algo}/checkpoint/save/exception/{type(e).__name__}", f"save after {hist}: {e!r}"[:300], rp)
            return
        restored = {}
        for pname in ("load", "load_checkpoint"):
            try:
                with seeded(5):
                    if pname == "load":
                        R = type(Pi).load(path)  # returns the wrapper again when one was saved
                    else:
                        R = build(cfg)
                        R.load_checkpoint(path)
            except Exception as e:
                p.viol(f"{algo}/checkpoint/{pname}/exception/{type(e).__name__}", f"{pname} after {hist}: {e!r}"[:300], rp)
                continue
            p.out([algo, pname, sig_h])
            if strict_compare(p, P, R, cfg, hist, pname, rp):
                restored[pname] = R
    finally:
        shutil.rmtree(d, ignore_errors=True)
    # ---- continuation: same ops, same seeds, same batches on original and restored
    cont = ["L", "L", "Ma0", "L"] if not cfg.get("wrapper") else ["A", "L", "L", "Ma0", "L"]
    agents_ = {"orig": P, **restored}
    alive = dict(agents_)
    for i, op in enumerate(cont):
        for name in list(alive):
            try:
                alive[name] = apply_op(alive[name], op, cfg, 50 + i)
            except HarnessError:
                raise
            except Exception as e:
                if name == "orig":
                    p.extra["continuation_aborted_on_original"] += 1
                    return
                p.viol(f"{algo}/checkpoint/{name}/continuation-exception/{type(e).__name__}", f"{op} on the restored agent after {hist}: {e!r}"[:300], rp)
                del alive[name]
        fo = {k: v for k, v in O.fingerprint(inner(alive["orig"])).items() if k.startswith(("net:", "opt:"))}
        if cfg.get("wrapper"):
            fo["rms"] = repr({k: v.tolist() for k, v in rms_state(alive["orig"]).items()})
        for name in list(alive):
            if name == "orig":
                continue
            fr = {k: v for k, v in O.fingerprint(inner(alive[name])).items() if k.startswith(("net:", "opt:"))}
            if cfg.get("wrapper"):
                fr["rms"] = repr({k: v.tolist() for k, v in rms_state(alive[name]).items()})
            dd = O.fp_diff(fo, fr)
            if dd:
                cls = sorted({O.classify_tensor_name(x) if ":" in x else x for x in dd})
                p.viol(f"{algo}/checkpoint/{name}/continuation-diverges", f"after history {hist} + continuation {cont[:i+1]}: original and restored differ in {cls[:4]}", rp)
                del alive[name]


def run_task(task):
    p = Partial()
    p._states = set()
    cfg = {k: task.get(k) for k in ("algo", "kind", "share", "wrapper") if k in task}
    cfg.setdefault("share", None)

    def fin():
        p.states = len(p._states)
        del p._states
        return p

    if "history" in task:
        check_history(p, cfg, task["history"])
        return fin()
    tier = task["tier"]
    base = build(cfg)
    sigma = alphabet(inner(base), wrapped=bool(cfg.get("wrapper")))
    del base
    if task["first"] is None:
        check_history(p, cfg, [])
        p.sample({"config": cfg, "history": []})
        return fin()
    if task["first"] >= len(sigma):
        return fin()
    f = sigma[task["first"]]
    hists = [[f]]
    if tier == "quick":
        hists += [[f, r] for r in REDUCED]
    else:
        hists += [[f, s] for s in sigma]
        if f in ("L", "Mp") or f == sigma[1]:
            hists += [[f, r2, r3] for r2 in REDUCED for r3 in REDUCED]
    for h in hists:
        check_history(p, cfg, h)
    p.sample({"config": cfg, "history": hists[-1]})
    return fin()
