"""C14 — every selected action is a legal member of the action space.

E3 lattice.  For every algorithm an exhaustive product over action space x observation kind x batch form x
all non-empty masks x epsilon x training flag x noise flag x ENUMERATED NETWORK OUTPUTS x SCRIPTED RANDOM DRAWS,
every point executed on the real ``get_action`` and judged by an independent numpy reference:

  * batch shape of the result = batch shape of the observation,
  * index range / bounds (discrete always; DDPG/TD3/MADDPG/MATD3 both modes; PPO/IPPO evaluation mode),
  * a masked action is never returned while >=1 action is allowed,
  * exploration off  =>  the choice maximises the policy output over the allowed actions (any maximiser on ties).

Two sub-lattices per (algorithm, action space):
  W  ("wide")  : the FULL product outputs x masks x draws x flags.  Rows of one call are independent, so the
                 mask x draw product is laid out along the batch axis of a single call (vector observations);
                 every row is judged separately.
  S  ("shape") : observation kind x batch form {unbatched,1,3} x all masks (row i of a batch gets mask m+i, every
                 mask visits every row) x epsilon/flags x a reduced output set x a reduced draw-script set.
Family modules: mcx/fixtures/c14_*.py
"""
from __future__ import annotations

from ..core import HarnessError, Partial
from ..fixtures import c14_common as cm

LEVEL = "exploration"
RULE = (
    "exhaustive nested product per algorithm (see bounds): network outputs are an enumerated input (output layer weight "
    "zeroed, bias / pre-activation = every vector over {-1e9,-1,0,1,1e9}), random draws are scripted answers "
    "(uniform {0,2^-24,0.5,1-2^-24}, normal {-10,0,10}); one evaluation = one real get_action call whose every row is "
    "judged (rows counted in counters.rows_judged); non-trivial = distinct (algorithm,space,mask,output vector) where "
    "the mask forbids the arg-max of the output, plus distinct (algorithm,space,output vector,noise) whose result touches "
    "a bound of the Box; outcome = distinct (algorithm,space,returned action or bound pattern)"
)
ASSUMPTIONS = [
    "masks are int64 0/1 arrays of shape (n,) for an unbatched observation and (B,n) for a batch (multi-agent: in infos[agent]['action_mask'])",
    "an unbatched observation may be answered with an unbatched action or with a batch of one; trailing singleton axes are not part of the batch shape",
    "'exploration off' = epsilon 0 (DQN, CQN), always (RainbowDQN), training=False (MADDPG/MATD3 discrete: arg-max of the GumbelSoftmax output, whose gumbel uniforms are scripted); PPO/IPPO have no greedy mode, for them only legality and masks are judged",
    "bandits have no switch: NeuralUCB must maximise its UCB score (= network output for gamma 1e-9; gamma must be > 0) and NeuralTS its sampled score (= network output for normal answer 0) over the allowed arms, up to a float32 error bound of 8 ulp per term",
    "bounds are judged numerically (low <= a <= high per component); the dtype test of Space.contains is not applied to continuous actions",
    "DDPG/TD3 vect_noise_dim equals the batch size of the observation (the documented use); OU state is reset to zero before every call",
    "RainbowDQN: the distributional head cannot express arbitrary q-values; its enumerated outputs are per-action atom profiles {mass on lowest atom, on middle atom, uniform, on highest atom} for supports [-1,0,1] and [-1e9,0,1e9]",
    "NeuralUCB/NeuralTS score one scalar per arm: per-arm outputs are driven through an identity path of the real network (mu_k = context_k[0]); sigma_inv is reset to lambda*I before every call",
    "rows of a batch are independent in every get_action (checked by the S lattice against the W lattice alphabets), which is what lets the W lattice place the mask x draw product along the batch axis",
    "env-defined actions offered to multi-agent get_action are legal members of the action space and allowed by the mask; a non-vectorised env gives an int / array / None per agent, a vectorised env an array with NaN where nothing is defined",
    "IPPO with squash_output is built from hand-made StochasticActor/ValueNetwork lists (IPPO(net_config={'squash_output': True}) cannot be constructed: the key is forwarded to ValueNetwork)",
    "DQN/CQN/RainbowDQN are run on Discrete(n) only (QNetwork also accepts MultiDiscrete but get_action then returns a flat index; not judged)",
]

FAMS = {}


def _fam(name):
    if name not in FAMS:
        import importlib

        FAMS[name] = importlib.import_module(f"mcx.fixtures.c14_{name}")
    return FAMS[name]


FAM_NAMES = ["q", "bandit", "det", "ppo", "madet", "ippo"]


def bounds(tier):
    b = {
        "uniform_answers": cm.U, "normal_answers": cm.Z, "output_values": cm.VALS,
        "observation_kinds": cm.OBS_KINDS, "batch_forms": ["unbatched", 1, 3],
    }
    for f in FAM_NAMES:
        b[f] = _fam(f).bounds(tier)
    return b


def tasks(tier, seed):
    out = []
    for f in FAM_NAMES:
        for t in _fam(f).tasks(tier):
            t["fam"] = f
            t["tier"] = tier
            out.append(t)
    return out


def run_task(task):
    p = Partial()
    fam = task.get("fam")
    if fam not in FAM_NAMES:
        raise HarnessError(f"unknown family in task {task!r}")
    _fam(fam).run(task, p)
    return p
