"""C19 — NeuralUCB / NeuralTS keep an exact inverse of their regularised Gram matrix.

E1/E2: bounded-depth exhaustive enumeration of operation histories on REAL agents. A state is a
history (op path); the live agent of a state is rebuilt by re-executing its path from the seeded
constructor (agents cannot be deep-copied faithfully: theta_0 is a non-leaf tensor). Histories whose
agents are bit-identical (same structural ops, same weights / sigma_inv / optimiser state / reference)
are merged. `act` and architecture mutations are undone in place (attribute bindings and sigma_inv content
and the `.grad` buffers restored, bitwise state hash re-verified), pure ops (clone, save->load) leave the parent
untouched (hash re-verified), every other op gets a freshly rebuilt agent. `.grad` buffers are not part of the
state hash; their real content flows from op to op exactly as in a plain execution of the history.

Reference model (independent of the implementation): a float64 Gram matrix A = lambda*I + sum v v^T over
the arms chosen since the matrix was last (re)initialised, v recomputed with torch.autograd.grad on the
parameters of `actor.get_output_dense()`.
"""
from __future__ import annotations

import hashlib
import json
import os
import shutil
import tempfile
import warnings

import numpy as np
import torch
from gymnasium import spaces
from tensordict import TensorDict

from agilerl.algorithms.neural_ts_bandit import NeuralTS
from agilerl.algorithms.neural_ucb_bandit import NeuralUCB
from agilerl.hpo.mutation import Mutations

from ..core import HarnessError, Partial
from ..rand import patched_many, seeded

LEVEL = "model_checking"
RULE = (
    "breadth-first enumeration of ALL operation histories up to the stated depth over the stated per-level alphabets "
    "(act(context, mask) / learn / architecture_mutate(method, scripted draws) / parameter_mutation / activation_mutation / "
    "Mutations.mutation(kind) / clone / save->load / save->load_checkpoint) on real NeuralUCB / NeuralTS agents for every "
    "(algorithm, context dim, arms, lambda, gamma); every op is executed on the real agent and judged (size, exp_layer identity, "
    "symmetry, positive definiteness, value vs float64 reference inverse, non-negative bonus of every arm); histories reaching "
    "bit-identical agents (same structural-op lineage + same weights/sigma_inv/optimiser/reference bytes) are merged; "
    "states = distinct canonical (lineage, bitwise) agent states per task summed; transitions = ops executed and judged; "
    "traces = histories (one per transition); the thorough depth-5 family re-executes its prefixes of length <=3 uncounted (they belong to the "
    "depth-3 schedule of the same configuration) and counts only histories of length 4 and 5; non-trivial = distinct (algorithm, dim, arms, resize n_old->n_new, method) for which "
    "a decision was judged after an output-layer resize that itself followed a decision; outcomes = distinct "
    "(algorithm, op kind, architecture signature, sigma size, verdict class)"
)
ASSUMPTIONS = [
    "gradient feature of an arm = d f(x_arm) / d(theta of actor.get_output_dense()) flattened in parameters() order, divided by sqrt(out_features of that layer) exactly as get_action scales it",
    "a context is an (arms x dim) float32 matrix, one row per arm, as train_bandits passes it; masks are 0/1 integer numpy arrays or None",
    "weights (seeded constructor), the NeuralTS normal draw, fresh-layer initialisation and the noise/index draws of parameter_mutation are pinned by a per-position seed; the chosen arm is enumerated through the masks; the mutation kind, the architecture method, its layer index and node count and the new activation are scripted (enumerated)",
    "weaker reading of 'since the matrix was last initialised': after mutate/clone/load the matrix may either continue (same size) or be freshly initialised, after which the reference restarts; after act and learn it must continue",
    "when init_params produces lambda*I instead of inv(lambda*I) the defect is reported under one key per algorithm and the reference is re-based on the observed matrix so that later defects are not masked",
    "tolerances: symmetry 1e-5 (abs, scaled by max(1,|S|max)); value: relative Frobenius error 1e-3 against the float64 inverse; eigenvalues of the symmetrised float64 matrix > 0",
    "network bounds chosen so that the scripted node counts (16/32/64, 8/16/32) exercise both effective and limit-hitting mutations: hidden [4], min/max nodes 2/40, latent 4 in [2,16], 1..3 layers",
]

ALGOS = {"NeuralUCB": NeuralUCB, "NeuralTS": NeuralTS}
DIMS = [2, 3]
ARMS = [2, 3]
LAMBS = [0.5, 1.0, 2.0]
GAMMAS = [0.1, 1.0]

# deep configurations (one more level with the reduced alphabet)
DEEP_QUICK = [("NeuralUCB", 2, 3, 0.5, 1.0), ("NeuralUCB", 3, 2, 2.0, 0.1), ("NeuralTS", 2, 3, 2.0, 1.0), ("NeuralTS", 3, 2, 0.5, 0.1)]
DEEP_THOROUGH = list(DEEP_QUICK)
# depth-5 family (small alphabets) on two configurations that are not in the deep set
LONG_THOROUGH = [("NeuralUCB", 3, 3, 1.0, 1.0), ("NeuralTS", 2, 2, 2.0, 1.0)]

_BASE = np.array(
    [
        [[0.9, -0.3, 0.5], [-0.6, 0.8, 0.1], [0.2, 0.4, -1.0]],
        [[0.5, 0.5, 0.5], [0.5, 0.5, 0.5], [0.5, 0.5, 0.5]],       # identical arms: ties
        [[-1.0, 1.0, -0.25], [0.0, 0.0, 0.0], [1.0, -1.0, 0.75]],   # a zero row, extreme rows
    ],
    dtype=np.float32,
)


def bounds(tier):
    q = tier == "quick"
    return {
        "algorithms": list(ALGOS), "context_dim": DIMS, "arms": ARMS, "lambda": LAMBS, "gamma": GAMMAS,
        "network": "encoder hidden [4], latent 4 (2..16), head hidden [4] (1..3 layers, 2..40 nodes)",
        "contexts": "3 fixed (arms x dim) matrices", "masks": "all non-empty 0/1 masks and None",
        "alphabets": {
            "full": "act: 3 contexts x (all non-empty masks + None); learn; Ma: every advertised method x every legal layer index x every node count "
                    "(16/32/64 resp. 8/16/32); Ma(head_net.add_node) via Mutations.mutation; Mp, Mact(each alternative activation) direct and via Mutations.mutation; clone; save->load; save->load_checkpoint",
            "mid": "as full but node count = smallest (16 resp. 8) and Mact picks the first alternative activation",
            "red": "act: context 0 x (singleton masks + None); learn; Ma: every advertised method x last layer x smallest node count; Mp, Mact direct; Mp via Mutations.mutation; clone; save->load",
            "min": "act: context 0 x singleton masks; learn; Ma: every advertised head_net method x last layer x 16 nodes; Mact direct; clone",
        },
        "levels": ({"all 48 configurations": ["mid", "mid"], "deep configurations": ["mid", "mid", "red"]} if q else
                   {"all 48 configurations": ["full", "mid", "min"], "deep configurations": ["full", "mid", "red", "min"]}),
        "deep_configurations": [list(c) for c in (DEEP_QUICK if q else DEEP_THOROUGH)],
        "long_configurations": [] if q else {"configs": [list(c) for c in LONG_THOROUGH], "levels": ["min", "min", "min", "min", "min"]},
        "depth": "<=2 (all) / <=3 (deep)" if q else "<=3 (all) / <=4 (deep) / <=5 (long, small alphabets)",
    }


def tasks(tier, seed):
    q = tier == "quick"
    deep = set(DEEP_QUICK if q else DEEP_THOROUGH)
    out = []

    def add(c, levels, shards, cost, split_after=0, count_from=0):
        algo, dim, arms, lam, gam = c
        for s in range(shards):
            out.append({"algo": algo, "dim": dim, "arms": arms, "lamb": lam, "gamma": gam, "levels": levels, "shard": s, "shards": shards,
                        "split_after": split_after, "count_from": count_from, "_cost": cost * (1.5 if arms == 3 else 1.0)})

    for algo in ALGOS:
        for dim in DIMS:
            for arms in ARMS:
                for lam in LAMBS:
                    for gam in GAMMAS:
                        c = (algo, dim, arms, lam, gam)
                        if q:
                            add(c, ["mid", "mid", "red"], 8, 12) if c in deep else add(c, ["mid", "mid"], 1, 6)
                        else:
                            add(c, ["full", "mid", "red", "min"], 32, 30) if c in deep else add(c, ["full", "mid", "min"], 2, 40)
        if not q and algo == "NeuralUCB":
            # histories of length 4 and 5 over the small alphabets; their prefixes of length <=3 are contained in the
            # schedule above for the same configuration, so they are executed here but counted (and reported) there
            for c in LONG_THOROUGH:
                add(c, ["min", "min", "min", "min", "min"], 16, 60, split_after=1, count_from=3)
    return out


# ------------------------------------------------------------------------------------------
# scripted random sources

class FakeRng:
    """Stands in for Mutations.rng. Every answer that selects WHAT is mutated is scripted by the op;
    index/noise draws of parameter_mutation come from a pinned generator."""

    def __init__(self, plan, seed):
        self.plan = plan
        self.gen = np.random.default_rng(seed)
        self.used = set()

    def choice(self, a, size=None, p=None, replace=True):
        a = list(a)
        if a and callable(a[0]):  # Mutations.mutation: which kind
            want = self.plan.get("kind")
            for i, f in enumerate(a):
                if getattr(f, "__name__", None) == want:
                    if p is not None and not p[i] > 0:
                        raise HarnessError(f"scripted mutation kind {want} has probability 0")
                    self.used.add("kind")
                    return [f] * int(size)
            raise HarnessError(f"unscripted mutation-kind draw (plan={self.plan}, options={[getattr(f, '__name__', f) for f in a]})")
        if replace is False:  # parameter_mutation: which weight matrices -> all of them (output layer included)
            if size != len(a):
                raise HarnessError("parameter key choice: unexpected size")
            self.used.add("keys")
            return np.array(a)
        if p is not None:  # sample_mutation_method
            want = self.plan.get("method")
            if want not in a:
                raise HarnessError(f"scripted architecture method {want!r} is not advertised: {a}")
            if not p[a.index(want)] > 0:
                raise HarnessError(f"scripted architecture method {want!r} has probability 0")
            self.used.add("method")
            return np.array([want])
        # _permutate_activation
        idx = self.plan.get("act_idx")
        if idx is None or not (0 <= idx < len(a)):
            raise HarnessError(f"unscripted activation draw over {a} (plan={self.plan})")
        self.used.add("act_idx")
        return np.array([a[idx]])

    def integers(self, low, high=None, size=None):
        if size is None:  # how many weight matrices -> all
            return high - 1
        return self.gen.integers(low, high, size=size)

    def uniform(self, low=0.0, high=1.0, size=None):
        return self.gen.uniform(low, high, size=size)

    def __getattr__(self, name):
        if name.startswith("__"):
            raise AttributeError(name)
        raise HarnessError(f"unscripted Mutations.rng.{name} draw")


class NpDraws:
    """Scripts np.random.randint / np.random.choice used inside the evolvable modules."""

    def __init__(self, layer, numb):
        self.layer, self.numb = layer, numb
        self.n_randint = self.n_choice = 0

    def randint(self, low, high=None, size=None, dtype=int):
        if self.layer is None or low != 0 or not (0 <= self.layer < high):
            raise HarnessError(f"unscripted np.random.randint({low},{high},{size}) (layer={self.layer})")
        self.n_randint += 1
        return np.array([self.layer])

    def choice(self, a, size=None, replace=True, p=None):
        a = list(a)
        if self.numb is None or self.numb not in a:
            raise HarnessError(f"unscripted np.random.choice({a},{size}) (numb={self.numb})")
        self.n_choice += 1
        return np.array([self.numb])


# ------------------------------------------------------------------------------------------
# harness

def ctx_of(j, arms, dim):
    return np.ascontiguousarray(_BASE[j, :arms, :dim])


def net_config():
    return {
        "encoder_config": {"hidden_size": [4], "min_mlp_nodes": 2, "max_mlp_nodes": 40},
        "head_config": {"hidden_size": [4], "min_mlp_nodes": 2, "max_mlp_nodes": 40, "min_hidden_layers": 1, "max_hidden_layers": 3},
        "latent_dim": 4, "min_latent_dim": 2, "max_latent_dim": 16,
    }


def build(cfg):
    cls = ALGOS[cfg["algo"]]
    with seeded(4242), warnings.catch_warnings():
        warnings.simplefilter("ignore")
        agent = cls(
            spaces.Box(-1.0, 1.0, (cfg["dim"],), np.float32), spaces.Discrete(cfg["arms"]),
            net_config=net_config(), lamb=cfg["lamb"], gamma=cfg["gamma"], batch_size=2, lr=1e-2,
        )
    return agent


def out_layer(agent):
    layer = agent.actor.get_output_dense()
    n = sum(int(w.numel()) for w in layer.parameters() if w.requires_grad)
    return layer, n


def arch_sig(agent):
    a = agent.actor
    return [[int(x) for x in a.encoder.hidden_size], int(a.latent_dim), [int(x) for x in a.head_net.hidden_size], str(a.activation)]


def _tb(t):
    return t.detach().cpu().contiguous().numpy().tobytes()


def state_hash(agent, A):
    h = hashlib.sha1()
    h.update(json.dumps(arch_sig(agent)).encode())
    for k, v in agent.actor.state_dict().items():
        h.update(k.encode())
        h.update(_tb(v))
    s = agent.sigma_inv
    h.update(repr((tuple(s.shape), str(s.dtype))).encode())
    h.update(_tb(s))
    h.update(_tb(agent.theta_0))
    h.update(repr((int(agent.numel), agent.exp_layer is agent.actor.get_output_dense(), float(agent.lr))).encode())
    osd = agent.optimizer.optimizer.state_dict()
    for k in sorted(osd["state"]):
        for kk in sorted(osd["state"][k]):
            v = osd["state"][k][kk]
            h.update(f"{k}.{kk}".encode())
            h.update(_tb(v) if isinstance(v, torch.Tensor) else repr(v).encode())
    h.update(repr([(g["lr"], len(g["params"])) for g in osd["param_groups"]]).encode())
    if A is not None:
        h.update(A.tobytes())
    return h.hexdigest()


def features(agent, ctx):
    """independent per-arm gradient features (float64, arms x n) w.r.t. the CURRENT actor's output layer"""
    layer, n = out_layer(agent)
    params = [w for w in layer.parameters() if w.requires_grad]
    x = torch.as_tensor(ctx, dtype=torch.float32)
    out = agent.actor(x).reshape(-1)
    scale = float(np.sqrt(layer.weight.shape[0]))
    rows = []
    for k in range(out.shape[0]):
        gs = torch.autograd.grad(out[k], params, retain_graph=True, allow_unused=True)
        flat = [(g if g is not None else torch.zeros_like(w)).reshape(-1) for g, w in zip(gs, params)]
        rows.append(torch.cat(flat).to(torch.float64).numpy() / scale)
    return np.stack(rows)


def relerr(S, E):
    return float(np.linalg.norm(S - E) / max(np.linalg.norm(E), 1e-300))


REL = 1e-3


def op_kind(op):
    o = op["op"]
    if o == "Ma":
        return "architecture_mutate" if op.get("via", "direct") == "direct" else "mutation(architecture)"
    if o == "Mp":
        return "parameter_mutation" if op.get("via", "direct") == "direct" else "mutation(parameters)"
    if o == "Mact":
        return "activation_mutation" if op.get("via", "direct") == "direct" else "mutation(activation)"
    return o


def seed_at(depth):
    return 7919 * (depth + 1) + 13


class Ctx:
    def __init__(self, cfg, tmpdir):
        self.cfg, self.tmpdir = cfg, tmpdir
        self.file = os.path.join(tmpdir, "agent.pt")


def raw_apply(cx: Ctx, agent, op, depth):
    """Execute one op on the real agent with every random source owned. Returns (agent_after, result)."""
    o = op["op"]
    cfg = cx.cfg
    with seeded(seed_at(depth)), warnings.catch_warnings():
        warnings.simplefilter("ignore")
        if o == "act":
            ctx = ctx_of(op["c"], cfg["arms"], cfg["dim"])
            mask = None if op["mask"] is None else np.array(op["mask"], dtype=np.int64)
            a = agent.get_action(ctx) if mask is None else agent.get_action(ctx, action_mask=mask)
            return agent, a
        if o == "learn":
            obs = torch.as_tensor(ctx_of(0, cfg["arms"], cfg["dim"])[:2].copy())
            batch = TensorDict({"obs": obs, "reward": torch.tensor([[1.0], [0.0]])}, batch_size=[2])
            return agent, agent.learn(batch)
        if o == "clone":
            return agent.clone(), None
        if o == "load":
            agent.save_checkpoint(cx.file)
            new = type(agent).load(cx.file)
            os.remove(cx.file)
            return new, None
        if o == "load_checkpoint":
            agent.save_checkpoint(cx.file)
            agent.load_checkpoint(cx.file)
            os.remove(cx.file)
            return agent, None
        if o in ("Ma", "Mp", "Mact"):
            via = op.get("via", "direct")
            kind = {"Ma": "architecture_mutate", "Mp": "parameter_mutation", "Mact": "activation_mutation"}[o]
            plan = {"kind": kind if via == "mutation" else None, "method": op.get("m"), "act_idx": op.get("idx")}
            m = Mutations(no_mutation=0, architecture=1, new_layer_prob=0.5, parameters=1, activation=1, rl_hp=0,
                          mutation_sd=0.1, rand_seed=None, device="cpu")
            rng = FakeRng(plan, seed_at(depth))
            m.rng = rng
            draws = NpDraws(op.get("layer"), op.get("numb"))
            with patched_many([(np.random, "randint", draws.randint), (np.random, "choice", draws.choice)]):
                if via == "mutation":
                    res = m.mutation([agent])
                    if len(res) != 1:
                        raise HarnessError("Mutations.mutation returned a population of different size")
                    new = res[0]
                else:
                    new = getattr(m, kind)(agent)
            if o == "Ma":
                if "method" not in rng.used:
                    raise HarnessError(f"architecture method draw was never requested for {op}")
                want = (0 if op.get("layer") is None else 1, 0 if op.get("numb") is None else 1)
                if (draws.n_randint, draws.n_choice) != want:
                    raise HarnessError(f"scripted module draws not consumed as planned: {op} used={(draws.n_randint, draws.n_choice)}")
            if o == "Mact" and "act_idx" not in rng.used:
                raise HarnessError("activation draw was never requested")
            if via == "mutation" and "kind" not in rng.used:
                raise HarnessError("mutation kind draw was never requested")
            return new, None
    raise HarnessError(f"unknown op {op}")


def masks_for(arms, reduced):
    if reduced:
        ms = [[1 if i == k else 0 for i in range(arms)] for k in range(arms)]
    else:
        ms = [[(b >> i) & 1 for i in range(arms)] for b in range(1, 2 ** arms)]
    return ms + [None]


def ma_ops(actor, alpha):
    ops = []
    # architecture_mutate samples from the methods advertised by the offspring (= actor.clone()); after a latent-node
    # mutation the live actor additionally lists encoder layer methods that its clone does not offer.
    for m in sorted(actor.clone().mutation_methods):
        if "." not in m:
            if m not in ("add_latent_node", "remove_latent_node"):
                raise HarnessError(f"advertised method {m} unknown to the harness")
            for nb in ([8, 16, 32] if alpha == "full" else [8]):
                ops.append({"op": "Ma", "m": m, "layer": None, "numb": nb})
            continue
        modname, meth = m.split(".")
        mod = getattr(actor, modname)
        nl = len(mod.hidden_size)
        if meth in ("add_node", "remove_node"):
            draw = True
        elif meth == "add_layer":
            draw = not (nl < mod.max_hidden_layers)
        elif meth == "remove_layer":
            draw = not (nl > mod.min_hidden_layers)
        else:
            raise HarnessError(f"advertised method {m} unknown to the harness")
        if not draw:
            ops.append({"op": "Ma", "m": m, "layer": None, "numb": None})
            continue
        layers = [nl - 1] if alpha == "red" else list(range(nl))
        for L in layers:
            for nb in ([16, 32, 64] if alpha == "full" else [16]):
                ops.append({"op": "Ma", "m": m, "layer": L, "numb": nb})
    return ops


def ops_for(agent, cfg, alpha):
    arms = cfg["arms"]
    if alpha == "min":
        acts = [{"op": "act", "c": 0, "mask": mk} for mk in masks_for(arms, True)[:-1]]
        pure = [{"op": "clone"}]
        destr = [{"op": "learn"}] + [o for o in ma_ops(agent.actor, "red") if o["m"].startswith("head_net.")] + [{"op": "Mact", "idx": 0}]
        return acts, pure, destr
    red = alpha == "red"
    acts = [{"op": "act", "c": c, "mask": mk} for c in ([0] if red else [0, 1, 2]) for mk in masks_for(arms, red)]
    pure = [{"op": "clone"}, {"op": "load"}]
    destr = [{"op": "learn"}] + ma_ops(agent.actor, alpha)
    if not red:
        nl = len(agent.actor.head_net.hidden_size)
        destr.append({"op": "Ma", "m": "head_net.add_node", "layer": nl - 1, "numb": 16, "via": "mutation"})
    destr.append({"op": "Mp"})
    destr.append({"op": "Mp", "via": "mutation"})
    for idx in ([0, 1] if alpha == "full" else [0]):
        destr.append({"op": "Mact", "idx": idx})
        if not red:
            destr.append({"op": "Mact", "idx": idx, "via": "mutation"})
    if not red:
        destr.append({"op": "load_checkpoint"})
    return acts, pure, destr


def grads_save(agent):
    """`.grad` buffers are scratch space of the library, not part of the hashed agent state, but the real flow of their
    content from op to op is kept: an undo puts back exactly what the op found (None included)."""
    ps = {}
    for mod in (agent.actor, getattr(agent, "exp_layer", None)):
        if mod is not None:
            for w in mod.parameters():
                ps[id(w)] = w
    return [(w, None if w.grad is None else w.grad.detach().clone()) for w in ps.values()]


def grads_restore(saved):
    for w, g in saved:
        w.grad = None if g is None else g.clone()


class Node:
    __slots__ = ("path", "A", "h", "meta")

    def __init__(self, path, A, h, meta):
        self.path, self.A, self.h, self.meta = path, A, h, meta


def lineage(path):
    return json.dumps([op for op in path if op["op"] != "act"], sort_keys=True)


class Explorer:
    def __init__(self, cx: Ctx, p: Partial, task):
        self.cx, self.p = cx, p
        self.cfg = cx.cfg
        self.base = {k: task[k] for k in ("algo", "dim", "arms", "lamb", "gamma")}
        self.algo = self.cfg["algo"]
        self.lam = float(self.cfg["lamb"])

    # -- violations ---------------------------------------------------------------------------
    def viol(self, p, key, what, path, observed=None, expected=None):
        p.viol(f"{self.algo}/{key}", what, {**self.base, "path": path}, observed, expected)

    # -- static part of the oracle: shape / identity / symmetry / PD -----------------------------
    def structure(self, p, agent, kind, path):
        """returns (ok, S64, n)"""
        layer, n = out_layer(agent)
        S = getattr(agent, "sigma_inv", None)
        if not isinstance(S, torch.Tensor) or S.ndim != 2 or tuple(S.shape) != (n, n):
            shp = None if not isinstance(S, torch.Tensor) else list(S.shape)
            self.viol(p, f"{kind}/sigma_inv-size-mismatch",
                      f"after {kind}: sigma_inv has shape {shp} but the current actor's output layer has {n} trainable parameters (arch {arch_sig(agent)})",
                      path, shp, [n, n])
            return False, None, n
        ok = True
        if agent.exp_layer is not layer:
            same_shape = [tuple(w.shape) for w in agent.exp_layer.parameters()] == [tuple(w.shape) for w in layer.parameters()]
            follow = ""
            keep = S.detach().clone()  # the probe below must not disturb the matrix that is judged afterwards
            try:
                with seeded(1), warnings.catch_warnings():
                    warnings.simplefilter("ignore")
                    agent.get_action(ctx_of(0, self.cfg["arms"], self.cfg["dim"]))
                follow = "; a following get_action returned normally (features taken from a layer that is not part of the network)"
            except Exception as e:  # noqa: BLE001 - consequence is only described
                follow = f"; a following get_action raises {type(e).__name__}: {str(e)[:80]}"
            with torch.no_grad():
                S.copy_(keep)
            agent.sigma_inv = S
            self.viol(p, f"{kind}/exp_layer-not-actor-output-layer",
                      f"after {kind}: agent.exp_layer is not actor.get_output_dense() (same parameter shapes: {same_shape}){follow}", path)
            ok = False
        if int(agent.numel) != n:
            self.viol(p, f"{kind}/numel-stale", f"after {kind}: agent.numel={agent.numel} but the output layer has {n} trainable parameters", path, int(agent.numel), n)
            ok = False
        S64 = S.detach().to(torch.float64).cpu().numpy()
        if not np.isfinite(S64).all():
            self.viol(p, f"{kind}/sigma_inv-not-finite", f"after {kind}: sigma_inv contains nan/inf", path)
            return False, None, n
        asym = float(np.abs(S64 - S64.T).max())
        if asym > 1e-5 * max(1.0, float(np.abs(S64).max())):
            self.viol(p, f"{kind}/sigma_inv-not-symmetric", f"after {kind}: max|S-S^T|={asym:.3e}", path, asym, 0.0)
            ok = False
        ev = float(np.linalg.eigvalsh((S64 + S64.T) / 2).min())
        if not ev > 0:
            self.viol(p, f"{kind}/sigma_inv-not-positive-definite", f"after {kind}: smallest eigenvalue {ev:.3e}", path, ev, ">0")
            ok = False
        return ok, S64, n

    def classify_fresh(self, S64, n):
        """'fresh' | 'fresh-wrong' | None"""
        I = np.eye(n)
        if relerr(S64, I / self.lam) <= REL:
            return "fresh"
        if relerr(S64, I * self.lam) <= REL:
            return "fresh-wrong"
        return None

    def report_init_defect(self, p, kind, path, S64):
        self.viol(p, "init_params/sigma_inv=lambda*I-not-inverse-of-lambda*I",
                  f"{kind}: a freshly initialised sigma_inv is lambda*I (diag {S64[0, 0]:.4g}) but the inverse of lambda*I is I/lambda (diag {1 / self.lam:.4g}), lambda={self.lam}",
                  path, float(S64[0, 0]), 1.0 / self.lam)

    # -- root ------------------------------------------------------------------------------------
    def root(self, p):
        try:
            agent = build(self.cfg)
        except Exception as e:  # noqa: BLE001
            self.viol(p, f"construct/exception/{type(e).__name__}", f"constructor raised {e!r}", [])
            return None, None
        p.evaluations += 1
        ok, S64, n = self.structure(p, agent, "construct", [])
        if not ok:
            return None, None
        c = self.classify_fresh(S64, n)
        if c == "fresh":
            A = self.lam * np.eye(n)
        elif c == "fresh-wrong":
            self.report_init_defect(p, "construct", [], S64)
            A = np.linalg.inv(S64)
        else:
            self.viol(p, "construct/sigma_inv-not-initialised-to-inverse", f"sigma_inv after construction is neither I/lambda nor lambda*I (diag0={S64[0, 0]})", [])
            return None, None
        p.out([self.algo, "construct", arch_sig(agent), n, c])
        node = Node([], A, state_hash(agent, A), {"had_act": False, "resize": None})
        return agent, node

    def rebuild(self, node, p=None):
        agent = build(self.cfg)
        for d, op in enumerate(node.path):
            agent, _ = raw_apply(self.cx, agent, op, d)
        if state_hash(agent, node.A) != node.h:
            # The property oracle speaks first: judge the history once more from a fresh agent. Only if it finds nothing
            # is the mismatch a loss of control of the harness.
            tmp = Partial()
            a2, n2 = self.root(tmp)
            for op in node.path:
                if n2 is None:
                    break
                a2, n2 = self.step(tmp, a2, n2, op)
            if tmp.violations and p is not None:
                for v in tmp.violations:
                    p.viol(v["key"], v["what"], v["replay"], v.get("observed"), v.get("expected"))
                p.extra["histories_dropped_after_violation_on_reexecution"] += 1
                return None
            raise HarnessError(f"re-execution of path {node.path} gave a different agent state (non-deterministic harness)")
        return agent

    # -- one judged transition --------------------------------------------------------------------
    def step(self, p, agent, node, op):
        """Executes op on agent (state of `node`). Returns (agent_after, child Node | None)."""
        path = node.path + [op]
        depth = len(node.path)
        kind = op_kind(op)
        cfg = self.cfg
        p.evaluations += 1
        A = node.A
        meta = dict(node.meta)
        _, n_before = out_layer(agent)
        V = None
        if op["op"] == "act":
            ctx = ctx_of(op["c"], cfg["arms"], cfg["dim"])
            V = features(agent, ctx)
            S0 = agent.sigma_inv.detach().to(torch.float64).numpy()
            bonus64 = np.einsum("ki,ij,kj->k", V, S0, V)
            V32 = torch.as_tensor(V, dtype=torch.float32)
            bonus32 = torch.matmul(torch.matmul(V32[:, None, :], agent.sigma_inv.detach()), V32[:, :, None]).reshape(-1).numpy()
            if not (np.isfinite(bonus64).all() and (bonus64 >= 0).all() and np.isfinite(bonus32).all() and (bonus32 >= 0).all()):
                self.viol(p, "act/negative-exploration-bonus", f"v^T sigma_inv v of the arms = {bonus64.tolist()} (float32 as in get_action: {bonus32.tolist()})", path)
                return agent, None
        try:
            new, res = raw_apply(self.cx, agent, op, depth)
        except HarnessError:
            raise
        except Exception as e:  # noqa: BLE001 - an exception of AgileRL on a legal input
            self.viol(p, f"{kind}/exception/{type(e).__name__}", f"{kind} raised {type(e).__name__}: {str(e)[:160]} (arch {arch_sig(agent)}, op {op})", path)
            p.out([self.algo, kind, "exception", type(e).__name__])
            return agent, None
        ok, S64, n = self.structure(p, new, kind, path)
        if S64 is None:
            return new, None
        verdict = None
        if op["op"] == "act":
            a = int(res)
            legal = 0 <= a < cfg["arms"] and (op["mask"] is None or op["mask"][a] == 1)
            if not legal:
                self.viol(p, "act/chosen-arm-not-allowed", f"get_action returned arm {res} for mask {op['mask']}", path)
                return new, None
            A = A + np.outer(V[a], V[a])
            E = np.linalg.inv(A)
            err = relerr(S64, E)
            if err > REL:
                self.viol(p, "act/sigma_inv-not-inverse-of-gram", f"after choosing arm {a}: relative error {err:.3e} between sigma_inv and inv(lambda*I + sum v v^T) "
                          f"({sum(1 for o in path if o['op'] == 'act')} decisions in history)", path, S64.diagonal().tolist(), E.diagonal().tolist())
                return new, None
            verdict = "updated"
            if meta["resize"] is not None:
                p.nt([self.algo, cfg["dim"], cfg["arms"]] + meta["resize"])
            meta["had_act"] = True
            p.extra["arm_chosen_%d" % a] += 1
        elif op["op"] == "learn":
            err = relerr(S64, np.linalg.inv(A))
            if err > REL:
                self.viol(p, "learn/sigma_inv-changed", f"learn changed sigma_inv (relative error {err:.3e} to the reference inverse)", path)
                return new, None
            verdict = "continued"
        else:
            resized = n != n_before
            cont = (not resized) and relerr(S64, np.linalg.inv(A)) <= REL
            fresh = self.classify_fresh(S64, n)
            if cont:
                verdict = "continued"
            elif fresh == "fresh":
                verdict = "fresh"
                A = self.lam * np.eye(n)
            elif fresh == "fresh-wrong":
                verdict = "fresh-wrong"
                self.report_init_defect(p, kind, path, S64)
                A = np.linalg.inv(S64)
            else:
                self.viol(p, f"{kind}/sigma_inv-neither-continued-nor-fresh" + ("/output-resized" if resized else ""),
                          f"after {kind} ({op}): sigma_inv ({n}x{n}, before {n_before}x{n_before}) equals neither the continued inverse nor a freshly initialised matrix", path)
                return new, None
            if resized:
                if meta["had_act"]:
                    meta["resize"] = [f"{n_before}->{n}", op.get("m", kind)]
                p.extra["output_resizes"] += 1
        p.out([self.algo, kind, arch_sig(new), n, verdict])
        p.extra["op_" + kind] += 1
        p.extra["histories_of_length_%d" % len(path)] += 1
        if not ok:
            return new, None
        h = state_hash(new, A)
        p.dg(lineage(path), h, verdict)
        return new, Node(path, A, h, meta)

    # -- expansion of one state with a whole alphabet ------------------------------------------------
    def expand(self, p, node, alpha, agent=None):
        children = []
        if agent is None:
            agent = self.rebuild(node, p)
            if agent is None:
                return children
        acts, pure, destr = ops_for(agent, self.cfg, alpha)
        # architecture mutations work on a clone of the actor and only re-bind attributes of the agent, so they are
        # undone like act (attribute bindings + sigma_inv content restored, bitwise state hash re-verified)
        undo = acts + [o for o in destr if o["op"] == "Ma"]
        destr = [o for o in destr if o["op"] != "Ma"]
        for op in undo:
            S_obj = agent.sigma_inv
            S_saved = S_obj.detach().clone()
            d_saved = dict(agent.__dict__)
            g_saved = grads_save(agent)
            _, child = self.step(p, agent, node, op)
            p.transitions += 1
            agent.__dict__.clear()
            agent.__dict__.update(d_saved)
            with torch.no_grad():
                S_obj.copy_(S_saved)
            grads_restore(g_saved)
            if state_hash(agent, node.A) != node.h:
                agent = self.rebuild(node, p)  # undo not exact: fall back to a re-execution of the history
                if agent is None:
                    return children
            if child is not None:
                children.append(child)
        for op in pure:
            _, child = self.step(p, agent, node, op)
            p.transitions += 1
            if state_hash(agent, node.A) != node.h:
                agent = self.rebuild(node, p)
                if agent is None:
                    return children
            if child is not None:
                children.append(child)
        dirty = False
        for op in destr:
            if dirty:
                agent = self.rebuild(node, p)
                if agent is None:
                    return children
            dirty = True
            _, child = self.step(p, agent, node, op)
            p.transitions += 1
            if child is not None:
                children.append(child)
        return children


def run_task(task):
    p = Partial()
    cfg = {k: task[k] for k in ("algo", "dim", "arms", "lamb", "gamma")}
    os.makedirs("/var/tmp/vf", exist_ok=True)
    tmpdir = tempfile.mkdtemp(prefix="c19-", dir="/var/tmp/vf")
    try:
        cx = Ctx(cfg, tmpdir)
        ex = Explorer(cx, p, task)
        if task.get("path") is not None:  # replay of one history, oracle on every step
            agent, node = ex.root(p)
            for op in task["path"]:
                if node is None:
                    break
                agent, node = ex.step(p, agent, node, op)
                p.transitions += 1
            p.traces += 1
            p.states += 1
            return p
        levels = task["levels"]
        shard, shards = task.get("shard", 0), task.get("shards", 1)
        split_after = task.get("split_after", 0)   # levels <= split_after are executed identically by every shard
        count_from = task.get("count_from", 0)      # levels < count_from are covered (and counted) by another task family
        quiet = Partial()

        def sink(depth):
            if depth < count_from or (depth <= split_after and shard != 0):
                return quiet
            return p

        agent, root = ex.root(p if (count_from == 0 and shard == 0) else quiet)
        if root is None:
            return p
        if count_from == 0 and shard == 0:
            p.states += 1
        seen = {(lineage(root.path), root.h)}
        frontier = [root]
        for depth, alpha in enumerate(levels):
            pp = sink(depth)
            nxt = []
            for node in frontier:
                for ch in ex.expand(pp, node, alpha, agent=agent if depth == 0 else None):
                    k = (lineage(ch.path), ch.h)
                    if k in seen:
                        pp.extra["merged_histories"] += 1
                        continue
                    seen.add(k)
                    nxt.append(ch)
            pp.states += len(nxt)
            if depth == split_after:
                nxt.sort(key=lambda nd: json.dumps(nd.path, sort_keys=True))
                nxt = [nd for i, nd in enumerate(nxt) if i % shards == shard]
            frontier = nxt
        p.traces = p.transitions
        if shard == 0:
            p.sample({"config": cfg, "levels": levels, "example_history": frontier[-1].path if frontier else []})
        return p
    finally:
        shutil.rmtree(tmpdir, ignore_errors=True)
