"""C20 — training loops compose end to end and keep step and population accounting right.

E5 "configs": every point of a stated configuration lattice is ONE full call of a real
`agilerl.training.train_*` function with real agents (built by `create_population`), real buffers,
real `TournamentSelection` / `Mutations`, and scripted COUNTING environments
(`mcx.fixtures.countenv`). An accounting reference model (ledger of environment steps attributed to
the acting agent, lineage of clones, generation boundaries observed at `test()`) judges the run.
"""
from __future__ import annotations

import contextlib
import io
import itertools
import math
import os
import shutil
import tempfile
import traceback

import numpy as np
import torch

# imported here (in the runner's parent process, before the worker pool is forked) so that workers do not pay the
# import of the training stack once each
import agilerl.training.train_bandits  # noqa: F401
import agilerl.training.train_multi_agent_off_policy  # noqa: F401
import agilerl.training.train_multi_agent_on_policy  # noqa: F401
import agilerl.training.train_off_policy  # noqa: F401
import agilerl.training.train_offline  # noqa: F401
import agilerl.training.train_on_policy  # noqa: F401
import agilerl.vector.pz_async_vec_env  # noqa: F401
import pandas  # noqa: F401

from ..core import HarnessError, Partial
from ..fixtures import countenv as ce
from ..rand import seeded

LEVEL = "exploration"
RULE = (
    "exhaustive enumeration of the configuration lattice stated in bounds (a union of fully enumerated slices: "
    "scheduling = loop x algorithm x memory x env kind x learn_step; evolution = loop x algorithm x evolution kind x "
    "population size x budget x checkpoint; extras = action-space kind / autoreset mode / early-stop target); each point "
    "= one full call of the real train_* function on counting environments; an evaluation = one judged call; "
    "non-trivial = a call that crossed >=2 generations with tournament selection on (tag = loop/algo/memory/env/evo/pop/"
    "generations); outcome = (loop, algo, generations run, verdict class)"
)
ASSUMPTIONS = [
    "environment steps are counted at the interface the loop talks to: one step() of a vector env with n sub-envs = n steps "
    "(gymnasium's next-step autoreset turns a finished sub-env's slot into a reset; it still counts as a step slot)",
    "for train_offline the 'steps' of an agent are its learn() calls (there is no environment interaction outside test())",
    "a cloned agent (tournament selection) inherits the step total of the agent it was cloned from; lineage is observed at "
    "EvolvableAlgorithm.clone",
    "stop rule as documented: per-agent loops continue while ALL agents have fewer than max_steps steps; "
    "train_multi_agent_on_policy documents max_steps 'across the entire population' (sum)",
    "elitism is judged at the return of tournament_selection_and_mutation with elitism=True, mutate_elite=False: member 0 must "
    "equal (policy state_dict, learning hyper-parameters) an agent with maximal mean fitness over the last eval_loop entries; "
    "ties accept any maximal agent",
    "checkpoint frequency = one generation; expected files <path>_<i>_<steps>.pt after every generation in which "
    "pop[0].steps crosses a multiple; a checkpoint 'loads' if <Algo>.load(path) returns an agent with the same index and steps",
    "all global RNGs are pinned (mcx.rand.seeded); Mutations gets rand_seed; the property does not quantify over draws",
    "the AsyncPettingZooVecEnv workers are real processes forked from the checking worker; only their step() call count is used",
]

# ------------------------------------------------------------------------------------------------
# lattice

LOOPS = {
    "off": ("train_off_policy", ["DQN", "RainbowDQN", "DDPG", "TD3"]),
    "on": ("train_on_policy", ["PPO"]),
    "offline": ("train_offline", ["CQN", "DQN"]),
    "bandit": ("train_bandits", ["NeuralUCB", "NeuralTS"]),
    "maoff": ("train_multi_agent_off_policy", ["MADDPG", "MATD3"]),
    "maon": ("train_multi_agent_on_policy", ["IPPO"]),
}
ALGO_NAME = {"DQN": "DQN", "RainbowDQN": "Rainbow DQN", "DDPG": "DDPG", "TD3": "TD3", "PPO": "PPO", "CQN": "CQN",
             "NeuralUCB": "NeuralUCB", "NeuralTS": "NeuralTS", "MADDPG": "MADDPG", "MATD3": "MATD3", "IPPO": "IPPO"}
ENVS = ["single", "vec1", "vec2", "vec3"]
BANDIT_ENVS = ["bandit64", "bandit32"]   # BanditEnv as is (float64 contexts) | contexts and rewards cast to float32
OFF_EVO = 14      # off-policy evo_steps: divisible by 2, NOT by 3 -> with vec3 a generation takes (14 // 3) * 3 = 12 environment steps
NUM_ENVS = {"single": 1, "vec1": 1, "vec2": 2, "vec3": 3, "bandit64": 1, "bandit32": 1}
MEMS = ["uniform", "nstep", "per", "per+nstep"]
EVOS = ["none", "tourn", "arch", "param", "act", "rlhp"]
BUDGETS = ["in1", "at2", "in3"]
EP_LEN = 4
EVAL_STEPS = 3
BATCH = 4


def default_space(algo):
    return "box" if algo in ("DDPG", "TD3", "MADDPG", "MATD3") else "discrete"


def learn_steps(loop):
    if loop == "offline":
        return [1]
    return [1, 2, 4]


def env_kinds(loop):
    return list(BANDIT_ENVS) if loop == "bandit" else list(ENVS)


def mem_kinds(algo):
    return list(MEMS) if algo == "RainbowDQN" else ["uniform"]


def base_cfg(loop, algo, **kw):
    c = {"loop": loop, "algo": algo, "env": "vec2" if loop != "bandit" else "bandit32", "ls": {"on": 4, "maon": 4, "offline": 1}.get(loop, 2),
         "mem": "uniform", "evo": "tourn", "ckpt": False, "pop": 2, "budget": "in3", "space": default_space(algo),
         "autoreset": "default", "target": None, "hls": False}
    c.update(kw)
    return c


def lattice(tier):
    q = tier == "quick"
    pts = []

    def add(**kw):
        pts.append(base_cfg(**kw))

    for loop, (_, algos) in LOOPS.items():
        for algo in algos:
            # ---- scheduling slice
            for mem in mem_kinds(algo):
                for env in env_kinds(loop):
                    for ls in learn_steps(loop):
                        if q:
                            # quick: the two corners of env x learn_step plus the crossing points
                            lsl = learn_steps(loop)
                            keep = (env, ls) in {("single", lsl[0]), ("vec1", lsl[-1]), ("vec3", lsl[0]), ("vec3", lsl[-1]), ("vec2", base_cfg(loop, algo)["ls"])}
                            if loop == "bandit":
                                keep = True
                            if mem != "uniform" and not (env, ls) in {("single", lsl[0]), ("vec3", lsl[-1])}:
                                keep = False
                            if not keep:
                                continue
                        pops = [2] if q else [1, 2]
                        evos = ["tourn"] if q else ["none", "tourn", "arch", "rlhp"]
                        for pop, evo in itertools.product(pops, evos):
                            add(loop=loop, algo=algo, env=env, ls=ls, mem=mem, pop=pop, evo=evo, budget="in3", ckpt=False)
            # ---- evolution slice
            mems = ["uniform"] + (["per+nstep"] if algo == "RainbowDQN" and not q else [])
            for mem in mems:
                for evo in EVOS:
                    for pop in ([2] if q else [1, 2, 3]):
                        for budget in (["in3"] if q else BUDGETS):
                            for ckpt in ([True] if q else [False, True]):
                                add(loop=loop, algo=algo, mem=mem, evo=evo, pop=pop, budget=budget, ckpt=ckpt)
            # ---- budget slice in quick (thorough has it inside the evolution slice)
            if q:
                for budget in ("in1", "at2"):
                    add(loop=loop, algo=algo, evo="tourn", pop=3, budget=budget, ckpt=False)
            # ---- heterogeneous learn_step (on-policy loops): the members' step counters drift apart, so the stop predicate
            # must really look at every member (learn_step is an evolvable hyper-parameter; populations become heterogeneous)
            if loop == "on":
                for env in ("vec2", "vec3"):
                    for pop in (2, 3):
                        for evo in (("none", "tourn") if q else ("none", "tourn", "rlhp")):
                            for budget in (("in3",) if q else BUDGETS):
                                add(loop=loop, algo=algo, env=env, ls=2, pop=pop, evo=evo, budget=budget, hls=True)
            # ---- extras
            if not q:
                alt = {"PPO": "box", "MADDPG": "discrete", "MATD3": "discrete", "IPPO": "box"}.get(algo)
                if alt:
                    for env in env_kinds(loop):
                        for evo in ("tourn", "arch", "rlhp"):
                            add(loop=loop, algo=algo, env=env, evo=evo, space=alt, pop=2)
                if loop in ("off", "on"):
                    for env in ("vec2", "vec3"):
                        for ls in learn_steps(loop):
                            add(loop=loop, algo=algo, env=env, ls=ls, autoreset="same_step", pop=2)
                for tgt in (-1e9, 1e9):
                    add(loop=loop, algo=algo, target=tgt, pop=2)
    # de-duplicate, keep order
    seen, out = set(), []
    for c in pts:
        k = tuple(sorted(c.items(), key=lambda kv: kv[0]))
        k = repr(k)
        if k not in seen:
            seen.add(k)
            out.append(c)
    return out


def bounds(tier):
    pts = lattice(tier)
    per_loop = {}
    for c in pts:
        per_loop[c["loop"]] = per_loop.get(c["loop"], 0) + 1
    q = tier == "quick"
    return {
        "loops_x_algorithms": {v[0]: v[1] for v in LOOPS.values()},
        "env_kinds": {"gym loops": "single CountEnv | SyncVectorEnv of 1,2,3 CountEnvs", "multi-agent loops": "single CountParallelEnv | AsyncPettingZooVecEnv of 1,2,3 (real worker processes)",
                      "bandits": "BanditEnv (not vectorisable): as is (float64) | float32-casting subclass", "offline": "in-memory h5-style dataset + the gym env kinds for evaluation"},
        "learn_step": {"off/on/bandit/maoff/maon": [1, 2, 4], "offline": [1]},
        "defaults_outside_a_slice": "env vec2 (bandit32 for bandits), learn_step 2 (4 on-policy), uniform memory, tournament without mutation, pop 2, budget in3, no checkpoint",
        "memory": {"RainbowDQN": MEMS, "others": ["uniform"]},
        "evolution": EVOS, "population": [2, 3] if q else [1, 2, 3], "budget": BUDGETS, "checkpoint": [False, True],
        "slices": ({"scheduling": "algo x memory x 5 (env,learn_step) points [2 for non-uniform memory] x pop 2 x tournament",
                    "evolution": "algo x 6 evolution kinds x pop 2 x budget in3 x checkpoint on", "budget": "algo x {in1,at2} x pop 3"} if q else
                   {"scheduling": "algo x memory x env kind x learn_step x pop {1,2} x evolution {none,tourn,arch,rlhp}",
                    "evolution": "algo (x {uniform, per+nstep} for Rainbow) x 6 evolution kinds x pop {1,2,3} x 3 budgets x checkpoint {off,on}",
                    "heterogeneous_learn_step": "on-policy: members with learn_step 2,4,6 x {vec2,vec3} x pop {2,3} x {none,tourn,rlhp} x budgets", "extras": "alternative action space (PPO/IPPO box, MADDPG/MATD3 discrete) x env kind x {tourn,arch,rlhp}; same-step autoreset x {vec2,vec3} x learn_step; target {-1e9,1e9}"}),
        "sizes": {"evo_steps": "off 14 (vec3 does not divide it: a generation is 12 real steps there), on 8, offline 4, bandit episode_steps 4 (=evo_steps), multi-agent 12", "episode_length": EP_LEN, "eval_steps": EVAL_STEPS,
                  "eval_loop": 1, "batch_size": BATCH, "buffer": 64, "nets": "latent 16, hidden [16]"},
        "points": len(pts), "points_per_loop": per_loop,
    }


def tasks(tier, seed):
    pts = lattice(tier)
    out = []
    # group a few points per task (similar cost), so that forking overhead is amortised
    per = 1
    for i in range(0, len(pts), per):
        chunk = pts[i:i + per]
        cost = sum(_cost(c) for c in chunk)
        out.append({"cfgs": chunk, "seed": seed, "_cost": cost})
    return out


def _cost(c):
    g = {"in1": 1, "at2": 2, "in3": 3}[c["budget"]]
    w = {"off": 2, "on": 2, "offline": 1, "bandit": 1, "maoff": 6, "maon": 6}[c["loop"]]
    return c["pop"] * g * w + (3 if c["ckpt"] else 0) + (4 if c["loop"] in ("maoff", "maon") and c["env"] != "single" else 0)


# ------------------------------------------------------------------------------------------------
# reference quantities (written from the docstrings, not from the loop code)

def ref_gen_steps(c):
    """Environment steps one agent takes in one generation, from the documented meaning of evo_steps / learn_step."""
    n = NUM_ENVS[c["env"]]
    if c["loop"] in ("off", "maoff"):
        e = OFF_EVO
        return (e // n) * n
    if c["loop"] in ("on", "maon"):
        e = 8
        return math.ceil(e / c["ls"]) * math.ceil(c["ls"] / n) * n
    return 4


def evo_steps(c):
    return {"off": OFF_EVO, "maoff": OFF_EVO, "on": 8, "maon": 8, "offline": 4, "bandit": 4}[c["loop"]]


def max_steps_for(c):
    g = ref_gen_steps(c)
    if c["loop"] == "maon":
        g = g * c["pop"]
    return {"in1": max(1, g // 2), "at2": 2 * g, "in3": 2 * g + 1}[c["budget"]]


# ------------------------------------------------------------------------------------------------
# instrumentation

class Trace:
    def __init__(self, ledger, count_learn):
        self.ledger = ledger
        self.count_learn = count_learn
        self.objs = {}        # key -> agent (strong refs keep ids unique)
        self.base = {}        # key -> inherited lineage steps
        self.tests = []       # one record per test() call
        self.boundaries = []  # predicate inputs recorded when the loop went on after a generation
        self.pending = False
        self.current_pop = None
        self.tourn = []       # elitism judgements
        self.ckpt_expected = []
        self.nan_fitness = 0

    def key(self, agent):
        k = id(agent)
        if k not in self.objs:
            self.objs[k] = agent
            self.base.setdefault(k, 0)
        elif self.objs[k] is not agent:
            raise HarnessError("agent id reuse")
        return k

    def total(self, agent):
        k = self.key(agent)
        return self.base[k] + self.ledger.acting.get(k, 0)


@contextlib.contextmanager
def _class_patch(cls, name, make):
    had = name in cls.__dict__
    orig = getattr(cls, name)
    setattr(cls, name, make(orig))
    try:
        yield
    finally:
        if had:
            setattr(cls, name, orig)
        else:
            delattr(cls, name)


def _hp_snapshot(agent):
    out = {}
    for n in ("lr", "lr_actor", "lr_critic", "batch_size", "learn_step", "gamma", "tau"):
        if hasattr(agent, n):
            v = getattr(agent, n)
            out[n] = float(v) if isinstance(v, (int, float, np.floating, np.integer)) else repr(v)
    return out


def _policy_state(agent):
    nets = agent.actors if hasattr(agent, "actors") else [agent.actor]
    sd = []
    for net in nets:
        sd.append({k: v.detach().clone() for k, v in net.state_dict().items()})
    return sd


def _same_state(a, b):
    if len(a) != len(b):
        return False
    for x, y in zip(a, b):
        if list(x.keys()) != list(y.keys()):
            return False
        for k in x:
            if x[k].shape != y[k].shape or not torch.equal(x[k], y[k]):
                return False
    return True


def _evaluate_boundary(tr: Trace, c, ckpt_state, final):
    """Called when the loop either started another generation or returned: record the documented predicate
    on the population the loop holds, and the checkpoint files that must exist by now."""
    pop = tr.current_pop
    totals = [tr.total(a) for a in pop]
    tr.boundaries.append({"totals": totals, "final": final, "gen": len(tr.tests) // max(1, len(pop))})
    if ckpt_state is not None:
        freq, save_path = ckpt_state["freq"], ckpt_state["path"]
        if totals[0] // freq > ckpt_state["count"]:
            ckpt_state["count"] += 1
            for i, a in enumerate(pop):
                tr.ckpt_expected.append({"file": f"{save_path}_{i}_{totals[i]}.pt", "index": int(a.index), "steps": totals[i], "i": i})


@contextlib.contextmanager
def instrument(tr: Trace, cls, train_mod, c, ckpt_state):
    led = tr.ledger

    def on_act(agent):
        if led.in_test:
            return
        if tr.pending:
            tr.pending = False
            _evaluate_boundary(tr, c, ckpt_state, final=False)
        led.actor = tr.key(agent)

    def mk_get_action(orig):
        def get_action(self, *a, **k):
            on_act(self)
            return orig(self, *a, **k)
        return get_action

    def mk_learn(orig):
        def learn(self, *a, **k):
            if tr.count_learn and not led.in_test:
                on_act(self)
                led.acting[tr.key(self)] = led.acting.get(tr.key(self), 0) + 1
            return orig(self, *a, **k)
        return learn

    def mk_test(orig):
        def test(self, *a, **k):
            rec = {"key": tr.key(self), "steps": int(self.steps[-1]), "counted": tr.total(self), "fit_before": len(self.fitness),
                   "index": int(self.index), "steps_len": len(self.steps)}
            led.in_test += 1
            try:
                r = orig(self, *a, **k)
            finally:
                led.in_test -= 1
                led.actor = None
            rec["fit_after"] = len(self.fitness)
            rec["fitness"] = float(np.mean(r)) if r is not None else None
            tr.tests.append(rec)
            if tr.current_pop is not None and len(tr.tests) % len(tr.current_pop) == 0:
                tr.pending = True
            return r
        return test

    def mk_clone(orig):
        def clone(self, *a, **k):
            child = orig(self, *a, **k)
            kc = id(child)
            tr.objs[kc] = child
            tr.base[kc] = tr.total(self)
            return child
        return clone

    real_tsm = train_mod.tournament_selection_and_mutation

    def tsm(population, tournament, mutation, *a, **k):
        old = list(population)
        judge = bool(tournament.elitism) and not mutation.mutate_elite
        snap = None
        if judge and any(not np.isfinite(np.mean(ag.fitness[-tournament.eval_loop:])) for ag in old):
            judge = False   # "best" is undefined with a NaN fitness
            tr.nan_fitness += 1
        if judge:
            el = tournament.eval_loop
            snap = [{"fit": float(np.mean(ag.fitness[-el:])), "state": _policy_state(ag), "hp": _hp_snapshot(ag), "index": int(ag.index)} for ag in old]
        new = real_tsm(population=population, tournament=tournament, mutation=mutation, *a, **k)
        rec = {"n_old": len(old), "n_new": len(new), "judged": judge, "muts": [str(getattr(ag, "mut", None)) for ag in new]}
        if judge and len(new) > 0:
            best = max(s["fit"] for s in snap)
            cands = [s for s in snap if s["fit"] == best]
            st, hp = _policy_state(new[0]), _hp_snapshot(new[0])
            rec["weights_ok"] = any(_same_state(st, s["state"]) for s in cands)
            rec["hp_ok"] = any(hp == s["hp"] for s in cands)
            rec["hp_new"] = hp
            rec["hp_best"] = [s["hp"] for s in cands]
            rec["best_index"] = [s["index"] for s in cands]
            rec["new0_index"] = int(new[0].index)
        tr.tourn.append(rec)
        tr.current_pop = list(new)
        return new

    with contextlib.ExitStack() as st:
        st.enter_context(_class_patch(cls, "get_action", mk_get_action))
        st.enter_context(_class_patch(cls, "learn", mk_learn))
        st.enter_context(_class_patch(cls, "test", mk_test))
        st.enter_context(_class_patch(cls, "clone", mk_clone))
        train_mod.tournament_selection_and_mutation = tsm
        try:
            yield
        finally:
            train_mod.tournament_selection_and_mutation = real_tsm


# ------------------------------------------------------------------------------------------------
# building one configuration

NET = {"latent_dim": 16, "encoder_config": {"hidden_size": [16]}, "head_config": {"hidden_size": [16]}}


def _hp_config(algo):
    from agilerl.algorithms.core.registry import HyperparameterConfig, RLParameter

    lr = lambda: RLParameter(min=1e-4, max=1e-2)  # noqa: E731
    kw = {}
    if algo in ("DDPG", "TD3", "MADDPG", "MATD3"):
        kw["lr_actor"], kw["lr_critic"] = lr(), lr()
    else:
        kw["lr"] = lr()
    kw["batch_size"] = RLParameter(min=2, max=8, dtype=int)
    kw["learn_step"] = RLParameter(min=1, max=8 if algo in ("PPO", "IPPO") else 4, dtype=int, grow_factor=1.5, shrink_factor=0.75)
    return HyperparameterConfig(**kw)


def _init_hp(c):
    hp = {"BATCH_SIZE": BATCH, "LR": 1e-3, "LR_ACTOR": 1e-3, "LR_CRITIC": 1e-3, "LEARN_STEP": c["ls"], "GAMMA": 0.99, "TAU": 0.01,
          "N_STEP": 2, "NUM_ATOMS": 5, "V_MIN": -2.0, "V_MAX": 2.0, "UPDATE_EPOCHS": 1, "POLICY_FREQ": 2, "DOUBLE": False,
          "GAE_LAMBDA": 0.95, "ACTION_STD_INIT": 0.6, "CLIP_COEF": 0.2, "ENT_COEF": 0.01, "VF_COEF": 0.5, "MAX_GRAD_NORM": 0.5,
          "TARGET_KL": None, "AGENT_IDS": list(ce.AGENT_IDS), "POP_SIZE": c["pop"]}
    return hp


def _make_env(c, ledger):
    loop, kind, n = c["loop"], c["env"], NUM_ENVS[c["env"]]
    if loop == "bandit":
        return ce.make_bandit_env(ledger, f32=(kind == "bandit32"))
    if loop in ("maoff", "maon"):
        if kind == "single":
            return ce.CountParallelEnv(EP_LEN, c["space"], ledger=ledger)
        return ce.make_async_pz(n, EP_LEN, c["space"], ledger=ledger)
    tick = None if loop == "offline" else ledger   # offline: steps are learn() calls; env is only used by test()
    if kind == "single":
        return ce.CountEnv(EP_LEN, c["space"], ledger=tick)
    mode = None
    if c["autoreset"] == "same_step":
        import gymnasium as gym
        mode = gym.vector.AutoresetMode.SAME_STEP
    return ce.CountSyncVectorEnv(n, EP_LEN, c["space"], ledger=tick, autoreset_mode=mode)


def build(c, seed, tmpdir, ledger):
    """Everything a user writes before calling train_*: env, population, buffers, tournament, mutations, kwargs."""
    import agilerl.training.train_bandits as m_b
    import agilerl.training.train_multi_agent_off_policy as m_mo
    import agilerl.training.train_multi_agent_on_policy as m_mn
    import agilerl.training.train_off_policy as m_off
    import agilerl.training.train_offline as m_ofl
    import agilerl.training.train_on_policy as m_on
    from agilerl.components import MultiStepReplayBuffer, PrioritizedReplayBuffer, ReplayBuffer
    from agilerl.components.multi_agent_replay_buffer import MultiAgentReplayBuffer
    from agilerl.hpo.mutation import Mutations
    from agilerl.hpo.tournament import TournamentSelection
    from agilerl.utils.utils import create_population
    from gymnasium import spaces

    loop, algo = c["loop"], c["algo"]
    mod = {"off": m_off, "on": m_on, "offline": m_ofl, "bandit": m_b, "maoff": m_mo, "maon": m_mn}[loop]
    fn = getattr(mod, LOOPS[loop][0])
    env = _make_env(c, ledger)
    n = NUM_ENVS[c["env"]]
    hp = _init_hp(c)
    if loop in ("maoff", "maon"):
        obs_sp = [ce.obs_space() for _ in ce.AGENT_IDS]
        act_sp = [ce.act_space(c["space"]) for _ in ce.AGENT_IDS]
    elif loop == "bandit":
        obs_sp = spaces.Box(-1.0, 1.0, env.context_dim, dtype=np.float32)
        act_sp = spaces.Discrete(env.arms)
    else:
        obs_sp, act_sp = ce.obs_space(), ce.act_space(c["space"])
    pop = create_population(algo=ALGO_NAME[algo], observation_space=obs_sp, action_space=act_sp, net_config=dict(NET), INIT_HP=hp,
                            hp_config=_hp_config(algo), population_size=c["pop"], num_envs=n, device="cpu")
    if c.get("hls"):
        for j, a in enumerate(pop):
            a.learn_step = c["ls"] * (1 + j)  # 2, 4, 6: different generation lengths per member
    kw = dict(env=env, env_name="count", algo=ALGO_NAME[algo], pop=pop, INIT_HP=hp, MUT_P=None, swap_channels=False,
              max_steps=max_steps_for(c), evo_steps=evo_steps(c), eval_steps=EVAL_STEPS, eval_loop=1, target=c["target"],
              wb=False, verbose=False)
    if loop == "off":
        mem = c["mem"]
        kw["memory"] = PrioritizedReplayBuffer(max_size=64, alpha=0.6) if mem.startswith("per") else ReplayBuffer(max_size=64)
        kw["per"] = mem.startswith("per")
        kw["n_step"] = mem.endswith("nstep")
        if kw["n_step"]:
            kw["n_step_memory"] = MultiStepReplayBuffer(max_size=64, n_step=2, gamma=0.99)
    elif loop == "offline":
        kw["memory"] = ReplayBuffer(max_size=64)
        kw["dataset"] = ce.offline_dataset(12, EP_LEN, c["space"])
    elif loop == "bandit":
        kw["memory"] = ReplayBuffer(max_size=64)
        kw["episode_steps"] = 4
    elif loop == "maoff":
        kw["memory"] = MultiAgentReplayBuffer(memory_size=64, field_names=["state", "action", "reward", "next_state", "done"],
                                              agent_ids=list(ce.AGENT_IDS), device="cpu")
    if c["evo"] != "none":
        kw["tournament"] = TournamentSelection(tournament_size=2, elitism=True, population_size=c["pop"], eval_loop=1)
        one = {"tourn": "no_mutation", "arch": "architecture", "param": "parameters", "act": "activation", "rlhp": "rl_hp"}[c["evo"]]
        probs = {k: (1.0 if k == one else 0.0) for k in ("no_mutation", "architecture", "parameters", "activation", "rl_hp")}
        kw["mutation"] = Mutations(new_layer_prob=0.5, mutation_sd=0.1, mutate_elite=False, rand_seed=seed, device="cpu", **probs)
    ckpt_state = None
    if c["ckpt"]:
        g = ref_gen_steps(c)
        path = os.path.join(tmpdir, "ckpt.pt")
        kw.update(checkpoint=g, checkpoint_path=path, overwrite_checkpoints=False)
        ckpt_state = {"freq": g, "path": path.split(".pt")[0], "count": 0}
        if c["evo"] != "none":
            kw.update(save_elite=True, elite_path=os.path.join(tmpdir, "elite.pt"))
    return fn, mod, kw, pop, env, ckpt_state


# ------------------------------------------------------------------------------------------------
# one evaluation

def _exc_site(exc):
    """Innermost frame that belongs to agilerl (function name) and whether the innermost frame overall is harness code."""
    tb = traceback.extract_tb(exc.__traceback__)
    site = None
    for fr in tb:
        if "/agilerl/" in fr.filename:
            site = os.path.basename(fr.filename)[:-3] + "." + fr.name
    innermost_harness = bool(tb) and ("/mcx/" in tb[-1].filename) and "/agilerl/" not in tb[-1].filename
    return site, innermost_harness, tb


def mem_tag(c):
    return c["mem"] if c["loop"] == "off" else {"offline": "dataset", "bandit": "uniform", "maoff": "ma-uniform", "on": "rollout", "maon": "rollout"}[c["loop"]]


def run_config(c, seed, p: Partial):
    fname = LOOPS[c["loop"]][0]
    kp = f"{fname}/{c['algo']}/{mem_tag(c)}"
    rp = {"cfgs": [c], "seed": seed}
    os.makedirs("/var/tmp/vf/c20tmp", exist_ok=True)
    tmpdir = tempfile.mkdtemp(prefix="run", dir="/var/tmp/vf/c20tmp")
    ledger = ce.Ledger()
    env = None
    p.evaluations += 1
    verdict = "ok"
    gens = -1
    try:
        with seeded(seed * 1000003 + 17):
            sink = io.StringIO()
            with contextlib.redirect_stdout(sink), contextlib.redirect_stderr(sink):
                try:
                    fn, mod, kw, pop0, env, ckpt_state = build(c, seed, tmpdir, ledger)
                except HarnessError:
                    raise
                except Exception as e:  # create_population & co. on a legal configuration
                    site, harness, tb = _exc_site(e)
                    if site is None or harness:
                        raise HarnessError("build failed in harness code:\n" + "".join(traceback.format_exception(e)))
                    p.viol(f"create/{c['algo']}/exception/{type(e).__name__}@{site}", f"{type(e).__name__}: {e} while building {c}", rp, observed=str(e))
                    p.out(f"{c['loop']}/{c['algo']}/build-exception")
                    p.dg(c, "build-exc", type(e).__name__)
                    return
                cls = type(pop0[0])
                tr = Trace(ledger, count_learn=(c["loop"] == "offline"))
                tr.current_pop = list(pop0)
                for a in pop0:
                    tr.key(a)
                result, exc = None, None
                with instrument(tr, cls, mod, c, ckpt_state):
                    try:
                        result = fn(**kw)
                    except HarnessError:
                        raise
                    except Exception as e:
                        exc = e
            if exc is not None:
                site, harness, tb = _exc_site(exc)
                rejected = isinstance(exc, ce.EnvRejectedAction)
                if (harness and not rejected) or site is None:
                    raise HarnessError(f"exception inside harness code for {c}:\n" + "".join(traceback.format_exception(exc)))
                # memory kind is part of the key unless the failing site is evaluation (test() does not touch the memory)
                kk = f"{fname}/{c['algo']}" if site.endswith(".test") else kp
                key = f"{kk}/exception/{type(exc).__name__}@{site}"
                if rejected:   # raised by the counting env on AgileRL's input: ill-shaped action
                    key = f"{fname}/{c['algo']}/env-rejected-action@{site}"
                where = f"{os.path.basename(tb[-1].filename)}:{tb[-1].lineno} in {tb[-1].name}"
                p.viol(key, f"{fname} raised {type(exc).__name__}: {str(exc)[:200]} (at {where}; agilerl site {site}) on {c}", rp,
                       observed=f"{type(exc).__name__}: {str(exc)[:300]}", expected="returns (population, fitnesses)")
                verdict = f"exception/{type(exc).__name__}@{site}"
                gens = len(tr.tests) // max(1, c["pop"])
                p.dg(c, verdict, len(tr.tests))
            else:
                verdict, gens = judge(c, kp, rp, p, tr, result, kw, ckpt_state, tmpdir, cls, env)
    finally:
        try:
            if env is not None and hasattr(env, "close"):
                with contextlib.redirect_stdout(io.StringIO()), contextlib.redirect_stderr(io.StringIO()):
                    if hasattr(env, "processes"):
                        env.close(terminate=True)   # AsyncPettingZooVecEnv: never wait for a worker that may have died
                    else:
                        env.close()
        except Exception:
            pass
        shutil.rmtree(tmpdir, ignore_errors=True)
    p.out(f"{c['loop']}/{c['algo']}/gens={gens}/{verdict.split('@')[0] if verdict.startswith('exception') else verdict}")
    if gens >= 2 and c["evo"] != "none":
        p.nt(f"{c['loop']}/{c['algo']}/{mem_tag(c)}/{c['env']}/ls{c['ls']}/{c['evo']}/pop{c['pop']}/g{gens}/ck{int(c['ckpt'])}/{c['space']}/{c['autoreset']}/{c['target']}")
    p.sample({"cfg": c, "generations": gens, "verdict": verdict})


def judge(c, kp, rp, p: Partial, tr: Trace, result, kw, ckpt_state, tmpdir, cls, env):
    """The oracle: everything the statement promises about a completed call."""
    fname = LOOPS[c["loop"]][0]
    led = tr.ledger
    npop = c["pop"]
    bad = []

    def v(suffix, what, observed=None, expected=None):
        # accounting done by the loop itself is keyed by loop + oracle; oracles that go through methods of the
        # algorithm (test -> fitness, clone -> elitism, save/load -> checkpoint) also name the algorithm
        bad.append(suffix)
        per_algo = suffix.split("/")[0] in ("fitness", "elitism", "checkpoint")
        p.viol(f"{fname}/{c['algo']}/{suffix}" if per_algo else f"{fname}/{suffix}", f"{what} [{c}]", rp, observed=observed, expected=expected)

    # ---- return value
    if not (isinstance(result, tuple) and len(result) == 2):
        v("return/not-a-pair", f"{fname} returned {type(result).__name__}", observed=repr(result)[:200], expected="(population, fitnesses)")
        p.dg(c, "not-a-pair")
        return "bad-return", -1
    pop, fits = result
    if len(pop) != npop:
        v("population/size", f"returned population has {len(pop)} members, given {npop}", observed=len(pop), expected=npop)
    idx = [int(a.index) for a in pop]
    if len(set(idx)) != len(idx):
        v("population/duplicate-index", f"returned indices {idx}", observed=idx, expected="distinct")

    # ---- harness sanity
    if led.unattributed:
        raise HarnessError(f"{led.unattributed} environment steps before any agent acted ({c})")
    if len(tr.tests) % npop != 0:
        v("generation/partial-evaluation", f"{len(tr.tests)} test() calls for a population of {npop}", observed=len(tr.tests), expected=f"multiple of {npop}")
    gens = len(tr.tests) // npop
    # close the last boundary (the loop returned)
    tr.current_pop = list(pop)
    _evaluate_boundary(tr, c, ckpt_state, final=True)

    # ---- step accounting, at every evaluation and at return
    for i, t in enumerate(tr.tests):
        if t["steps"] != t["counted"]:
            v("steps/counter-vs-environment", f"generation {i // npop + 1}, member {i % npop}: steps[-1]={t['steps']} but the environment counted {t['counted']} steps for its lineage",
              observed=t["steps"], expected=t["counted"])
            break
    for j, a in enumerate(pop):
        if int(a.steps[-1]) != tr.total(a):
            v("steps/returned-counter-vs-environment", f"returned member {j}: steps[-1]={a.steps[-1]} but the environment counted {tr.total(a)}",
              observed=int(a.steps[-1]), expected=tr.total(a))
            break

    # ---- fitness accounting
    for i, t in enumerate(tr.tests):
        if t["fit_after"] != t["fit_before"] + 1:
            v("fitness/not-one-entry-per-evaluation", f"test() #{i}: len(fitness) {t['fit_before']} -> {t['fit_after']}", observed=t["fit_after"], expected=t["fit_before"] + 1)
            break
    for j, a in enumerate(pop):
        if len(a.fitness) != gens:
            v("fitness/length-vs-generations", f"returned member {j} has {len(a.fitness)} fitness entries after {gens} generations", observed=len(a.fitness), expected=gens)
            break
    ok_f = isinstance(fits, list) and len(fits) == gens and all(hasattr(f, "__len__") and not isinstance(f, dict) and len(f) == npop for f in fits)
    if not ok_f:
        shape = [("dict" if isinstance(f, dict) else (len(f) if hasattr(f, "__len__") else "scalar")) for f in fits] if isinstance(fits, list) else type(fits).__name__
        v("return/fitnesses-shape", f"returned fitnesses have entries {shape}, expected {gens} generations x {npop} agents", observed=shape, expected=[npop] * gens)

    # ---- stop rule (first generation in which the documented predicate is met)
    ms = kw["max_steps"]

    def met(totals):
        return (sum(totals) >= ms) if c["loop"] == "maon" else (not all(t < ms for t in totals))

    early_ok = c["target"] is not None and all(np.mean(a.fitness[-10:]) > c["target"] for a in pop)
    for b in tr.boundaries:
        if not b["final"] and met(b["totals"]):
            v("stop/ran-past-budget", f"after generation {b['gen']} the counted steps {b['totals']} met max_steps={ms} but another generation was started",
              observed=b["totals"], expected=f"stop at max_steps={ms}")
            break
        if b["final"] and not met(b["totals"]) and not early_ok:
            v("stop/before-budget", f"returned after generation {b['gen']} with counted steps {b['totals']} below max_steps={ms}", observed=b["totals"], expected=f">= {ms}")
    if c["target"] is None:
        want = {"in1": 1, "at2": 2, "in3": 3}[c["budget"]]
        if gens != want and c["evo"] != "rlhp" and not c.get("hls") and not any(s.startswith("stop/") for s in bad):
            # reference count from the documented evo_steps/learn_step arithmetic (rl_hp may change learn_step, hence excluded)
            v("stop/generation-count", f"{gens} generations run, the documented arithmetic gives {want} (max_steps={ms}, {ref_gen_steps(c)} steps per agent and generation)",
              observed=gens, expected=want)

    # ---- tournament / elitism
    if c["evo"] != "none":
        for k, t in enumerate(tr.tourn):
            if t["n_new"] != t["n_old"]:
                v("tournament/population-size", f"selection #{k + 1}: {t['n_old']} -> {t['n_new']} members", observed=t["n_new"], expected=t["n_old"])
                break
            if t["judged"] and not t.get("weights_ok", True):
                v("elitism/policy-weights", f"selection #{k + 1}: member 0 (index {t['new0_index']}) does not carry the policy weights of the best agent (index {t['best_index']})",
                  observed="different state_dict", expected="state_dict of best")
                break
            if t["judged"] and not t.get("hp_ok", True):
                v("elitism/hyperparameters", f"selection #{k + 1}: member 0 hyper-parameters {t['hp_new']} differ from the best agent's {t['hp_best']}",
                  observed=t["hp_new"], expected=t["hp_best"])
                break
        if c["loop"] != "bandit" and len(tr.tourn) != gens and c["target"] is None:
            v("tournament/not-every-generation", f"{len(tr.tourn)} selections in {gens} generations", observed=len(tr.tourn), expected=gens)

    # ---- checkpoints
    n_loaded = 0
    if ckpt_state is not None:
        for e in tr.ckpt_expected:
            if not os.path.exists(e["file"]):
                have = sorted(os.listdir(tmpdir))
                v("checkpoint/missing-file", f"expected {os.path.basename(e['file'])}; directory has {have}", observed=have, expected=os.path.basename(e["file"]))
                break
            try:
                with contextlib.redirect_stdout(io.StringIO()), contextlib.redirect_stderr(io.StringIO()):
                    ag = cls.load(e["file"], device="cpu")
            except Exception as ex:
                site, harness, tb = _exc_site(ex)
                v(f"checkpoint/load/exception/{type(ex).__name__}", f"{cls.__name__}.load({os.path.basename(e['file'])}) raised {type(ex).__name__}: {str(ex)[:200]} (site {site})",
                  observed=f"{type(ex).__name__}: {str(ex)[:200]}", expected="loads")
                break
            n_loaded += 1
            if int(ag.steps[-1]) != e["steps"] or int(ag.index) != e["index"]:
                v("checkpoint/content", f"{os.path.basename(e['file'])}: loaded index={ag.index} steps={ag.steps[-1]}, saved agent had index={e['index']} steps={e['steps']}",
                  observed=[int(ag.index), int(ag.steps[-1])], expected=[e["index"], e["steps"]])
                break
        if gens >= 1 and not tr.ckpt_expected:
            raise HarnessError(f"checkpoint configuration expected no files at all ({c})")
        if kw.get("save_elite") and tr.tourn:
            ep = kw["elite_path"]
            if not os.path.exists(ep):
                v("checkpoint/elite-missing", f"save_elite=True, elite_path given, no file after {len(tr.tourn)} selections", observed=sorted(os.listdir(tmpdir)), expected="elite.pt")
            else:
                try:
                    with contextlib.redirect_stdout(io.StringIO()), contextlib.redirect_stderr(io.StringIO()):
                        cls.load(ep, device="cpu")
                except Exception as ex:
                    v(f"checkpoint/elite-load/exception/{type(ex).__name__}", f"{cls.__name__}.load(elite.pt) raised {type(ex).__name__}: {str(ex)[:200]}", observed=str(ex)[:200], expected="loads")

    # ---- env-level sanity (harness): sub-environment counters agree with the ledger in same-step mode
    if c["autoreset"] == "same_step" and hasattr(env, "sub_steps"):
        if sum(env.sub_steps()) != led.total_acting() + led.testing:
            raise HarnessError(f"ledger {led.total_acting()}+{led.testing} vs sub-env counters {env.sub_steps()} ({c})")

    p.extra["generations_run"] += max(gens, 0)
    p.extra["env_steps_acting"] += led.total_acting()
    p.extra["env_steps_testing"] += led.testing
    p.extra["tournament_selections"] += len(tr.tourn)
    p.extra["checkpoints_loaded"] += n_loaded
    p.extra["elitism_judged"] += sum(1 for t in tr.tourn if t["judged"])
    p.extra["elitism_skipped_nan_fitness"] += tr.nan_fitness
    p.dg(c, gens, idx, [int(a.steps[-1]) for a in pop], [[round(float(np.mean(x)), 6) for x in f] if not isinstance(f, dict) else "dict" for f in fits] if isinstance(fits, list) else None,
         [t["muts"] for t in tr.tourn], sorted(bad))
    return ("ok" if not bad else "violation:" + ",".join(sorted(set(b.split("/")[0] for b in bad)))), gens


def run_task(task) -> Partial:
    # the runner's pool workers are daemonic; AsyncPettingZooVecEnv needs child processes
    import multiprocessing as mp
    mp.current_process()._config["daemon"] = False
    p = Partial()
    for c in task["cfgs"]:
        run_config(c, task["seed"], p)
    return p
