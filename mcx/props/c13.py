"""C13 — the vector environment rejects misuse and survives worker faults without hanging.

Engine E4 (protocol), level fault_enumeration. The *model* is the documented AsyncState automaton
{default, reset, step, call} x closed, extended with a fault plan (worker j, command kind, k-th occurrence, fault
kind) — written here from the docstrings / gymnasium's AsyncVectorEnv contract, not from the implementation.
For every call sequence up to the stated length and every fault plan that FIRES in that sequence the model predicts
the outcome class of every call; every such trace is executed on the real `AsyncPettingZooVecEnv` with real worker
processes running the scripted `ScriptEnv`, in a forked child (own process group) under a watchdog, so a hang is a
verdict. Every trace ends with `close()`; after it: closed flag set, no worker alive, no live child process.

What the statement leaves open is left open in the model ("weaker reading"):
* after a worker fault was delivered (exception / timeout / death) the environment is *degraded*: calls that are legal
  in the model state may succeed or raise anything except a misuse error; calls that are misuse in the model state must
  still raise the documented misuse error; a failed legal call makes the model state unknown (then only "no hang");
* a killed worker: the pending wait must raise *something*; the type is not prescribed;
* close() must ALWAYS return normally, set `closed`, and leave no worker process — in every state.
"""
from __future__ import annotations

import itertools
import json
import time

import numpy as np

from agilerl.vector.pz_async_vec_env import AsyncPettingZooVecEnv

from ..core import HarnessError, Partial
from ..fixtures.procrun import live_children, run_many
from ..fixtures.scriptenv import Gate, env_fn

LEVEL = "fault_enumeration"
RULE = (
    "all call sequences over the 12-letter alphabet {reset,step,call}x{_async,_wait,sync}, set_attr, close, close(terminate) up to the "
    "stated length, each followed by a final close(); x every single-fault plan (worker j x the k-th dispatched reset/step/call/set_attr "
    "command of the sequence x {ValueError, RuntimeError, KeyError, sleep past timeout, SIGKILL}) that fires in the sequence, sleepers both "
    "with a 0.15 s timeout on the affected wait/close and without; thorough adds pair plans in two different workers. One evaluation = one "
    "interface call judged against the model; non-trivial = distinct (command, occurrence, fault kind, pending|sync, next call) where a fault "
    "fired; outcome = distinct (call, model state, observed outcome class)"
)
ASSUMPTIONS = [
    "documented automaton: *_async in state!=default -> AlreadyPendingCallError; *_wait without the matching pending call -> NoAsyncCallError; "
    "anything but close after close -> ClosedEnvironmentError; close on a closed env is a no-op; a timed-out wait and a delivered worker exception leave state default",
    "after a delivered fault only misuse errors, absence of hangs and close() are judged (statement does not promise usability after a worker fault)",
    "a wait on a SIGKILLed worker must raise (any non-misuse type)",
    "hang verdict = no return within the 6 s watchdog, or (earlier) every live process of the trace's process group blocked in a read()/wait() system call with "
    "no CPU tick consumed for 1 s (all channels are internal to the group, so this state is final)",
    "timeout 0.15 s vs sleeper 1.5 s vs per-call watchdog 6 s (10x separation); a timeout argument is only passed to a wait/close that the model expects to time out "
    "(quick) so that machine load cannot create spurious timeouts; thorough also passes a generous 5 s timeout to healthy waits",
    "close() must return within 5 s; 'no worker alive' is sampled immediately after close() returns; scripted workers take 0.1 s to exit (env.close() and SIGTERM)",
    "sub-environments are ScriptEnv(length=99): no automatic reset inside C13 traces, so the k-th reset command is the k-th reset() of the sub-env",
    "with two exception faults in the same command either type is accepted",
    "schedule control: after a successful *_async the driver waits (read-only poll on the parent pipes) until every worker that is not a scripted sleeper has "
    "answered or died before it issues the next call; 'answer not there yet' is enumerated by the sleeper plans; completion order of step via the turn gate",
]

CALLS = ["reset_async", "reset_wait", "step_async", "step_wait", "call_async", "call_wait", "set_attr", "reset", "step", "call", "close", "close_term"]
KIND_OF = {"reset_async": ("async", "reset"), "step_async": ("async", "step"), "call_async": ("async", "call"),
           "reset_wait": ("wait", "reset"), "step_wait": ("wait", "step"), "call_wait": ("wait", "call"),
           "reset": ("sync", "reset"), "step": ("sync", "step"), "call": ("sync", "call"), "set_attr": ("sync", "setattr"),
           "close": ("close", None), "close_term": ("close", None)}
EXC_KINDS = ["ValueError", "RuntimeError", "KeyError"]
FAULT_KINDS = EXC_KINDS + ["sleep", "kill"]
PIPE_ERRORS = {"EOFError", "BrokenPipeError", "ConnectionResetError", "OSError"}
MISUSE = {"AlreadyPendingCallError", "NoAsyncCallError", "ClosedEnvironmentError"}
CONCURRENCY = 3          # trace children per pool worker (sleepers and deadlocks cost wall time, not CPU)
T_OUT, T_SLEEP, T_WATCH, T_CLOSE, T_GENEROUS = 0.15, 1.5, 6.0, 5.0, 5.0
# staggered sleepers: worker j answers after 0.7 s, worker j' > j after 1.6 s, the wait gets ONE deadline of 1.0 s. The timeout must be
# reported (worker j' is 0.6 s late); a per-pipe restart of the timeout (0.7 + 1.0 > 1.6) would swallow it. Load can only delay
# the workers further, i.e. towards the expected TimeoutError: the expectation is safe on a busy machine.
T_STAG, STAG_SLEEPS = 1.0, (0.7, 1.6)
T_LINGER = 0.1           # every worker needs 0.1 s to go away (env.close() / SIGTERM): a close() that does not join is caught red-handed


def bounds(tier):
    return {
        "alphabet": CALLS,
        "families(kind, N, max sequence length, fault kinds, timeout passed to healthy waits, both gate orders)":
            [[k, N, ln, kinds if kinds is not None else "-", htos, both] for k, N, ln, kinds, htos, both, _ in PLAN[tier]],
        "single": "every dispatched reset/step/call/set_attr command of the sequence (k-th occurrence) x every worker x fault kinds; sleepers with a 0.15 s timeout, with timeout 0 (a poll: must report a timeout at once) and without",
        "pair": "two faults in two different workers, all ordered pairs of firing points (same point included) x kind pairs; pairs whose second point follows a SIGKILL are not enumerated",
        "every trace ends with": "close()",
        "gate order": "reverse; identity as well for step faults (and for every trace with a step where both gate orders = true)",
        "timeout_s": T_OUT, "sleeper_s": T_SLEEP, "staggered_sleepers(timeout_s, sleeps_s)": [T_STAG, list(STAG_SLEEPS)], "watchdog_s_per_call": T_WATCH, "close_bound_s": T_CLOSE,
    }


# ------------------------------------------------------------------------------------------
# the model

class Model:
    def __init__(self, N, plan):
        self.N = N
        self.plan = plan
        self.st = "default"           # default | reset | step | call | unknown
        self.closed = False
        self.degraded = False
        self.counts = {"reset": 0, "step": 0, "call": 0, "setattr": 0}
        self.active = []              # faults firing in the pending command
        self.fired = []               # all faults that fired so far
        self.delivered = True         # the fired faults have been reported to the caller

    def _firing(self, cmd):
        return [f for f in self.plan if f["cmd"] == cmd and f["occ"] == self.counts[cmd] + 1]

    def fault_ctx(self):
        if not self.fired:
            return "healthy" + ("-pending" if self.st in ("reset", "step", "call") else "")
        kinds = {f["kind"] for f in self.fired}
        k = "kill" if "kill" in kinds else "sleep" if "sleep" in kinds else "worker-exception"
        if k == "kill":
            return "fault=kill"
        return f"fault={k}/" + ("delivered" if self.delivered else "undelivered")

    def _resolve(self, faults, timeout):
        """expected outcome set of completing a command in which `faults` fire"""
        kinds = {f["kind"] for f in faults}
        if "kill" in kinds:
            return {"<raises>"}
        exc = {k for k in kinds if k in EXC_KINDS}
        if "sleep" in kinds and timeout is not None:
            return {"TimeoutError"} | exc
        return exc or {"ok"}

    def expect(self, name, timeout):
        """-> (expected set, class) ; class in misuse|legal|close|any"""
        typ, cmd = KIND_OF[name]
        if typ == "close":
            return {"ok"}, "close"
        if self.closed:
            return {"ClosedEnvironmentError"}, "misuse"
        if self.st == "unknown":
            return {"<any>"}, "any"
        if typ == "async" or typ == "sync":
            if self.st != "default":
                return {"AlreadyPendingCallError"}, "misuse"
            if self.degraded:
                return {"<ok-or-non-misuse>"}, "legal"
            if typ == "async":
                return {"ok"}, "legal"
            return self._resolve(self._firing(cmd), None), "legal"
        if self.st != cmd:
            return {"NoAsyncCallError"}, "misuse"
        if self.degraded:
            return {"<ok-or-non-misuse>"}, "legal"
        return self._resolve(self.active, timeout), "legal"

    @staticmethod
    def matches(exp, got):
        if "<any>" in exp:
            return True
        if "<ok-or-non-misuse>" in exp:
            return got not in MISUSE
        if "<raises>" in exp:
            return got != "ok" and got not in MISUSE
        return got in exp

    def observe(self, name, timeout, got, cls, ok_match):
        """advance the model using the observed outcome class `got` ('ok' or exception type name)"""
        typ, cmd = KIND_OF[name]
        if typ == "close":
            if self.closed:
                return
            if got == "ok":
                self.closed = True
                self.delivered = True
            else:
                self.st = "unknown"
            return
        if cls == "misuse":
            if not ok_match:
                self.st = "unknown"
            return
        if cls == "any":
            return
        # legal call
        if typ == "async":
            if got == "ok":
                firing = self._firing(cmd)
                self.counts[cmd] += 1
                self.active = firing
                if firing:
                    self.fired += firing
                    self.delivered = False
                self.st = cmd
            else:
                self.st = "unknown"
            return
        if typ == "sync":
            firing = self._firing(cmd)
            self.counts[cmd] += 1
            self.fired += firing
        else:
            firing = self.active
            self.active = []
        self.delivered = True
        if not ok_match:
            self.st = "unknown"
            return
        kinds = {f["kind"] for f in firing}
        if got != "ok":
            if self.degraded or "kill" in kinds:
                self.st = "unknown"
            else:
                self.st = "default"
            self.degraded = True
        else:
            self.st = "default"


# ------------------------------------------------------------------------------------------
# trace enumeration

def model_walk(N, seq, plan, sleep_mode, healthy_to):
    """Run the model alone (optimistic: every prediction holds) to fix the call arguments and list the firing points.
    -> (calls [[name, timeout]], points [(cmd, occ, how, next_call)], fired plan faults)"""
    m = Model(N, plan)
    calls, points = [], []
    for idx, name in enumerate(list(seq) + ["close"]):
        typ, cmd = KIND_OF[name]
        to = None
        sleeper_active = any(f["kind"] == "sleep" for f in m.active)
        if typ == "wait":
            if m.st == cmd and not m.closed and sleeper_active:
                to = T_OUT if sleep_mode == "timeout" else 0.0 if sleep_mode == "timeout0" else T_STAG if sleep_mode == "stagger" else None
            else:
                to = healthy_to
        elif name == "close":
            if not m.closed and sleeper_active and m.st in ("reset", "step", "call"):
                to = T_OUT if sleep_mode == "timeout" else 0.0 if sleep_mode == "timeout0" else T_STAG if sleep_mode == "stagger" else None
        exp, cls = m.expect(name, to)
        if cls == "legal" and typ in ("async", "sync") and not m.closed and m.st == "default":
            nxt = (list(seq) + ["close"])[idx + 1] if idx + 1 <= len(seq) else "end"
            points.append((cmd, m.counts[cmd] + 1, "pending" if typ == "async" else "sync", nxt))
        # optimistic observation: first element of the expectation in a fixed preference order
        if "<any>" in exp or "<ok-or-non-misuse>" in exp:
            got = "ok"
        elif "<raises>" in exp:
            got = "EOFError"
        elif "TimeoutError" in exp:
            got = "TimeoutError"
        else:
            got = sorted(exp)[0]
        calls.append([name, to])
        m.observe(name, to, got, cls, True)
    return calls, points, m.fired


def sequences(max_len):
    for L in range(1, max_len + 1):
        yield from itertools.product(CALLS, repeat=L)


def has_step(seq):
    return any(c in ("step", "step_async") for c in seq)


def in_part(seq, part):
    if seq[0] != part["first"]:
        return False
    sec = part.get("second", "*")
    if sec == "*":
        return True
    if sec == "-":
        return len(seq) == 1
    return len(seq) > 1 and seq[1] == sec


def gen_traces(part):
    """part: {"N", "kind": "misuse"|"single"|"pair", "len", "first"/"second": partition by the first two calls,
    "kinds": fault kinds enumerated, "htos": timeouts passed to healthy waits} -> list of trace specs"""
    N = part["N"]
    kinds = part.get("kinds", FAULT_KINDS)
    both_orders = part.get("both_orders", False)
    out = []
    seen = set()

    def add(seq, plan, sm, hto, order):
        calls, points, fired = model_walk(N, seq, plan, sm, hto)
        if len(fired) != len(plan):
            return                                   # a planned fault never fires in this sequence: equivalent to a smaller plan
        spec = {"N": N, "calls": calls, "plan": plan, "order": order}
        key = json.dumps(spec, sort_keys=True)
        if key not in seen:
            seen.add(key)
            out.append(spec)

    for seq in sequences(part["len"]):
        if not in_part(seq, part):
            continue
        _, points, _ = model_walk(N, seq, [], "wait", None)
        if part["kind"] == "misuse":
            orders = ["id", "rev"] if (both_orders and has_step(seq)) else ["rev"]
            for hto in part.get("htos", [None]):
                for order in orders:
                    add(seq, [], "wait", hto, order)
        elif part["kind"] == "single":
            for (cmd, occ, how, nxt) in points:
                for j in range(N):
                    for kind in kinds:
                        orders = ["id", "rev"] if (cmd == "step" or (both_orders and has_step(seq))) else ["rev"]
                        for sm in (("timeout", "timeout0", "wait") if kind == "sleep" else ("wait",)):
                            for order in orders:
                                add(seq, [{"env": j, "cmd": cmd, "occ": occ, "kind": kind}], sm, None, order)
        elif part["kind"] == "stagger":
            for (cmd, occ, how, nxt) in points:
                if how != "pending":
                    continue
                for j1, j2 in itertools.combinations(range(N), 2):
                    add(seq, [{"env": j1, "cmd": cmd, "occ": occ, "kind": "sleep", "sleep": STAG_SLEEPS[0]},
                              {"env": j2, "cmd": cmd, "occ": occ, "kind": "sleep", "sleep": STAG_SLEEPS[1]}], "stagger", None, "rev")
        elif part["kind"] == "pair":
            for (p1, p2) in itertools.combinations_with_replacement(range(len(points)), 2):
                for j1, j2 in itertools.permutations(range(N), 2):
                    for k1 in kinds:
                        for k2 in kinds:
                            if p1 == p2 and (j1, k1) > (j2, k2):
                                continue
                            f1 = {"env": j1, "cmd": points[p1][0], "occ": points[p1][1], "kind": k1}
                            f2 = {"env": j2, "cmd": points[p2][0], "occ": points[p2][1], "kind": k2}
                            for sm in (("timeout", "wait") if "sleep" in (k1, k2) else ("wait",)):
                                add(seq, [f1, f2], sm, None, "rev")
        else:
            raise HarnessError(f"unknown part kind {part['kind']}")
    return out


NOSLEEP = EXC_KINDS + ["kill"]
PLAN = {
    # (kind, N, max length, fault kinds, healthy-wait timeouts, both gate orders, partition depth)
    "quick": [
        ("misuse", 2, 3, None, [None], False, 2),
        ("single", 2, 2, FAULT_KINDS, [None], False, 1),
        ("single", 3, 2, NOSLEEP, [None], False, 1),
        ("single", 3, 1, ["sleep"], [None], False, 1),
        ("stagger", 3, 2, ["sleep"], [None], False, 1),
    ],
    "thorough": [
        ("misuse", 2, 4, None, [None], False, 2),
        ("misuse", 2, 3, None, [T_GENEROUS], True, 2),
        ("misuse", 3, 3, None, [None], True, 2),
        ("single", 2, 3, ["ValueError", "kill"], [None], True, 2),
        ("single", 2, 2, FAULT_KINDS, [None], True, 1),
        ("single", 3, 2, FAULT_KINDS, [None], True, 1),
        ("pair", 2, 2, FAULT_KINDS, [None], False, 2),
        ("pair", 3, 1, FAULT_KINDS, [None], False, 1),
        ("stagger", 3, 2, ["sleep"], [None], False, 1),
    ],
}


def tasks(tier, seed):
    out = []
    for kind, N, ln, kinds, htos, both, depth in PLAN[tier]:
        seconds = ["*"] if (depth == 1 or ln == 1) else ["-"] + CALLS
        for first in CALLS:
            for second in seconds:
                t = {"kind": kind, "N": N, "len": ln, "first": first, "second": second, "htos": htos, "both_orders": both}
                if kinds is not None:
                    t["kinds"] = kinds
                t["_cost"] = (12 ** max(ln - (1 if second == "*" else 2), 0)) * (1 if kind == "misuse" else 20 if kind == "single" else 100) * \
                    (0.2 if first in ("close", "close_term") else 1) * (8 if kinds and "sleep" in kinds else 1)
                out.append(t)
    return out


# ------------------------------------------------------------------------------------------
# the trace driver (runs in the forked child)

def _do(vec, name, to, N):
    agents = vec.agents
    if name == "reset_async":
        return vec.reset_async()
    if name == "reset_wait":
        return vec.reset_wait(timeout=to)
    if name == "step_async":
        return vec.step_async([[0 for _ in agents] for _ in range(N)])
    if name == "step_wait":
        return vec.step_wait(timeout=to)
    if name == "call_async":
        return vec.call_async("ping", 3)
    if name == "call_wait":
        return vec.call_wait(timeout=to)
    if name == "set_attr":
        return vec.set_attr("knob", 5)
    if name == "reset":
        return vec.reset()
    if name == "step":
        return vec.step({ag: np.zeros(N, dtype=np.int64) for ag in agents})
    if name == "call":
        return vec.call("ping", 3)
    if name == "close":
        return vec.close() if to is None else vec.close(timeout=to)
    if name == "close_term":
        return vec.close(terminate=True)
    raise ValueError(name)


def _summ(name, ret, N):
    typ, cmd = KIND_OF[name]
    if typ in ("async", "close") or name == "set_attr":
        return "none" if ret is None else f"unexpected-return:{type(ret).__name__}"
    if cmd == "call":
        return "good" if tuple(map(tuple, ret)) == tuple((i, 3) for i in range(N)) else f"bad:{ret!r}"[:80]
    want = 2 if cmd == "reset" else 5
    return "good" if isinstance(ret, tuple) and len(ret) == want else f"bad-arity:{type(ret).__name__}"


def c13_trace(spec, emit):
    import multiprocessing as mp

    ctx = mp.get_context("fork")
    N = spec["N"]
    order = list(range(N)) if spec["order"] == "id" else list(range(N))[::-1]
    gate = Gate(ctx, N, [order], patience=T_WATCH + 4)
    fns = [env_fn(i, n_agents=2, obs_kind="vec", act_kind="disc", length=99, gate=gate, faults=spec["plan"], hang_sleep=T_SLEEP, linger=T_LINGER) for i in range(N)]
    emit({"ev": "begin", "k": -1, "call": "construct", "bound": T_WATCH})
    vec = AsyncPettingZooVecEnv(fns)
    emit({"ev": "end", "k": -1})
    disp = {"reset": 0, "step": 0, "call": 0, "setattr": 0}
    last_cmd = None

    def settle(cmd, patience):
        sleepers = {f["env"] for f in spec["plan"] if f["cmd"] == cmd and f["occ"] == disp.get(cmd, 0) and f["kind"] == "sleep"}
        for j, pipe in enumerate(list(vec.parent_pipes)):
            if pipe is None or pipe.closed or j in sleepers:
                continue
            try:
                pipe.poll(patience)
            except (OSError, EOFError, ValueError):
                pass

    for k, (name, to) in enumerate(spec["calls"]):
        if name == "close_term" and not vec.closed and getattr(vec._state, "value", "default") != "default":
            # close(terminate=True) polls with timeout 0: whether an answer "is there" must not be left to the scheduler.
            # (a call is still pending after a failed sync call; answers already consumed by it cost the patience, nothing else)
            settle(last_cmd, 1.0)
        emit({"ev": "begin", "k": k, "call": name, "bound": T_WATCH})
        t0 = time.monotonic()
        try:
            ret = _do(vec, name, to, N)
            out = {"got": "ok", "ret": _summ(name, ret, N)}
        except BaseException as e:                 # noqa: BLE001 - the outcome class is the observation
            out = {"got": type(e).__name__, "msg": str(e)[:160]}
        out["dt"] = round(time.monotonic() - t0, 3)
        out["state"] = getattr(getattr(vec, "_state", None), "value", None)
        out["closed"] = bool(vec.closed)
        if name.startswith("close"):
            out["alive"] = [bool(p.is_alive()) for p in vec.processes]
            out["kids"] = len(live_children())
        emit({"ev": "end", "k": k, **out})
        # own the schedule: the next call is issued only after every worker that is not a scripted sleeper has answered the
        # dispatched command (or died). "Answer not yet there when the next call comes" is what the sleeper plans enumerate.
        typ, cmd = KIND_OF[name]
        if typ in ("async", "sync") and out["got"] not in MISUSE:
            disp[cmd] += 1
            last_cmd = cmd
        if typ == "async" and out["got"] == "ok":
            settle(cmd, 3.0)
    return True


# ------------------------------------------------------------------------------------------
# judging one executed trace

def judge(p, spec, r, rp):
    N = spec["N"]
    m = Model(N, spec["plan"])
    ends = {e["k"]: e for e in r["events"] if e["ev"] == "end"}
    fired_tags = []
    for k, (name, to) in enumerate(spec["calls"]):
        typ, cmd = KIND_OF[name]
        exp, cls = m.expect(name, to)
        st_before, ctx, closed_before, degraded_before = m.st, m.fault_ctx(), m.closed, m.degraded
        ev = ends.get(k)
        if ev is None:
            if r["status"] == "hang" and r["hang"]["k"] == k:
                p.evaluations += 1
                where = f"close/{ctx}" if typ == "close" else f"{'wait' if typ == 'wait' else name}/state={st_before}/{ctx}"
                how = ("every process of the trace (caller and all live workers) is blocked in read()/wait(): deadlock" if r["hang"].get("how") == "deadlock"
                       else f"no return within {T_WATCH}s")
                p.viol(f"{where}/hang", f"call #{k} {name}(timeout={to}) in model state {st_before} ({ctx}) hangs: {how}; calls={[c[0] for c in spec['calls']]} plan={spec['plan']}", rp,
                       observed="hang", expected=sorted(exp))
                p.extra["hang_traces"] += 1
                p.out([name, st_before, "hang"])
                p.dg("hang", k)
                return
            raise HarnessError(f"trace ended without outcome for call {k}: status={r['status']} {r.get('result')!r} spec={spec}")
        got = ev["got"]
        if got == "GateError":
            raise HarnessError(f"gate lost control: {ev} spec={spec}")
        p.evaluations += 1
        ok = Model.matches(exp, got)
        strict = cls in ("misuse", "close") or (cls == "legal" and not degraded_before)
        p.out([name, st_before if not closed_before else "closed", got if strict else "unspecified-after-fault"])
        if strict:
            p.dg(k, name, got if len(exp) == 1 else ("expected" if ok else got), ev["closed"])
        if typ == "close":
            if not closed_before:
                sym = None
                if got != "ok":
                    inj = {f["kind"] for f in m.fired}
                    sym = "raised-" + ("injected-worker-exception" if got in inj else "pipe-error" if got in PIPE_ERRORS else got)
                elif not ev["closed"]:
                    sym = "closed-flag-false"
                elif any(ev["alive"]) or ev["kids"]:
                    sym = "worker-alive"
                elif ev["dt"] > T_CLOSE:
                    sym = "slow"
                if sym:
                    p.viol(f"close/{ctx}/{sym}",
                           f"{name}(timeout={to}) in model state {st_before} ({ctx}): outcome={got} {ev.get('msg', '')!r} closed={ev['closed']} workers alive={ev['alive']} "
                           f"live children={ev['kids']} dt={ev['dt']}s; calls={[c[0] for c in spec['calls']]} plan={spec['plan']}", rp,
                           observed={"outcome": got, "closed": ev["closed"], "alive": ev["alive"]}, expected="returns, closed=True, no worker alive")
                    p.dg("close", sym)
            elif got != "ok":
                p.viol(f"close/already-closed/raised-{got}", f"close() on a closed env raised {got}", rp)
        elif not ok:
            g_txt = f"got-{got}"
            if cls == "misuse":
                g_txt = "not-raised"           # what came instead (ok / some other exception) may depend on the schedule; it is in the text
            e_txt = sorted(exp)[0] if len(exp) == 1 else ("same-exception-type" if exp <= set(EXC_KINDS) else "|".join(sorted(exp)))
            if cls == "legal" and not degraded_before and exp <= set(EXC_KINDS):
                e_txt = "same-exception-type"
            mid = "" if cls == "misuse" else f"/{ctx}"      # a misuse verdict depends on the automaton state only
            p.viol(f"{name}/state={st_before if not closed_before else 'closed'}{mid}/expected-{e_txt}/{g_txt}",
                   f"call #{k} {name}(timeout={to}) in model state {st_before} closed={closed_before} ({ctx}): expected {sorted(exp)}, observed {got} {ev.get('msg', '')!r}; "
                   f"calls={[c[0] for c in spec['calls']]} plan={spec['plan']}", rp, observed=got, expected=sorted(exp))
        elif got == "ok" and cls == "legal" and not degraded_before and ev.get("ret", "good") not in ("good", "none"):
            p.viol(f"{name}/result/{ev['ret'].split(':')[0]}", f"{name} returned {ev['ret']}; calls={[c[0] for c in spec['calls']]} plan={spec['plan']}", rp)
        n_fired = len(m.fired)
        m.observe(name, to, got, cls, ok)
        if len(m.fired) > n_fired:
            for f in m.fired[n_fired:]:
                nxt = spec["calls"][k + 1][0] if k + 1 < len(spec["calls"]) else "end"
                fired_tags.append([f["cmd"], f["occ"], f["kind"], "pending" if typ == "async" else "sync", nxt])
        # the private state must follow the documented automaton wherever the model knows it
        if typ != "close" and not m.closed and m.st != "unknown" and ok and ev["state"] != m.st and not (degraded_before and cls == "legal"):
            p.viol(f"{name}/state-after/expected-{m.st}/got-{ev['state']}",
                   f"after call #{k} {name} (outcome {got}) _state={ev['state']!r}, documented automaton: {m.st!r}; calls={[c[0] for c in spec['calls']]} plan={spec['plan']}", rp,
                   observed=ev["state"], expected=m.st)
    for t in fired_tags:
        if t[3] == "pending":
            p.nt(t)
        p.extra["faults_fired"] += 1
    if r["status"] == "crash":
        raise HarnessError(f"trace child crashed: {r['result']}\nspec={spec}")


def run_task(task):
    p = Partial()
    specs = [task["spec"]] if task.get("kind") == "one" else gen_traces(task)
    results = run_many(c13_trace, specs, concurrency=CONCURRENCY, default_bound=T_WATCH)
    for spec, r in zip(specs, results):
        rp = {"kind": "one", "spec": spec}
        p.traces += 1
        p.extra["traces_with_fault" if spec["plan"] else "traces_misuse_only"] += 1
        judge(p, spec, r, rp)
        p.sample({"N": spec["N"], "calls": spec["calls"], "plan": spec["plan"], "order": spec["order"],
                  "observed": [e.get("got") for e in r["events"] if e["ev"] == "end" and e["k"] >= 0]})
    return p
