"""C12 — the vectorised multi-agent environment equals N independent environments.

Engine E4 (protocol conformance). The *model* is the specification itself: N sequential copies of the scripted
`ScriptEnv` (mcx/fixtures/scriptenv.py) with the auto-reset rule "when no live agent is left in env i, reset env i
alone (no seed) and return the first observation of the new episode". All model traces inside the stated bounds are
enumerated and EVERY one is replayed on the real `AsyncPettingZooVecEnv` with real worker processes; the completion
order of the workers' `step` is forced by a turn gate inside the scripted env (plus a free-running schedule). Every
trace runs in a forked child (own process group) under a watchdog: a hang is a verdict, never a hung check.
The same traces (N=1) are replayed in-process on `PettingZooAutoResetParallelWrapper`.

Why finer interleavings than "completion order of step" need not be enumerated: the workers share nothing but the
observation RawArrays, in which worker i writes only slice [i*size, (i+1)*size) of every leaf; the parent reads pipes
in index order after *all* workers answered. The gate therefore permutes everything that can be observed.
"""
from __future__ import annotations

import hashlib
import itertools
import json

import numpy as np
from gymnasium import spaces
from gymnasium.vector.utils import batch_space

from agilerl.vector.pz_async_vec_env import AsyncPettingZooVecEnv
from agilerl.wrappers.pettingzoo_wrappers import PettingZooAutoResetParallelWrapper

from ..core import HarnessError, Partial
from ..fixtures.procrun import live_children, run_trace
from ..fixtures.scriptenv import ACT_KINDS, END_MODES, OBS_KINDS, Gate, ScriptEnv, action_value, env_fn
LEAVES = [False, True, 2]   # agent_0 stays / leaves one step / two steps before the end of its episode (see ScriptEnv._leave_step)

LEVEL = "model_checking"
RULE = (
    "model = N sequential ScriptEnv copies + auto-reset rule; traces = families A (all length vectors {1,2,3}^N x end mode x "
    "leaving agent x completion-order schedules x action patterns), B (obs kind x action kind x #agents x copy x reset seed on "
    "selected interleavings), C (ALL action sequences over the 2-letter alphabet for small configurations), W (the same model "
    "with N=1 on PettingZooAutoResetParallelWrapper, in-process); every trace replayed on the real implementation and every "
    "returned value compared at every position. states = distinct model states (episode, t, live agents per env) per task, "
    "transitions = reset/step calls judged; non-trivial = distinct (N, lengths, end, leave) in which >=2 envs auto-reset at "
    "different step sets; outcome = distinct per-step pattern of (auto-reset / absent agent / plain) over envs"
)
ASSUMPTIONS = [
    "vec.reset(seed=s) seeds sub-environment i with s+i (gymnasium convention); automatic resets are unseeded",
    "an environment is finished when no live agent is left (PettingZoo: env.agents is empty after the step)",
    "at an auto-reset step the info of env i may be either the terminal step's info or the new episode's reset info (weaker reading)",
    "for an agent that left its episode the observation slot is unconstrained (shape/dtype only); reward/terminated/truncated must be the "
    "documented placeholders 0/True/False (get_placeholder_value); its info may be absent or {}",
    "a scalar (Discrete) observation leaf may be returned as (N,) or (N,1) (weaker reading of 'declared shape')",
    "worker completion order is controlled at the granularity 'return of env.step'; a free-running schedule is included",
    "actions are sent as vec.step({agent: array of N actions}) exactly like the training loops do",
]

STEP_BOUND = 10.0


# ------------------------------------------------------------------------------------------
# bounds / tasks

def bounds(tier):
    q = tier == "quick"
    return {
        "A_schedules": {
            "N": [1, 2, 3], "lengths": "{1,2,3}^N", "end": END_MODES, "leave": LEAVES,
            "agents": [2] if q else [2, 3], "steps": "2*max(length)+1",
            "orders": ("N>=2: identity, reverse, free-running" if q else
                       "N=2: all 2^4 per-step order sequences (cycled) + free; N=3: 6 constant orders + 6 rotations through S_3 + free"),
            "action_patterns": 2 if q else 4, "obs": "vec", "act": "disc", "copy": True, "seed": None,
        },
        "B_representation": {
            "obs": OBS_KINDS, "act": ACT_KINDS, "agents": [1, 2, 3], "copy": [True, False], "seed": [None, 7],
            "interleavings": ([[2], [1, 2], [2, 1, 3]] if q else [[2], [3], [1, 2], [3, 1], [2, 1, 3], [1, 3, 2]]),
            "end_leave": ([["term", False], ["trunc", False], ["term", True], ["term", 2]] if q else "end x leave (9)"),
            "orders": "reverse", "action_patterns": 1,
        },
        "C_actions": {
            "configs(N,agents,lengths,steps)": ([[1, 1, [2], 4], [2, 1, [1, 2], 3], [1, 2, [2], 3]] if q else
                                                [[1, 1, [2], 5], [2, 1, [1, 2], 4], [1, 2, [2], 4], [2, 2, [2, 1], 2]]),
            "act": ACT_KINDS, "sequences": "all 2^(steps*N*agents)",
        },
        "W_wrapper": {"lengths": [1, 2, 3], "end": END_MODES, "leave": LEAVES, "agents": [1, 2, 3], "obs": OBS_KINDS,
                      "act": ACT_KINDS, "seed": [None, 7], "action_patterns": 2 if q else 4,
                      "steps": "2*length+1",
                      "all_action_sequences": "agents=1 (all lengths)" if q else "agents=1 (all lengths); agents=2 with length 1"},
        "watchdog_s_per_call": STEP_BOUND,
    }


def pattern_bits(p, steps, N, A):
    """four fixed action patterns as bit strings"""
    b = 0
    for k in range(steps):
        for i in range(N):
            for a in range(A):
                if p == 0:
                    x = (k + i + a) & 1
                elif p == 1:
                    x = (k + i + a + 1) & 1
                elif p == 2:
                    x = ((k >> 1) + i) & 1
                else:
                    x = (k * 3 + i * 5 + a * 7) % 3 == 0
                b |= int(x) << ((k * N + i) * A + a)
    return b


def order_schedules(N, tier):
    ident = list(range(N))
    if N == 1:
        return [["free"]]
    if tier == "quick":
        return [[ident], [ident[::-1]], ["free"]]
    if N == 2:
        out = [[[0, 1] if not (m >> j) & 1 else [1, 0] for j in range(4)] for m in range(16)]
        return out + [["free"]]
    perms = [list(p) for p in itertools.permutations(range(N))]
    out = [[p] for p in perms]
    out += [perms[r:] + perms[:r] for r in range(len(perms))]
    return out + [["free"]]


def tasks(tier, seed):
    b = bounds(tier)
    out = []
    for N in (1, 2, 3):
        for L in itertools.product((1, 2, 3), repeat=N):
            for end in END_MODES:
                for A in b["A_schedules"]["agents"]:
                    n_tr = 2 * len(order_schedules(N, tier)) * b["A_schedules"]["action_patterns"]
                    out.append({"family": "A", "N": N, "L": list(L), "end": end, "A": A, "tier": tier,
                                "_cost": n_tr * (2 * max(L) + 2) * (1 + N)})
    for obs in OBS_KINDS:
        for act in ACT_KINDS:
            for A in (1, 2, 3):
                out.append({"family": "B", "obs": obs, "act": act, "A": A, "tier": tier, "_cost": 36 * 6 * 3 * (1 if tier == "quick" else 4)})
    for ci, cfg in enumerate(b["C_actions"]["configs(N,agents,lengths,steps)"]):
        N, A, L, steps = cfg
        nseq = 2 ** (steps * N * A)
        chunks = max(1, nseq // 64)
        for act in ACT_KINDS:
            for c in range(chunks):
                out.append({"family": "C", "N": N, "A": A, "L": L, "steps": steps, "act": act, "chunk": c, "chunks": chunks,
                            "tier": tier, "_cost": (nseq // chunks) * (steps + 1) * (1 + N)})
    for obs in OBS_KINDS:
        for act in ACT_KINDS:
            out.append({"family": "W", "obs": obs, "act": act, "tier": tier, "_cost": 400})
    return out


def specs_of(task):
    """the finite list of trace specs of one task"""
    tier = task.get("tier", "quick")
    fam = task["family"]
    b = bounds(tier)
    if fam == "single":
        return [task["spec"]]
    out = []
    if fam == "A":
        N, L, A = task["N"], task["L"], task["A"]
        steps = 2 * max(L) + 1
        for leave in LEAVES:
            if max(L) <= int(leave):
                continue
            for orders in order_schedules(N, tier):
                for p in range(b["A_schedules"]["action_patterns"]):
                    out.append({"impl": "async", "N": N, "A": A, "obs": "vec", "act": "disc", "L": L, "end": task["end"], "leave": leave,
                                "copy": True, "seed": None, "orders": orders, "abits": pattern_bits(p, steps, N, A), "steps": steps})
    elif fam == "B":
        A = task["A"]
        inter = b["B_representation"]["interleavings"]
        el = b["B_representation"]["end_leave"]
        if isinstance(el, str):
            el = [[e, l] for e in END_MODES for l in LEAVES]
        for L in inter:
            N = len(L)
            steps = 2 * max(L) + 1
            for end, leave in el:
                if leave and (A < 2 or max(L) <= int(leave)):
                    continue
                for copy in (True, False):
                    for sd in (None, 7):
                        out.append({"impl": "async", "N": N, "A": A, "obs": task["obs"], "act": task["act"], "L": L, "end": end, "leave": leave,
                                    "copy": copy, "seed": sd, "orders": [list(range(N))[::-1]], "abits": pattern_bits(0, steps, N, A), "steps": steps})
    elif fam == "C":
        N, A, L, steps = task["N"], task["A"], task["L"], task["steps"]
        nseq = 2 ** (steps * N * A)
        per = nseq // task["chunks"]
        for bits in range(task["chunk"] * per, (task["chunk"] + 1) * per):
            out.append({"impl": "async", "N": N, "A": A, "obs": "mdisc", "act": task["act"], "L": L, "end": "term", "leave": False,
                        "copy": True, "seed": None, "orders": [list(range(N))[::-1]], "abits": bits, "steps": steps})
    elif fam == "W":
        for L in (1, 2, 3):
            steps = 2 * L + 1
            for end in END_MODES:
                for leave in LEAVES:
                    for A in (1, 2, 3):
                        if leave and (A < 2 or L <= int(leave)):
                            continue
                        for sd in (None, 7):
                            pats = [pattern_bits(p, steps, 1, A) for p in range(b["W_wrapper"]["action_patterns"])]
                            if A == 1 or (tier != "quick" and A == 2 and L == 1):
                                pats = list(range(2 ** (steps * A)))
                            for bits in sorted(set(pats)):
                                out.append({"impl": "wrapper", "N": 1, "A": A, "obs": task["obs"], "act": task["act"], "L": [L], "end": end,
                                            "leave": leave, "copy": True, "seed": sd, "orders": ["free"], "abits": bits, "steps": steps})
    else:
        raise HarnessError(f"unknown family {fam}")
    return out


# ------------------------------------------------------------------------------------------
# reference model

def letter(spec, k, i, a):
    return (spec["abits"] >> ((k * spec["N"] + i) * spec["A"] + a)) & 1


class Ref:
    """N sequential copies; auto-reset rule of the property statement."""

    def __init__(self, spec):
        self.spec = spec
        self.envs = [ScriptEnv(i, n_agents=spec["A"], obs_kind=spec["obs"], act_kind=spec["act"], length=spec["L"][i],
                               end=spec["end"], leave=spec["leave"]) for i in range(spec["N"])]
        self.agents = list(self.envs[0].possible_agents)

    def state(self):
        return tuple((e.episode, e.t, len(e.agents)) for e in self.envs)

    def reset(self, seed):
        res = []
        for i, e in enumerate(self.envs):
            o, inf = e.reset(seed=None if seed is None else seed + i)
            res.append({"obs": o, "infos": [inf], "present": list(self.agents)})
        return res

    def step(self, k):
        res = []
        for i, e in enumerate(self.envs):
            live_before = list(e.agents)
            acts = {ag: action_value(self.spec["act"], letter(self.spec, k, i, a)) for a, ag in enumerate(self.agents)}
            o, r, te, tr, inf = e.step({ag: acts[ag] for ag in live_before})
            feats = dict(e.last_feat)
            alt = {ag: e.obs_for(self.agents.index(ag), f[:6] + [0]) for ag, f in feats.items()}     # same value, "declared shape lost" flag
            d = {"present": list(o.keys()), "rew": r, "term": te, "trunc": tr, "auto": False, "obs": o, "obs_alt": alt,
                 "infos": [inf], "term_obs": None, "term_obs_alt": None,
                 "end_kind": None}
            if not e.agents:
                d["end_kind"] = ("term" if all(te.values()) else "trunc" if all(tr.values()) and not any(te.values()) else "mixed")
                o2, inf2 = e.reset()
                d.update(auto=True, obs=o2, obs_alt=None, term_obs=o, term_obs_alt=alt, infos=[inf, inf2])
            res.append(d)
        return res


# ------------------------------------------------------------------------------------------
# comparison helpers

def leaves(space, val, path=""):
    if isinstance(space, spaces.Dict):
        for k, sub in space.spaces.items():
            yield from leaves(sub, val[k], f"{path}.{k}")
    elif isinstance(space, spaces.Tuple):
        for j, sub in enumerate(space.spaces):
            yield from leaves(sub, val[j], f"{path}[{j}]")
    else:
        yield path, space, val


def norm_single(space, val):
    return [np.asarray(v).reshape(sp.shape) for _, sp, v in leaves(space, val)]


def extract(space, got, i):
    out = []
    for _, sp, arr in leaves(space, got):
        a = np.asarray(arr)[i]
        out.append(a.reshape(sp.shape))
    return out


def same(xs, ys):
    return len(xs) == len(ys) and all(x.shape == y.shape and np.array_equal(x, y) for x, y in zip(xs, ys))


def decl_problems(space, got, N):
    """declared shape / dtype of a batched observation"""
    probs = []
    if isinstance(space, spaces.Dict) and not (hasattr(got, "keys") and list(got.keys()) == list(space.spaces.keys())):
        return [f"dict observation keys {list(got.keys()) if hasattr(got, 'keys') else type(got).__name__} != {list(space.spaces.keys())}"]
    if isinstance(space, spaces.Tuple) and not (isinstance(got, tuple) and len(got) == len(space.spaces)):
        return [f"tuple observation returned as {type(got).__name__}"]
    for path, sp, arr in leaves(space, got):
        if not isinstance(arr, np.ndarray):
            probs.append(f"leaf{path}: {type(arr).__name__} is not an ndarray")
            continue
        ok_shapes = [(N, *sp.shape)] + ([(N, 1)] if sp.shape == () else [])
        if arr.shape not in ok_shapes:
            probs.append(f"leaf{path}: shape {arr.shape} expected {ok_shapes[0]}")
        if arr.dtype != sp.dtype:
            probs.append(f"leaf{path}: dtype {arr.dtype} expected {sp.dtype}")
    return probs


def info_of_env(vinfos, i):
    out = {}
    for key, val in vinfos.items():
        if isinstance(key, str) and key.startswith("_"):
            continue
        mask = vinfos.get(f"_{key}")
        if mask is None:
            raise KeyError(f"mask _{key} missing")
        if not bool(mask[i]):
            continue
        if isinstance(val, dict):
            out[key] = info_of_env(val, i)
        else:
            v = val[i]
            out[key] = v.item() if hasattr(v, "item") else v
    return out


def strip_empty(d):
    return {k: v for k, v in d.items() if v != {}}


def brief(x):
    if isinstance(x, (list, tuple)):
        return [brief(v) for v in x]
    if isinstance(x, dict):
        return {str(k): brief(v) for k, v in x.items()}
    if isinstance(x, np.ndarray):
        return x.tolist()
    if isinstance(x, np.generic):
        return x.item()
    return x


class Judge:
    def __init__(self, spec, prefix):
        self.spec, self.prefix = spec, prefix
        self.viol = []          # (key, what, observed, expected)
        self.keys = set()
        self.dig = hashlib.sha1()
        self.stop = False

    def v(self, key, what, observed=None, expected=None, fatal=False):
        key = f"{self.prefix}/{key}"
        if key not in self.keys:
            self.keys.add(key)
            self.viol.append([key, what, brief(observed), brief(expected)])
        if fatal:
            self.stop = True


def judge_vec(J, vec, ref_agents, sp_of, N, exp, got_obs, got_infos, where, rews=None, terms=None, truncs=None):
    """compare one batched return with the per-env expectations `exp`"""
    spec = J.spec
    kind = spec["obs"]
    # declared shapes / dtypes
    for ag in ref_agents:
        try:
            g = got_obs[ag]
        except Exception as e:
            J.v(f"{where}/obs-agent-missing", f"no observation for {ag}: {e!r}", fatal=True)
            return
        probs = decl_problems(sp_of[ag], g, N)
        if probs:
            J.v(f"{where}/declared-shape-or-dtype/{kind}", f"{ag}: " + "; ".join(probs[:3]), fatal=True)
            return
    for i in range(N):
        d = exp[i]
        for ag in ref_agents:
            g = extract(sp_of[ag], got_obs[ag], i)
            J.dig.update(repr([x.tolist() for x in g]).encode())
            if ag not in d["obs"]:
                continue                                   # agent left: slot unconstrained
            want = norm_single(sp_of[ag], d["obs"][ag])
            if same(g, want):
                continue
            flags = None
            if d.get("obs_alt") and ag in d["obs_alt"] and same(g, norm_single(sp_of[ag], d["obs_alt"][ag])):
                flags = ["shape"]
            elif d.get("auto") and ag in d["term_obs"] and same(g, norm_single(sp_of[ag], d["term_obs"][ag])):
                flags = ["terminal"]
            elif d.get("auto") and ag in d["term_obs_alt"] and same(g, norm_single(sp_of[ag], d["term_obs_alt"][ag])):
                flags = ["terminal", "shape"]
            if flags is None:
                J.v(f"{where}/obs-mismatch" + ("/at-auto-reset" if d.get("auto") else ""),
                    f"step {J.k}: position {i} {ag} ({kind} observation): differs from sequential env {i}", observed=g, expected=want, fatal=True)
                return
            if "terminal" in flags:
                J.v(f"{where}/autoreset/terminal-observation-returned",
                    f"step {J.k}: env {i} finished (lengths={spec['L']}, end={d['end_kind']}) and was reset, but position {i} of {ag} holds the TERMINAL observation "
                    f"of the old episode instead of the first observation of the new one", observed=g, expected=want)
            if "shape" in flags:
                J.v(f"{where}/action/declared-shape-lost/{spec['act']}",
                    f"step {J.k}: sub-env {i} received the {spec['act']} action of {ag} with a shape that is not its action_space's (value intact)",
                    observed=g, expected=want)
        if rews is None:
            continue
        for name, arrs, fld, ph in (("reward", rews, "rew", 0), ("terminated", terms, "term", True), ("truncated", truncs, "trunc", False)):
            for ag in ref_agents:
                try:
                    a = np.asarray(arrs[ag])
                except Exception as e:
                    J.v(f"{where}/{name}-agent-missing", f"{name} has no entry for {ag}: {e!r}", fatal=True)
                    return
                if a.shape != (N,):
                    J.v(f"{where}/{name}-shape", f"{name}[{ag}] has shape {a.shape}, expected {(N,)}", fatal=True)
                    return
                J.dig.update(repr(a.tolist()).encode())
                if ag in d[fld]:
                    if a[i] != d[fld][ag] or (name != "reward" and a.dtype != np.bool_):
                        J.v(f"{where}/{name}-mismatch", f"step {J.k}: position {i} {ag}: {name}={a[i]!r} ({a.dtype}) but sequential env {i} gives {d[fld][ag]!r}",
                            observed=a, expected=d[fld][ag], fatal=True)
                        return
                elif a[i] != ph:
                    J.v(f"{where}/agent-left/placeholder-{name}", f"step {J.k}: {ag} has left env {i}; {name}={a[i]!r}, documented placeholder {ph!r}",
                        observed=a, expected=ph, fatal=True)
                    return
    # infos
    for i in range(N):
        try:
            gi = strip_empty(info_of_env(got_infos, i))
        except Exception as e:
            J.v(f"{where}/info-malformed", f"vector info cannot be decoded for env {i}: {e!r}", observed=str(got_infos), fatal=True)
            return
        J.dig.update(repr(sorted((k, sorted(v.items())) for k, v in gi.items())).encode())
        alts = [strip_empty(a) for a in exp[i]["infos"]]
        if gi not in alts:
            J.v(f"{where}/info-mismatch", f"step {J.k}: info of position {i} differs from sequential env {i}", observed=gi, expected=alts, fatal=True)
            return


# ------------------------------------------------------------------------------------------
# trace on the real async vec env (runs in the forked child)

def async_trace(spec, emit):
    import multiprocessing as mp

    ctx = mp.get_context("fork")
    N, A = spec["N"], spec["A"]
    orders = [None if o == "free" else o for o in spec["orders"]]
    gate = Gate(ctx, N, orders)
    fns = [env_fn(i, n_agents=A, obs_kind=spec["obs"], act_kind=spec["act"], length=spec["L"][i], end=spec["end"], leave=spec["leave"], gate=gate)
           for i in range(N)]
    ref = Ref(spec)
    J = Judge(spec, "async")
    J.k = -1
    out = {"auto": [[] for _ in range(N)], "states": [], "patterns": [], "calls": 0}
    emit({"ev": "begin", "k": -2, "call": "construct", "bound": STEP_BOUND})
    vec = AsyncPettingZooVecEnv(fns, copy=spec["copy"])
    emit({"ev": "end", "k": -2})
    try:
        agents = list(vec.agents)
        sp_of = {ag: ref.envs[0].observation_space(ag) for ag in ref.agents}
        if agents != ref.agents:
            J.v("spaces/agents", f"vec.agents={agents} != {ref.agents}", fatal=True)
        for ag in ref.agents:
            if J.stop:
                break
            for nm, got, want in (("single_observation_space", vec.single_observation_space(ag), sp_of[ag]),
                                  ("observation_space", vec.observation_space(ag), batch_space(sp_of[ag], N)),
                                  ("single_action_space", vec.single_action_space(ag), ref.envs[0].action_space(ag)),
                                  ("action_space", vec.action_space(ag), batch_space(ref.envs[0].action_space(ag), N))):
                if got != want:
                    J.v(f"spaces/{nm}", f"{nm}({ag}) = {got} expected {want}", fatal=True)
        prev = None
        if not J.stop:
            emit({"ev": "begin", "k": -1, "call": "reset", "bound": STEP_BOUND})
            try:
                o, inf = vec.reset(seed=spec["seed"])
            except Exception as e:
                if type(e).__name__ == "GateError":
                    return {"harness_error": repr(e)}
                J.v(f"reset/exception/{type(e).__name__}", f"reset(seed={spec['seed']}) raised {e!r}", fatal=True)
            emit({"ev": "end", "k": -1})
            out["calls"] += 1
            if not J.stop:
                exp = ref.reset(spec["seed"])
                out["states"].append(ref.state())
                judge_vec(J, vec, ref.agents, sp_of, N, exp, o, inf, "reset")
                if spec["copy"]:
                    prev = (o, {ag: extract_all(sp_of[ag], o[ag]) for ag in ref.agents})
        for k in range(spec["steps"]):
            if J.stop:
                break
            J.k = k
            acts = {ag: np.stack([np.asarray(action_value(spec["act"], letter(spec, k, i, a))) for i in range(N)])
                    for a, ag in enumerate(ref.agents)}
            exp = ref.step(k)
            absent = any(len(d["present"]) < A or len(d["rew"]) < A for d in exp)
            emit({"ev": "begin", "k": k, "call": "step", "bound": STEP_BOUND})
            try:
                o, r, te, tr, inf = vec.step(acts)
            except Exception as e:
                if type(e).__name__ == "GateError":
                    return {"harness_error": repr(e)}
                ctxt = "agent-left/" if absent else ""
                J.v(f"step/{ctxt}exception/{type(e).__name__}",
                    f"step {k} raised {e!r}" + (f"; an agent had left its episode in env(s) {[i for i, d in enumerate(exp) if len(d['rew']) < A]} "
                                                f"(step_wait indexes every agent of every env; placeholders for missing agents are never filled in)" if absent else ""),
                    observed=repr(e), expected="5-tuple with placeholders" if absent else "5-tuple", fatal=True)
                break
            emit({"ev": "end", "k": k})
            out["calls"] += 1
            out["states"].append(ref.state())
            out["patterns"].append("".join(("R" if d["auto"] else "l" if len(d["rew"]) < A else "-") for d in exp))
            for i, d in enumerate(exp):
                if d["auto"]:
                    out["auto"][i].append(k)
            if prev is not None:
                for ag in ref.agents:
                    if not all(same(x, y) for x, y in zip(extract_all(sp_of[ag], prev[0][ag]), prev[1][ag])):
                        J.v("copy/returned-observation-aliased", f"copy=True: the observation returned by the previous call changed after step {k}", fatal=True)
                        break
            if J.stop:
                break
            judge_vec(J, vec, ref.agents, sp_of, N, exp, o, inf, "step", r, te, tr)
            if spec["copy"]:
                prev = (o, {ag: extract_all(sp_of[ag], o[ag]) for ag in ref.agents})
    finally:
        emit({"ev": "begin", "k": 99, "call": "close", "bound": STEP_BOUND})
        if J.stop:
            try:
                vec.close(terminate=True)
            except Exception:
                pass
        else:
            try:
                vec.close()
                alive = [p.is_alive() for p in vec.processes]
                kids = live_children()
                if any(alive) or kids or not vec.closed:
                    J.v("close/worker-alive", f"after close(): closed={vec.closed} is_alive={alive} live child pids={len(kids)}")
            except Exception as e:
                J.v(f"close/exception/{type(e).__name__}", f"close() raised {e!r}")
        emit({"ev": "end", "k": 99})
    out["viol"] = J.viol
    out["digest"] = J.dig.hexdigest()
    out["states"] = [list(map(list, s)) for s in out["states"]]
    return out


def extract_all(space, got):
    return [np.array(np.asarray(arr), copy=True) for _, _, arr in leaves(space, got)]


# ------------------------------------------------------------------------------------------
# trace on the single-env auto-reset wrapper (in-process)

def wrapper_trace(spec):
    A = spec["A"]
    ref = Ref(spec)
    J = Judge(spec, "wrapper")
    J.k = -1
    out = {"auto": [[]], "states": [], "patterns": [], "calls": 0}
    inner = ScriptEnv(0, n_agents=A, obs_kind=spec["obs"], act_kind=spec["act"], length=spec["L"][0], end=spec["end"], leave=spec["leave"])
    sp_of = {ag: inner.observation_space(ag) for ag in ref.agents}

    def cmp_obs(o, d, where):
        if list(o.keys()) != list(d["obs"].keys()):
            # identify the classic miss: terminal return instead of reset
            if d["auto"] and list(o.keys()) == list(d["term_obs"].keys()) and all(
                    same(norm_single(sp_of[ag], o[ag]), norm_single(sp_of[ag], d["term_obs"][ag])) for ag in o):
                return "missed"
            J.v(f"{where}/obs-agents", f"step {J.k}: observation has agents {list(o.keys())}, expected {list(d['obs'].keys())}", fatal=True)
            return "bad"
        for ag in o:
            g, want = norm_single(sp_of[ag], o[ag]), norm_single(sp_of[ag], d["obs"][ag])
            J.dig.update(repr([x.tolist() for x in g]).encode())
            if same(g, want):
                continue
            if d["auto"] and ag in d["term_obs"] and same(g, norm_single(sp_of[ag], d["term_obs"][ag])):
                return "missed"
            J.v(f"{where}/obs-mismatch", f"step {J.k}: {ag} ({spec['obs']} observation): differs from the reference", observed=g, expected=want, fatal=True)
            return "bad"
        return "ok"

    try:
        w = PettingZooAutoResetParallelWrapper(inner)
        o, inf = w.reset(seed=spec["seed"])
        out["calls"] += 1
        exp = ref.reset(spec["seed"])[0]
        out["states"].append(ref.state())
        if cmp_obs(o, exp, "reset") == "ok" and strip_empty(inf) not in [strip_empty(x) for x in exp["infos"]]:
            J.v("reset/info-mismatch", "reset info differs", observed=inf, expected=exp["infos"], fatal=True)
        for k in range(spec["steps"]):
            if J.stop:
                break
            J.k = k
            d = ref.step(k)[0]
            acts = {ag: action_value(spec["act"], letter(spec, k, 0, a)) for a, ag in enumerate(ref.agents)}
            o, r, te, tr, inf = w.step(acts)
            out["calls"] += 1
            out["states"].append(ref.state())
            out["patterns"].append("R" if d["auto"] else "l" if len(d["rew"]) < A else "-")
            if d["auto"]:
                out["auto"][0].append(k)
            J.dig.update(repr((sorted(r.items()), sorted(te.items()), sorted(tr.items()))).encode())
            for name, gotd, fld in (("reward", r, "rew"), ("terminated", te, "term"), ("truncated", tr, "trunc")):
                if dict(gotd) != dict(d[fld]):
                    J.v(f"step/{name}-mismatch", f"step {k}: {name} {gotd} expected {d[fld]}", observed=gotd, expected=d[fld], fatal=True)
            if J.stop:
                break
            res = cmp_obs(o, d, "step")
            if res == "missed":
                cond = {"trunc": "truncation-only", "mixed": "terminated+truncated-mix", "term": "all-terminated"}[d["end_kind"]]
                J.v(f"step/autoreset-missed/{'not-all-terminated' if d['end_kind'] != 'term' else 'all-terminated'}",
                    f"step {k}: every agent of the episode is done ({cond}: terminations={te}, truncations={tr}) but the wrapper did not reset: it returned the "
                    f"terminal observation instead of the first observation of a new episode", observed=o, expected=d["obs"], fatal=True)
            elif res == "ok" and strip_empty(inf) not in [strip_empty(x) for x in d["infos"]]:
                J.v("step/info-mismatch", f"step {k}: info differs", observed=inf, expected=d["infos"], fatal=True)
    except Exception as e:
        J.v(f"exception/{type(e).__name__}", f"wrapper raised {e!r} at step {J.k}", fatal=True)
    out["viol"] = J.viol
    out["digest"] = J.dig.hexdigest()
    out["states"] = [list(map(list, s)) for s in out["states"]]
    return out


# ------------------------------------------------------------------------------------------

def run_task(task):
    p = Partial()
    states = set()
    for spec in specs_of(task):
        rp = {"family": "single", "spec": spec}
        if spec["impl"] == "wrapper":
            res = wrapper_trace(spec)
            status = "ok"
        else:
            r = run_trace(async_trace, spec, default_bound=STEP_BOUND)
            status, res = r["status"], r["result"]
            if status == "crash":
                raise HarnessError(f"trace child crashed: {spec}\n{res}")
            if status == "hang":
                p.traces += 1
                p.evaluations += 1
                p.viol(f"async/hang/{r['hang']['call']}", f"call {r['hang']['call']} (k={r['hang']['k']}) did not return within {STEP_BOUND}s", rp)
                p.dg("hang", r["hang"]["call"], r["hang"]["k"])
                continue
            if "harness_error" in res:
                raise HarnessError(f"{res['harness_error']} in {spec}")
        p.traces += 1
        p.transitions += res["calls"]
        p.evaluations += res["calls"]
        for s in res["states"]:
            states.add((spec["N"], spec["A"], tuple(spec["L"]), spec["end"], spec["leave"], tuple(map(tuple, s))))
        for pat in res["patterns"]:
            p.out(pat)
        sets = [tuple(a) for a in res["auto"] if a]
        if len(set(sets)) >= 2:
            p.nt([spec["impl"], spec["N"], spec["L"], spec["end"], spec["leave"]])
        elif spec["impl"] == "wrapper" and sets:
            p.extra["wrapper_traces_with_auto_reset"] += 1
        for key, what, obs, exp in res["viol"]:
            p.viol(key, what, rp, observed=obs, expected=exp)
            p.out("viol:" + key)
        p.dg(res["digest"], [v[0] for v in res["viol"]])
        p.extra[f"traces_{spec['impl']}"] += 1
        p.sample({"spec": spec, "auto_reset_steps_per_env": res["auto"], "verdict": [v[0] for v in res["viol"]] or "conforms"})
    p.states = len(states)
    return p
