"""C06 — an RL-hyperparameter mutation stays in its configured range and takes effect.

E2 (bounded enumeration of mutation sequences, every random draw scripted), two layers:

(a) unit layer on the real `RLParameter`: every (min,max) x shrink x grow x dtype x current value, every sequence
    of <=4 `mutate()` calls, every scripted `torch.rand` answer in {0, 0.4999, 0.5, 0.9999} per call.
(b) agent layer on real populations of every algorithm, mutated through
    `Mutations(no_mutation=0, architecture=0, new_layer_prob=0, parameters=0, activation=0, rl_hp=1).mutation(...)`.
    `torch.randperm` (which hyper-parameter) and `torch.rand` (shrink / grow) are scripted; every answer is enumerated.
    Populations are built by the real `create_population` from ONE shared `HyperparameterConfig` object
    (identical values: kind "created"; different values per member: kind "shared"; lr_actor == lr_critic: "shared-eqlr")
    or by cloning one agent ("clones").
    Sequences: every sequence of <= depth single-member calls `mutation([member])` (this contains every order of
    mutating the members and repeated mutation of one member), plus whole-population calls `mutation(order(pop))`
    for every order and every per-member (hyper-parameter, direction) assignment.

Reference (independent of the implementation): the harness keeps the literals it configured (min, max, factors,
number type) and its own model of every member's current values:
    new = dtype(min(max(own_current * factor, lo), hi)),   factor = shrink if draw < 0.5 else grow.
"""
from __future__ import annotations

import copy
import itertools

import torch

from agilerl.algorithms.core.registry import RLParameter
from agilerl.hpo.mutation import Mutations

from ..core import HarnessError, Partial
from ..fixtures import hpo
from ..rand import patched_many, seeded

LEVEL = "model_checking"
RULE = (
    "bounded exhaustive enumeration (E2, no state merging) of mutation sequences with every random draw scripted: "
    "(a) RLParameter.mutate: full product of configs x current values x all draw sequences of length <=4, each call compared "
    "with dtype(clip(value*factor,min,max)); (b) real agents of all 11 algorithms in populations of 2-3 (shared "
    "HyperparameterConfig via create_population, or clones): all sequences of single-member Mutations.mutation calls up "
    "to the stated depth x every hyper-parameter pick (scripted randperm) x {shrink,grow} (scripted rand), plus "
    "whole-population calls for every member order; after every call the mutated member's attribute, registry cache, "
    "optimizer param_group lrs and optimizer->live-parameter ownership and every other member's values/lrs are compared "
    "with the harness' own value model. transitions = mutation calls executed and judged; traces = maximal sequences; "
    "states = distinct population value vectors. non-trivial = clipped / integer-truncated / unchanged-at-bound "
    "mutations and mutations of a member after a sibling was mutated (per algorithm, kind, hyper-parameter); "
    "outcomes = distinct (algorithm|unit, hyper-parameter, direction, effect class)"
)
ASSUMPTIONS = [
    "the draw decides the factor as documented in RLParameter.mutate: torch.rand(1) < 0.5 shrinks, otherwise grows",
    "converted to the configured number type means dtype(x) (int truncates toward zero); unit-layer inputs whose dtype(current) "
    "falls outside [min,max] are illegal and skipped (counted in counters.unit_illegal_inputs)",
    "which learning-rate argument governs which optimizer attribute is fixed by the harness from the constructor's documented "
    "meaning (actor*/critic* optimizers <- lr_actor/lr_critic, otherwise lr) and validated against the freshly built agent",
    "a sibling's registry cache object moving is counted (counters.sibling_cache_moved) but only judged through its observable "
    "effect on values (the statement speaks of values and learning rates)",
    "kind shared-eqlr hands the same float to lr_actor and lr_critic (as INIT_HP literals do)",
    "branch points of the sequence tree are restored by rebinding the members' attribute dictionaries and RLParameter.value "
    "(the mutation replaces objects, it does not edit them); every restore is verified against the recorded observation "
    "(values, caches, lrs, ownership), a mismatch is a harness error",
]

# ------------------------------------------------------------------------------------------ bounds
RANGES = [(1e-4, 1e-2), (1, 8), (2, 2.5)]
SHRINK = [0.5, 0.8]
GROW = [1.2, 2]
DTYPES = ["float", "int"]
RAND = [0.0, 0.4999, 0.5, 0.9999]
UNIT_DEPTH = 4
DIRS = [0.4999, 0.5]     # agent layer: last shrinking and first growing answer

VALS = {
    "low": {"lr": 1.2e-4, "lr_actor": 1.2e-4, "lr_critic": 1.5e-4, "batch_size": 2, "learn_step": 1},
    "high": {"lr": 9e-3, "lr_actor": 9e-3, "lr_critic": 6e-3, "batch_size": 15, "learn_step": 6},
    "mid": {"lr": 1e-3, "lr_actor": 1e-3, "lr_critic": 2e-3, "batch_size": 5, "learn_step": 3},
}
EQ = {"low": 1.2e-4, "high": 9e-3, "mid": 1e-3}
KIND_VALUES = {"created": ["mid", "mid", "mid"], "created-trained": ["mid", "mid", "mid"], "shared": ["low", "high", "mid"], "shared-eqlr": ["mid", "high", "low"],
               "clones": ["high", "high", "high"]}


def kinds(algo):
    return ["created", "created-trained", "shared", "clones"] + (["shared-eqlr"] if algo in hpo.ACTOR_CRITIC else [])


def bounds(tier):
    q = tier == "quick"
    return {
        "unit": {"ranges": RANGES, "shrink": SHRINK, "grow": GROW, "dtype": DTYPES,
                 "current": ["min", "max", "mid", "min*1.01", "max*0.99"], "rand": RAND, "sequence_len": f"<={UNIT_DEPTH}"},
        "agent": {"algorithms": hpo.ALGOS, "hp_spec": hpo.HP_SPEC, "values": VALS, "eq_lr_values": EQ,
                  "kinds": {"created": "create_population(size=M), one shared config, identical (mid) values",
                            "created-trained": "as created, but every member took one learn step first (optimizers hold Adam state)",
                            "shared": "one shared config, members low/high/mid", "clones": "agent(high) + clones",
                            "shared-eqlr": "actor-critic algorithms only, M=2, lr_actor is lr_critic"},
                  "population": [2, 3], "pick": "every configured hyper-parameter (randperm scripted)", "direction_draws": DIRS,
                  "single_member_sequences_depth": 2 if q else 3,
                  "whole_population_calls": "M=2: all orders x all assignments" + ("" if q else "; M=3 (kind created): all orders x all assignments")},
    }


def tasks(tier, seed):
    q = tier == "quick"
    out = []
    for (lo, hi), s, g, dt in itertools.product(RANGES, SHRINK, GROW, DTYPES):
        out.append({"layer": "a", "lo": lo, "hi": hi, "shrink": s, "grow": g, "dtype": dt, "_cost": 2})
    depth = 2 if q else 3
    for algo in hpo.ALGOS:
        H = len(hpo.hp_names(algo))
        w = {"MATD3": 4, "MADDPG": 3, "TD3": 3, "DDPG": 2}.get(algo, 1)
        for kind in kinds(algo):
            for M in (2, 3):
                if kind in ("shared-eqlr", "created-trained") and M == 3:
                    continue
                b = M * H * len(DIRS)
                if q:
                    out.append({"layer": "b", "mode": "seq", "algo": algo, "kind": kind, "M": M, "depth": depth, "first": None,
                                "_cost": w * (b + b * b) / 10})
                else:
                    for i in range(M):
                        for h in range(H):
                            out.append({"layer": "b", "mode": "seq", "algo": algo, "kind": kind, "M": M, "depth": depth,
                                        "first": [i, h], "_cost": w * 2 * (1 + b + b * b) / 10})
                if M == 2 or (not q and kind == "created"):
                    for order in itertools.permutations(range(M)):
                        out.append({"layer": "b", "mode": "whole", "algo": algo, "kind": kind, "M": M, "order": list(order),
                                    "_cost": w * M * (H * len(DIRS)) ** M / 10})
    return out


# ------------------------------------------------------------------------------------------ reference
def ref_new(value, spec, draw):
    """the property's formula, from the harness' own literals"""
    f = spec["shrink_factor"] if draw < 0.5 else spec["grow_factor"]
    x = min(max(value * f, spec["min"]), spec["max"])
    return int(x) if spec["dtype"] == "int" else float(x)


def effect_class(value, spec, draw):
    f = spec["shrink_factor"] if draw < 0.5 else spec["grow_factor"]
    raw = value * f
    new = ref_new(value, spec, draw)
    if raw < spec["min"]:
        return "clipped-min"
    if raw > spec["max"]:
        return "clipped-max"
    if new == value:
        return "unchanged-by-truncation" if spec["dtype"] == "int" else "unchanged"
    if spec["dtype"] == "int" and new != raw:
        return "int-truncated"
    return "scaled"


def classify_wrong(observed, own, spec, draw, stale_bases=()):
    """discriminating feature of a wrong new value (for a small set of stable keys)"""
    f = spec["shrink_factor"] if draw < 0.5 else spec["grow_factor"]
    other = spec["grow_factor"] if draw < 0.5 else spec["shrink_factor"]
    for tag, base in stale_bases:
        if base is not None and base != own and observed == ref_new(base, spec, draw):
            return tag
    if observed == ref_new(own, {**spec, "shrink_factor": other, "grow_factor": other}, draw):
        return "wrong-direction-for-draw"
    raw = own * f
    conv = (lambda x: int(x)) if spec["dtype"] == "int" else (lambda x: float(x))
    clipped = min(max(raw, spec["min"]), spec["max"])
    if observed == clipped and conv(clipped) != clipped:
        return "not-converted-to-dtype"
    if observed == conv(raw) or observed == raw:
        return "not-clipped"
    if not (spec["min"] <= observed <= spec["max"]):
        return "out-of-range"
    return "other"


# ------------------------------------------------------------------------------------------ layer (a)
def run_unit(task, p: Partial):
    lo, hi, dt = task["lo"], task["hi"], task["dtype"]
    spec = {"min": lo, "max": hi, "shrink_factor": task["shrink"], "grow_factor": task["grow"], "dtype": dt}
    conv = int if dt == "int" else float
    currents = {"min": lo, "max": hi, "mid": (lo + hi) / 2, "min*1.01": lo * 1.01, "max*0.99": hi * 0.99}
    only = task.get("point")
    seen_start = set()
    states = set()
    for cname, c in currents.items():
        start = conv(c)
        if only and only["current"] != cname:
            continue
        if not (lo <= start <= hi):
            p.extra["unit_illegal_inputs"] += 1
            continue
        if start in seen_start and not only:
            p.extra["unit_duplicate_current_after_conversion"] += 1
            continue
        seen_start.add(start)
        seqs = [tuple(only["draws"])] if only else [s for L in range(1, UNIT_DEPTH + 1) for s in itertools.product(RAND, repeat=L)]
        for seq in seqs:
            # one fresh real parameter per sequence; only the last call of a proper extension is new, so judge
            # every call but count an evaluation once per (sequence) = its last call
            par = RLParameter(min=lo, max=hi, shrink_factor=task["shrink"], grow_factor=task["grow"], dtype=conv)
            par.value = start
            model = start
            rp = {**{k: task[k] for k in ("layer", "lo", "hi", "shrink", "grow", "dtype")}, "point": {"current": cname, "draws": list(seq)}}
            ok = True
            for n, r in enumerate(seq):
                used = []

                def fake_rand(*a, **k):
                    used.append(a)
                    return torch.tensor([r], dtype=torch.float32)

                with patched_many([(torch, "rand", fake_rand)]):
                    try:
                        ret = par.mutate()
                    except Exception as e:
                        p.viol(f"RLParameter/mutate/exception/{type(e).__name__}", f"{spec} value={model} draw={r}: {e!r}", rp)
                        ok = False
                        break
                if len(used) != 1:
                    raise HarnessError(f"RLParameter.mutate consumed {len(used)} torch.rand draws")
                want = ref_new(model, spec, r)
                last = n == len(seq) - 1
                if last:
                    p.evaluations += 1
                    p.transitions += 1
                if ret != want or par.value != want:
                    obs = par.value if par.value != want else ret
                    if ret != par.value:
                        p.viol("RLParameter/mutate/returned-value-differs-from-stored", f"{spec} value={model} draw={r}: returned {ret!r} stored {par.value!r}", rp,
                               observed=[ret, par.value], expected=want)
                    else:
                        p.viol(f"RLParameter/mutate/wrong-value/{classify_wrong(obs, model, spec, r)}",
                               f"{spec} value={model!r} draw={r}: got {obs!r}, expected dtype(clip(value*factor)) = {want!r}", rp, observed=obs, expected=want)
                    ok = False
                    break
                if type(ret) is not conv and not (conv is float and isinstance(ret, float)):
                    p.viol("RLParameter/mutate/wrong-number-type", f"{spec} value={model!r}: result {ret!r} is {type(ret).__name__}", rp)
                    ok = False
                    break
                if not (lo <= ret <= hi):
                    p.viol("RLParameter/mutate/out-of-range", f"{spec} value={model!r} draw={r}: result {ret!r} outside [{lo},{hi}]", rp)
                    ok = False
                    break
                if last:
                    ec = effect_class(model, spec, r)
                    if ec != "scaled":
                        p.nt(["unit", lo, hi, task["shrink"], task["grow"], dt, cname, ec, len(seq)])
                    p.out(["unit", dt, "shrink" if r < 0.5 else "grow", ec])
                model = want
                states.add(model)
            p.traces += 1
            p.dg(seq, model if ok else "viol")
    p.states += len(states)
    p.sample({"layer": "a", "config": spec, "currents": sorted(map(repr, seen_start)), "sequences_per_current": sum(len(RAND) ** L for L in range(1, UNIT_DEPTH + 1))})


# ------------------------------------------------------------------------------------------ layer (b)
class Pop:
    """real population + the harness' own model of it"""

    def __init__(self, algo, kind, M):
        self.algo, self.kind, self.M = algo, kind, M
        self.names = hpo.hp_names(algo)
        vk = KIND_VALUES[kind][:M]
        if kind == "shared-eqlr":
            vals = []
            for k in vk:
                v = dict(VALS[k])
                x = EQ[k]
                v["lr_actor"] = x
                v["lr_critic"] = x       # the same float object
                vals.append(v)
        else:
            vals = [dict(VALS[k]) for k in vk]
        if kind in ("created", "created-trained"):
            self.agents = hpo.build(algo, vals[0], hpo.new_hp_config(algo), size=M)
            if kind == "created-trained":
                from ..fixtures import agents as A
                for j, a in enumerate(self.agents):
                    for r in range(getattr(a, "policy_freq", 1)):
                        A.learn(a, A.batch_for(a, algo, "vector", seed=30 + j), seed=30 + j + r)
        elif kind in ("shared", "shared-eqlr"):
            cfg = hpo.new_hp_config(algo)
            self.agents = []
            for j, v in enumerate(vals):
                a = hpo.build(algo, v, cfg, size=1, seed=j)[0]
                a.index = j
                self.agents.append(a)
        elif kind == "clones":
            base = hpo.build(algo, vals[0], hpo.new_hp_config(algo), size=1)[0]
            with seeded(1):
                self.agents = [base] + [base.clone(index=j) for j in range(1, M)]
        else:
            raise HarnessError(kind)
        self.model = [{n: vals[j][n] for n in self.names} for j in range(M)]
        # validate the harness' optimizer<->lr table on the fresh agents
        for j, a in enumerate(self.agents):
            o = observe(a, algo, self.names)
            for attr, lrs in o["lrs"].items():
                want = self.model[j][hpo.lr_of_optimizer_attr(algo, attr)]
                if any(x != want for grp in lrs for x in grp):
                    raise HarnessError(f"{algo}.{attr}: fresh optimizer lrs {lrs} but constructor value {want}")
            for n in self.names:
                if o["vals"][n] != self.model[j][n]:
                    raise HarnessError(f"{algo}: fresh agent {n}={o['vals'][n]!r}, constructor value {self.model[j][n]!r}")
            if not all(o["own"].values()):
                raise HarnessError(f"{algo}: fresh optimizer does not own the live parameters: {o['own']}")

    def sharing(self, j):
        c = self.agents[j].registry.hp_config
        return any(k != j and self.agents[k].registry.hp_config is c for k in range(self.M))


def observe(agent, algo, names):
    vals = {n: getattr(agent, n) for n in names}
    cfg = agent.registry.hp_config
    cache = {n: cfg[n].value for n in names}
    lrs, own, meta = {}, {}, {}
    for attr, w in hpo.optimizers_of(agent).items():
        tos = hpo.torch_optimizers(w)
        lrs[attr] = [[g["lr"] for g in t.param_groups] for t in tos]
        opt_ids = sorted(id(x) for t in tos for g in t.param_groups for x in g["params"])
        live = []
        for nn_name in w.network_names:
            net = getattr(agent, nn_name)
            for m in (net if isinstance(net, list) else [net]):
                live.extend(id(x) for x in m.parameters())
        own[attr] = opt_ids == sorted(live) and len(opt_ids) > 0
        meta[attr] = w.lr_name
    return {"vals": vals, "cache": cache, "lrs": lrs, "own": own, "lr_name": meta}


class Saved:
    """branch-point record of a population. The RL-hyperparameter mutation rebinds attributes (value, optimizer wrapper,
    shared/target networks, mut) and writes RLParameter.value; it does not edit the objects it replaces. So the record
    is: a shallow copy of every member's attribute dictionary + every reachable RLParameter.value + the harness model;
    `restore` puts them back and VERIFIES that the observation (values, caches, lrs, ownership) is the recorded one."""

    def __init__(self, pop: Pop):
        self.dicts = [dict(vars(a)) for a in pop.agents]
        self.agents = list(pop.agents)
        self.params = []
        seen = set()
        for a in pop.agents:
            for n in pop.names:
                par = a.registry.hp_config[n]
                if id(par) not in seen:
                    seen.add(id(par))
                    self.params.append((par, par.value))
        self.model = [dict(m) for m in pop.model]
        self.obs = [observe(a, pop.algo, pop.names) for a in pop.agents]

    def restore(self, pop: Pop):
        pop.agents[:] = self.agents
        for a, d in zip(pop.agents, self.dicts):
            vars(a).clear()
            vars(a).update(d)
        for par, v in self.params:
            par.value = v
        pop.model = [dict(m) for m in self.model]
        now = [observe(a, pop.algo, pop.names) for a in pop.agents]
        if now != self.obs:
            raise HarnessError(f"{pop.algo}: restored population differs from the recorded branch point: {now} vs {self.obs}")


def call_mutation(mut, members, picks, draws):
    """one real Mutations.mutation(members) with the draws of member m scripted as picks[m], draws[m]"""
    pi, di = iter(picks), iter(draws)
    used = {"perm": 0, "rand": 0}

    def fake_randperm(n, *a, **k):
        used["perm"] += 1
        try:
            h = next(pi)
        except StopIteration:
            raise HarnessError("unscripted torch.randperm draw")
        if not (0 <= h < n):
            raise HarnessError(f"randperm({n}) asked while the harness configured a pick {h}")
        return torch.tensor([h] + [x for x in range(n) if x != h], dtype=torch.int64)

    def fake_rand(*a, **k):
        used["rand"] += 1
        if a != (1,):
            raise HarnessError(f"unexpected torch.rand{a} during mutation")
        try:
            return torch.tensor([next(di)], dtype=torch.float32)
        except StopIteration:
            raise HarnessError("unscripted torch.rand draw")

    with seeded(7), patched_many([(torch, "randperm", fake_randperm), (torch, "rand", fake_rand)]):
        out = mut.mutation(members)
    return out, used


def judge(p: Partial, pop: Pop, pre, members, picks, draws, returned, rp, prior_sibling):
    """compare the post-state of the whole population with the reference. members: indices mutated (in order).
    Returns True when everything agrees (exploration may continue below this node)."""
    algo, names = pop.algo, pop.names
    ok = True
    kp = "rl_hp"
    if len(returned) != len(members) or any(returned[k] is not pop.agents[m] for k, m in enumerate(members)):
        # the training loop continues with the returned objects: judge those
        if len(returned) != len(members):
            p.viol(f"{kp}/returned-population-size", f"{algo}: mutation returned {len(returned)} members for {len(members)}", rp)
            return False
        for k, m in enumerate(members):
            pop.agents[m] = returned[k]
    post = [observe(a, algo, names) for a in pop.agents]
    mutated = dict(zip(members, zip(picks, draws)))
    for j in range(pop.M):
        a0, a1 = pre[j], post[j]
        if j in mutated:
            h, d = mutated[j]
            n = names[h]
            spec = hpo.HP_SPEC[n]
            own = pop.model[j][n]
            want = ref_new(own, spec, d)
            got = a1["vals"][n]
            shared = "shared-config" if pop.sharing(j) else "own-config"
            ec = effect_class(own, spec, d)
            tagbase = [algo, pop.kind, n]
            if ec != "scaled":
                p.nt(tagbase + [ec])
            if prior_sibling.get(j):
                p.nt(tagbase + ["after-sibling-mutation"])
            p.out([algo, n, "shrink" if d < 0.5 else "grow", ec])
            # members mutated earlier in the same call that hold the very same RLParameter object: what that object's
            # cache may have carried when this member was mutated (used only to name the defect, never to accept a value)
            par = pop.agents[j].registry.hp_config[n]
            pos = members.index(j)
            earlier = [m for m in members[:pos] if names[mutated[m][0]] == n and pop.agents[m].registry.hp_config[n] is par]
            later = [m for m in members[pos + 1:] if names[mutated[m][0]] == n and pop.agents[m].registry.hp_config[n] is par]
            if got != want:
                cls = classify_wrong(got, own, spec, d, stale_bases=[("base=registry-cache-not-own-value", a0["cache"][n])] +
                                     [("base=registry-cache-not-own-value", post[m]["vals"][n]) for m in earlier] +
                                     [("base=sibling-value", pre[k]["vals"][n]) for k in range(pop.M) if k != j])
                p.viol(f"{kp}/new-value/{cls}/{shared}",
                       f"{algo} [{pop.kind}] member {j}: {n} {own!r} x {'shrink' if d < 0.5 else 'grow'} -> {got!r}, expected "
                       f"dtype(clip(own*factor)) = {want!r} (registry cache before the call: {a0['cache'][n]!r})", rp, observed=got, expected=want)
                ok = False
            elif not (type(got) is int if spec["dtype"] == "int" else isinstance(got, float)):
                p.viol(f"{kp}/new-value/wrong-number-type", f"{algo} member {j}: {n}={got!r} is {type(got).__name__}", rp)
                ok = False
            for n2 in names:
                if n2 != n and a1["vals"][n2] != pop.model[j][n2]:
                    p.viol(f"{kp}/second-hyperparameter-changed", f"{algo} member {j}: mutating {n} also changed {n2} {pop.model[j][n2]!r} -> {a1['vals'][n2]!r}", rp)
                    ok = False
            if a1["cache"][n] != got and not later:
                p.viol(f"{kp}/registry-cache-not-new-value", f"{algo} member {j}: {n} attribute {got!r} but registry cache {a1['cache'][n]!r}", rp,
                       observed=a1["cache"][n], expected=got)
                ok = False
            pop.model[j][n] = want
            # optimizers
            governed = [attr for attr in a1["lrs"] if hpo.lr_of_optimizer_attr(algo, attr) == n]
            for attr, lrs in a1["lrs"].items():
                lrn = hpo.lr_of_optimizer_attr(algo, attr)
                # the value the agent now carries for that learning rate (decouples this check from a wrong new value)
                target = a1["vals"][lrn]
                bad = [x for grp in lrs for x in grp if x != target]
                if bad:
                    if a1["lr_name"].get(attr) != lrn:
                        # one defect, two symptoms (the governing lr is not applied / a foreign lr is applied): one key
                        p.viol(f"{kp}/lr/optimizer-registered-under-wrong-lr-name",
                               f"{algo} [{pop.kind}] member {j}: after mutating {n}, {attr} (governed by {lrn}={target!r}) has param_group lrs {lrs}; "
                               f"the optimizer is recorded under lr_name={a1['lr_name'].get(attr)!r}", rp, observed=lrs, expected=target)
                    elif lrn == n:
                        feat = "later-optimizer-sharing-the-lr" if governed.index(attr) > 0 else "first-optimizer-of-the-lr"
                        p.viol(f"{kp}/lr/not-applied-to-optimizer/{feat}",
                               f"{algo} [{pop.kind}] member {j}: {n} mutated to {target!r} but {attr} param_group lrs are {lrs}", rp, observed=lrs, expected=target)
                    else:
                        p.viol(f"{kp}/lr/unrelated-optimizer-lr-moved", f"{algo} member {j}: mutating {n} moved {attr} lrs to {lrs}, its {lrn} is {target!r}", rp,
                               observed=lrs, expected=target)
                    ok = False
                if not a1["own"][attr]:
                    p.viol(f"{kp}/optimizer-lost-live-parameters", f"{algo} member {j}: after mutating {n}, {attr} no longer holds exactly the parameters of {attr}'s networks", rp)
                    ok = False
        else:
            for n in names:
                if a1["vals"][n] != pop.model[j][n]:
                    p.viol(f"{kp}/other-agent/value-moved", f"{algo} [{pop.kind}] member {j} was not mutated but {n} {pop.model[j][n]!r} -> {a1['vals'][n]!r}", rp)
                    ok = False
                if a1["cache"][n] != a0["cache"][n]:
                    p.extra["sibling_cache_moved"] += 1
            if a1["lrs"] != a0["lrs"]:
                p.viol(f"{kp}/other-agent/lr-moved", f"{algo} [{pop.kind}] member {j} was not mutated but optimizer lrs {a0['lrs']} -> {a1['lrs']}", rp)
                ok = False
            if not all(a1["own"].values()):
                p.viol(f"{kp}/other-agent/optimizer-lost-live-parameters", f"{algo} member {j}: {a1['own']}", rp)
                ok = False
    return ok


def new_mutations():
    with seeded(0):
        return Mutations(no_mutation=0, architecture=0, new_layer_prob=0, parameters=0, activation=0, rl_hp=1, rand_seed=0, device="cpu")


def do_call(p, pop, mut, members, picks, draws, rp, prior_sibling):
    pre = [observe(a, pop.algo, pop.names) for a in pop.agents]
    p.evaluations += 1
    p.transitions += 1
    try:
        returned, used = call_mutation(mut, [pop.agents[m] for m in members], picks, draws)
    except HarnessError:
        raise
    except Exception as e:
        p.viol(f"rl_hp/exception/{type(e).__name__}", f"{pop.algo} [{pop.kind}] mutation(members {members}) picks {picks} draws {draws}: {e!r}", rp)
        return False
    if used["perm"] != len(members) or used["rand"] != len(members):
        raise HarnessError(f"mutation of {len(members)} members consumed {used} scripted draws")
    ok = judge(p, pop, pre, members, picks, draws, returned, rp, prior_sibling)
    p.dg(members, picks, draws, [sorted(m.items()) for m in pop.model], ok)
    return ok


def run_agents(task, p: Partial):
    algo, kind, M = task["algo"], task["kind"], task["M"]
    base_rp = {k: task[k] for k in ("layer", "mode", "algo", "kind", "M") if k in task}
    root = Pop(algo, kind, M)
    mut = new_mutations()
    H = len(root.names)
    states = set()

    def key(pop):
        return tuple(tuple(m[n] for n in pop.names) for m in pop.model)

    if task["mode"] == "whole":
        orders = [task["order"]]
        assigns = [task["point"]] if task.get("point") else [list(x) for x in itertools.product(itertools.product(range(H), range(len(DIRS))), repeat=M)]
        saved = Saved(root)
        pop = root
        for order in orders:
            for asg in assigns:
                saved.restore(pop)
                picks = [a[0] for a in asg]
                draws = [DIRS[a[1]] for a in asg]
                rp = {**base_rp, "order": list(order), "point": [list(a) for a in asg]}
                prior = {m: k > 0 for k, m in enumerate(order)}
                do_call(p, pop, mut, list(order), picks, draws, rp, prior)
                states.add(key(pop))
                p.traces += 1
        p.states += len(states)
        p.sample({"layer": "b", "mode": "whole", "algo": algo, "kind": kind, "order": task["order"], "assignments": len(assigns)})
        return

    if task.get("path") is not None:          # replay of one sequence
        pop = root
        touched = set()
        for n, (i, h, d) in enumerate(task["path"]):
            prior = {i: bool(touched - {i})}
            ok = do_call(p, pop, mut, [i], [h], [DIRS[d]], {**base_rp, "depth": task.get("depth"), "path": task["path"][: n + 1]}, prior)
            touched.add(i)
            if not ok:
                break
        p.traces += 1
        return

    depth = task["depth"]

    def rec(pop, path, touched, left):
        firsts = itertools.product(range(M), range(H))
        if not path and task.get("first"):
            firsts = [tuple(task["first"])]
        saved = Saved(pop)
        child = pop
        for i, h in firsts:
            for d in range(len(DIRS)):
                saved.restore(pop)
                pth = path + [[i, h, d]]
                prior = {i: bool(touched - {i})}
                ok = do_call(p, child, mut, [i], [h], [DIRS[d]], {**base_rp, "depth": depth, "path": pth}, prior)
                states.add(key(child))
                last.update(path_member_hp_dir=pth, values_after=[dict(m) for m in child.model], agreed=ok)
                if ok and left > 1:
                    rec(child, pth, touched | {i}, left - 1)
                else:
                    p.traces += 1
        saved.restore(pop)

    last = {}

    rec(root, [], set(), depth)
    p.states += len(states)
    p.sample({"layer": "b", "mode": "seq", "algo": algo, "kind": kind, "M": M, "depth": depth, "first": task.get("first"),
              "step_alphabet": "member x hyper-parameter x {shrink,grow}", "hyperparameters": root.names, "last_sequence": last})


def run_task(task):
    p = Partial()
    if task["layer"] == "a":
        run_unit(task, p)
    else:
        run_agents(task, p)
    return p
