"""C16 — stochastic policies report the true log-probability and entropy of their actions.

E3 lattice.  The logits / means of the policy are an ENUMERATED INPUT: the output layer of the
real network gets weight 0 and its bias is set to every vector of an alphabet^n ("bias trick").
Every lattice point (space x level x log-std x squash x batch x bias vector x mask) is executed on
the real code (EvolvableDistribution, StochasticActor, PPO, IPPO) and judged by closed forms written
here in plain float64 python (no torch.distributions, no scipy):

  sample     : the action returned by forward / get_action for 5 pinned sampler seeds must lie in the
               support (mask respected, bounds respected when squashed / scaled / clipped), the
               reported log_prob must be the log-density of THAT action (sum over components, with
               the -sum log(1-tanh^2) correction when squashed), the entropy the closed form
  re-eval    : every action of the support (discrete: all; Box: 5-point grid per dimension) plus an
               action sampled under OTHER weights is re-evaluated through action_log_prob /
               evaluate_actions and must give log p_current(a); masked actions must have probability 0
  pipeline   : PPO.learn / IPPO.learn are fed experiences built exactly as the training loops build
               them from get_action outputs; a spy around evaluate_actions / actor.action_log_prob
               compares every re-evaluated row with log p_current(stored action of that row), for
               the first (weights unchanged) and the later (weights changed) mini-batch passes.
"""
from __future__ import annotations

import contextlib
import itertools
import math

import numpy as np
import torch
from gymnasium import spaces
from torch import nn

from ..core import HarnessError, Partial


@contextlib.contextmanager
def seeded(seed, with_numpy=False):
    """pin the sampler: the default torch CPU generator (torch.manual_seed costs ~1 ms because of its lazy
    cuda/xpu hooks, mcx.rand.seeded is therefore not used in the inner loop) and, for learn(), numpy's global RNG"""
    g = torch.default_generator
    st = g.get_state()
    g.manual_seed(int(seed))
    st_n = None
    if with_numpy:
        st_n = np.random.get_state()
        np.random.seed(int(seed) % (2 ** 32))
    try:
        yield
    finally:
        g.set_state(st)
        if st_n is not None:
            np.random.set_state(st_n)


LEVEL = "exploration"
RULE = (
    "exhaustive product space x level x action_std_init x squash x batch x bias-vector(alphabet^n) x mask (all masks with >=1 "
    "legal action per component, rotated over the batch rows) ; per point 5 seed-pinned samples are judged (support, log_prob, "
    "entropy) and every action of the support (+ one action sampled under other weights) is re-evaluated; an evaluation = one call "
    "of real code (forward/get_action/action_log_prob/evaluate_actions/learn) judged by the float64 closed forms; non-trivial = "
    "distinct (level,space,batch,feature) with feature in {masked action has the largest logit, multi-component, action dim 1, "
    "squashed, saturated tanh, weights changed}; outcomes = distinct (level,space,returned discrete action | box region)"
)
ASSUMPTIONS = [
    "logits/means are enumerated through the bias of the output layer (weight zeroed); at the bare-distribution level rows may additionally differ by i*delta through a controlled latent column; inside learn() after an optimiser step the current logits are read from the deterministic part of the real network (encoder+MLP, not under test) and log_std from its parameter",
    "log-density of a squashed action is taken w.r.t. the tanh-space variable (log N(u) - sum log(1-tanh(u)^2)); the constant Jacobian of the affine rescaling to [low,high] is not required; the implementation's +1e-6 inside the log is tolerated (band between eps=0 and eps=1e-6) and the float32 resolution of tanh near +-1 is propagated into the tolerance; a fully saturated action (|tanh|=1 in float32) only has to give a non-NaN value",
    "action_log_prob() takes actions in the head's own space (tanh space when squashed), as PPO's training loop stores them; IPPO stores the rescaled action, the reference inverts the rescaling",
    "evaluate_actions / learn do not receive masks, so re-evaluation is judged against the UNMASKED current distribution (weaker reading); masked re-evaluation is judged at the distribution/actor level where forward(mask) precedes log_prob",
    "a masked MultiBinary bit means 'this bit cannot be 1'",
    "entropy of a squashed policy: None at the distribution/actor level (documented: no analytical form), -mean(log_prob) at the agent level (documented in PPO); a per-row -log_prob is accepted too",
    "exceptions raised by AgileRL on these inputs are violations keyed <class>/<operation>/exception/<Type>@<innermost agilerl function>; IPPO+squash is reached through custom actor_networks because IPPO(net_config={'squash_output': True}) itself raises (reported by the 'construct' task)",
    "PPO/IPPO constructors assert action_std_init >= 0, so -1 is only used for the bare distribution and the actor",
    "in evaluation mode an unsquashed Box action is clipped to the bounds; the reported log_prob is compared only for rows where no component was clipped",
    "tolerance |got-ref| <= 3e-4 + 3e-5*|ref| (float32 arithmetic in the implementation, float64 in the reference)",
    "the sampler is seed-pinned (5 seeds), the property does not quantify over the draw; all stored actions for re-evaluation are enumerated",
]

# ------------------------------------------------------------------------------------------
# alphabets

SPACE_DEF = {
    "D2": ("discrete", (2,)), "D3": ("discrete", (3,)),
    "MD23": ("md", (2, 3)), "MD222": ("md", (2, 2, 2)),
    "MB1": ("mb", (1,)), "MB3": ("mb", (3,)),
    "B1": ("box", (1,)), "B2": ("box", (2,)), "B3": ("box", (3,)),
}
BOX_LOW = (-2.0, -1.0, -0.5)
BOX_HIGH = (0.5, 3.0, 1.0)
A5 = (-5.0, -1.0, 0.0, 1.0, 5.0)
A4 = (-5.0, 0.0, 1.0, 5.0)
A3 = (-5.0, 0.0, 1.0)
A2 = (-5.0, 1.0)
SEEDS = (0, 1, 2, 3, 4)
GRID_F = (0.05, 0.25, 0.5, 0.75, 0.95)      # unsquashed Box: low + f*(high-low)
GRID_T = (-0.9, -0.5, 0.0, 0.5, 0.9)        # squashed Box: tanh-space grid
DELTA = (0.5, -0.25, 0.75, -1.0, 0.125, 0.375)  # per-row logit increment (dist level, rows="delta")
STDS = (-1.0, 0.0, 0.5)
OBS_DIM = 3
LATENT = 4
LOG2PI = math.log(2.0 * math.pi)
TOL_A, TOL_R = 3e-4, 3e-5


def kind_of(sp):
    return SPACE_DEF[sp][0]


def nlog(sp):
    k, a = SPACE_DEF[sp]
    return sum(a) if k == "md" else a[0]


def comps(sp):
    k, a = SPACE_DEF[sp]
    return list(a) if k in ("md", "discrete") else None


def make_space(sp):
    k, a = SPACE_DEF[sp]
    if k == "discrete":
        return spaces.Discrete(a[0])
    if k == "md":
        return spaces.MultiDiscrete(list(a))
    if k == "mb":
        return spaces.MultiBinary(a[0])
    d = a[0]
    return spaces.Box(np.array(BOX_LOW[:d], np.float32), np.array(BOX_HIGH[:d], np.float32))


def obs_space():
    return spaces.Box(-1.0, 1.0, (OBS_DIM,), np.float32)


def all_masks(sp):
    k, a = SPACE_DEF[sp]
    if k == "box":
        return []
    if k == "mb":
        return [tuple(m) for m in itertools.product((True, False), repeat=a[0])]
    parts = [[m for m in itertools.product((True, False), repeat=c) if any(m)] for c in a]
    return [tuple(itertools.chain(*combo)) for combo in itertools.product(*parts)]


def support(sp, conv):
    """every action of the support (discrete) / the 5-point grid per dimension (Box), as tuples"""
    k, a = SPACE_DEF[sp]
    if k == "discrete":
        return [(i,) for i in range(a[0])]
    if k == "md":
        return list(itertools.product(*[range(c) for c in a]))
    if k == "mb":
        return list(itertools.product((0, 1), repeat=a[0]))
    d = a[0]
    axes = []
    for j in range(d):
        lo, hi = BOX_LOW[j], BOX_HIGH[j]
        if conv == "raw":
            axes.append([lo + f * (hi - lo) for f in GRID_F])
        elif conv == "tanh":
            axes.append(list(GRID_T))
        else:
            axes.append([lo + 0.5 * (t + 1.0) * (hi - lo) for t in GRID_T])
    return list(itertools.product(*axes))


def kindtag(sp, squash, dim1):
    """dim1: distinguish one-dimensional Box/MultiBinary (only where shapes are handled: PPO/IPPO)"""
    k, a = SPACE_DEF[sp]
    flat = len(a) if k == "md" else (1 if k == "discrete" else a[0])
    t = {"discrete": "discrete", "md": "multidiscrete", "mb": "multibinary", "box": "box"}[k]
    if k in ("mb", "box") and dim1:
        t += "1" if flat == 1 else "N"
    if squash and k == "box":
        t += "+squash"
    return t


# ------------------------------------------------------------------------------------------
# reference model (float64, closed forms)

def _lse(xs):
    m = max(xs)
    return m + math.log(sum(math.exp(x - m) for x in xs))


def ref_cat_logp(z, mask, i):
    legal = [z[j] for j in range(len(z)) if mask is None or mask[j]]
    if mask is not None and not mask[i]:
        return -math.inf
    return z[i] - _lse(legal)


def ref_cat_entropy(z, mask):
    legal = [z[j] for j in range(len(z)) if mask is None or mask[j]]
    l = _lse(legal)
    return -sum(math.exp(x - l) * (x - l) for x in legal)


def _logsig(x):
    return -math.log1p(math.exp(-x)) if x >= 0 else x - math.log1p(math.exp(x))


def ref_logp_discrete(sp, z, mask, a):
    """z: logits row, mask: tuple of bools or None, a: action tuple -> float (may be -inf)"""
    k, arg = SPACE_DEF[sp]
    if k in ("discrete", "md"):
        tot, off = 0.0, 0
        for c, ai in zip(arg, a):
            tot += ref_cat_logp(z[off:off + c], None if mask is None else mask[off:off + c], int(ai))
            off += c
        return tot
    tot = 0.0
    for j in range(arg[0]):
        if mask is not None and not mask[j]:
            tot += 0.0 if a[j] == 0 else -math.inf
        else:
            tot += _logsig(z[j]) if a[j] == 1 else _logsig(-z[j])
    return tot


def ref_entropy_discrete(sp, z, mask):
    k, arg = SPACE_DEF[sp]
    if k in ("discrete", "md"):
        tot, off = 0.0, 0
        for c in arg:
            tot += ref_cat_entropy(z[off:off + c], None if mask is None else mask[off:off + c])
            off += c
        return tot
    tot = 0.0
    for j in range(arg[0]):
        if mask is not None and not mask[j]:
            continue
        pj = 1.0 / (1.0 + math.exp(-z[j]))
        tot += -(pj * _logsig(z[j]) + (1.0 - pj) * _logsig(-z[j]))
    return tot


def ref_normal_logp(u, mu, sig):
    return sum(-((x - m) ** 2) / (2.0 * s * s) - math.log(s) - 0.5 * LOG2PI for x, m, s in zip(u, mu, sig))


def ref_normal_entropy(sig):
    return sum(0.5 + 0.5 * LOG2PI + math.log(s) for s in sig)


def ref_squash_logp(t, mu, sig, eps=0.0):
    """density of the tanh-space action t (|t|<1) : log N(atanh t) - sum log(1 - t^2 + eps)"""
    u = [math.atanh(x) for x in t]
    return ref_normal_logp(u, mu, sig) - sum(math.log(1.0 - x * x + eps) for x in t)


def squash_band(t, dt, mu, sig):
    """admissible interval of the reported log-prob for a float32 tanh-space action t +- dt.
    returns (lo, hi) or None when saturated"""
    lo_tot, hi_tot = 0.0, 0.0
    for x, d, m, s in zip(t, dt, mu, sig):
        a, b = x - d, x + d
        if a <= -1.0 or b >= 1.0:
            return None
        lns, c0, c1 = [], [], []
        ua, ub = math.atanh(a), math.atanh(b)
        for y in (a, x, b):
            u = math.atanh(y)
            lns.append(-((u - m) ** 2) / (2.0 * s * s) - math.log(s) - 0.5 * LOG2PI)
            c0.append(-math.log(1.0 - y * y))
            c1.append(-math.log(1.0 - y * y + 1e-6))
        if ua <= m <= ub:
            lns.append(-math.log(s) - 0.5 * LOG2PI)
        # the normal term (evaluated by the implementation at the float32 pre-squash sample) and the correction term
        # (evaluated at the float32 tanh value) carry independent rounding errors
        lo_tot += min(lns) + min(c1)
        hi_tot += max(lns) + max(c0)
    return lo_tot, hi_tot


def close(got, ref):
    return abs(got - ref) <= TOL_A + TOL_R * abs(ref)


# ------------------------------------------------------------------------------------------
# judging

class J:
    """judge bound to one task (level, space, std, squash)"""

    def __init__(self, p: Partial, cfg: dict):
        self.p = p
        self.cfg = cfg
        self.level = cfg["level"].split("-")[0]
        self.sp = cfg["space"]
        self.kind = kind_of(self.sp)
        self.squash = bool(cfg["squash"]) and self.kind == "box"
        self.tag = kindtag(self.sp, cfg["squash"], False)
        self.tag1 = kindtag(self.sp, cfg["squash"], True)
        self.point = None
        d = nlog(self.sp)
        self.low = list(BOX_LOW[:d])
        self.high = list(BOX_HIGH[:d])
        self.bad_ops = set()

    def viol(self, op, what, text, observed=None, expected=None):
        key = f"{self.level}/{op}/{self.tag1 if op.startswith('learn') else self.tag}/{what}"
        self.p.viol(key, f"{text} [point {self.point}]", {**self.cfg, "point": self.point}, observed=observed, expected=expected)
        self.bad_ops.add((op, what))

    def nt(self, B, feat):
        self.p.nt([self.level, self.sp, B, feat])

    # ---- helpers
    def to_tanh(self, a_row, conv):
        """returned Box action row -> (tanh-space value, uncertainty) per component (float64)"""
        if conv == "tanh":
            return [float(x) for x in a_row], [1.5e-6] * len(a_row)
        t, dt = [], []
        for x, lo, hi in zip(a_row, self.low, self.high):
            t.append(2.0 * (float(x) - lo) / (hi - lo) - 1.0)
            dt.append(3e-7 * (1.0 + 2.0 * max(abs(lo), abs(hi)) / (hi - lo)))
        return t, dt

    def judge_sample(self, op, B, rows_z, rows_mask, sig, action, logp, ent, conv, ent_mode="vector", check_clip=False):
        """action: np array (B,...) ; logp: np array size B ; ent: np array / None / scalar.
        conv in raw|tanh|scaled ; ent_mode in vector|none|neg_mean_logp ; rows_mask list or None"""
        p = self.p
        act = np.asarray(action)
        n_act = len(SPACE_DEF[self.sp][1]) if self.kind == "md" else (1 if self.kind == "discrete" else SPACE_DEF[self.sp][1][0])
        if act.size != B * n_act:
            self.viol(op, "action-shape", f"action shape {act.shape} for batch {B}", observed=list(act.shape))
            return None
        act = act.reshape(B, n_act)
        lp = np.asarray(logp, dtype=np.float64)
        if lp.size != B:
            self.viol(op, "log_prob-shape", f"log_prob shape {lp.shape} for batch {B}", observed=list(lp.shape))
            return act
        lp = lp.reshape(B)
        ref_lp = [None] * B
        for i in range(B):
            z = rows_z[i]
            m = None if rows_mask is None else rows_mask[i]
            a = act[i]
            if self.kind != "box":
                ai = [int(x) for x in a]
                ok = all(float(x) == float(int(x)) for x in a)
                if self.kind == "mb":
                    ok = ok and all(x in (0, 1) for x in ai)
                else:
                    ok = ok and all(0 <= x < c for x, c in zip(ai, comps(self.sp)))
                if not ok:
                    self.viol(op, "support/out-of-range", f"row {i}: action {a.tolist()} not in the space", observed=a.tolist())
                    continue
                r = ref_logp_discrete(self.sp, z, m, ai)
                if r == -math.inf:
                    self.viol(op, "support/masked-action-returned", f"row {i}: action {ai} is illegal under mask {m} (logits {z})", observed=ai, expected=str(m))
                    continue
                p.out([self.level, self.sp, ai])
                if m is not None and not all(m):
                    # non-trivial: some masked logit is the largest of its component
                    if self.kind == "mb":
                        big = any((not m[j]) and z[j] > 0 for j in range(len(z)))
                    else:
                        big, off = False, 0
                        for c in comps(self.sp):
                            zz, mm = z[off:off + c], m[off:off + c]
                            big = big or (max(range(c), key=lambda j: zz[j]) in [j for j in range(c) if not mm[j]])
                            off += c
                    if big:
                        self.nt(B, "masked-largest-logit")
                ref_lp[i] = r
                if not (math.isfinite(lp[i]) and close(lp[i], r)):
                    self.viol(op, "log_prob", f"row {i}: action {ai} logits {z} mask {m}: reported log_prob {lp[i]!r}, closed form {r!r}", observed=float(lp[i]), expected=r)
            else:
                if not all(math.isfinite(float(x)) for x in a):
                    self.viol(op, "support/non-finite", f"row {i}: action {a.tolist()}", observed=a.tolist())
                    continue
                if self.squash:
                    lo_b = [-1.0] * n_act if conv == "tanh" else self.low
                    hi_b = [1.0] * n_act if conv == "tanh" else self.high
                    if any(float(x) < l - 1e-6 or float(x) > h + 1e-6 for x, l, h in zip(a, lo_b, hi_b)):
                        self.viol(op, "support/out-of-bounds", f"row {i}: squashed action {a.tolist()} outside [{lo_b},{hi_b}] ({conv} convention)", observed=a.tolist(), expected=[lo_b, hi_b])
                        continue
                    t, dt = self.to_tanh(a, conv)
                    band = squash_band(t, dt, z, sig)
                    if band is None:
                        p.extra["saturated_tanh_rows"] += 1
                        self.nt(B, "saturated")
                        p.out([self.level, self.sp, "squash-saturated"])
                        if math.isnan(lp[i]):
                            self.viol(op, "log_prob", f"row {i}: saturated action {a.tolist()} log_prob NaN", observed="nan")
                        continue
                    p.out([self.level, self.sp, "squash-inside"])
                    ref_lp[i] = 0.5 * (band[0] + band[1])
                    if not (math.isfinite(lp[i]) and band[0] - TOL_A - TOL_R * abs(band[0]) <= lp[i] <= band[1] + TOL_A + TOL_R * abs(band[1])):
                        self.viol(op, "log_prob", f"row {i}: squashed action {a.tolist()} (tanh-space {t}) mean {z} std {sig}: reported {lp[i]!r}, admissible [{band[0]!r},{band[1]!r}]", observed=float(lp[i]), expected=list(band))
                else:
                    if check_clip:
                        if any(float(x) < l - 1e-6 or float(x) > h + 1e-6 for x, l, h in zip(a, self.low, self.high)):
                            self.viol(op, "support/out-of-bounds", f"row {i}: evaluation-mode action {a.tolist()} outside the Box bounds", observed=a.tolist(), expected=[self.low, self.high])
                            continue
                        if any(float(x) <= l or float(x) >= h for x, l, h in zip(a, self.low, self.high)):
                            p.extra["clipped_rows_logp_not_compared"] += 1
                            p.out([self.level, self.sp, "clipped"])
                            continue
                    p.out([self.level, self.sp, "raw-inside"])
                    r = ref_normal_logp([float(x) for x in a], z, sig)
                    ref_lp[i] = r
                    if not (math.isfinite(lp[i]) and close(lp[i], r)):
                        self.viol(op, "log_prob", f"row {i}: action {a.tolist()} mean {z} std {sig}: reported {lp[i]!r}, closed form {r!r}", observed=float(lp[i]), expected=r)
        # entropy
        if ent_mode == "none":
            if ent is not None:
                self.viol(op, "entropy", f"squashed distribution documents entropy None, got {ent!r}")
        elif ent_mode == "neg_mean_logp":
            # documented surrogate (PPO): -log_prob.mean(); a per-sample -log_prob (same mean) is accepted as well
            e = np.asarray(ent, dtype=np.float64).reshape(-1)
            want = -float(np.mean(lp))
            ok_e = (e.size == 1 and close(float(e[0]), want)) or (e.size == B and (all(close(float(x), want) for x in e) or all(close(float(x), -float(l)) for x, l in zip(e, lp))))
            if not ok_e and not (math.isnan(want) and e.size in (1, B)):
                self.viol(op, "entropy", f"squashed: entropy must be -mean(log_prob)={want!r} (or -log_prob per row), got {e.tolist()!r}", observed=e.tolist(), expected=want)
        else:
            if ent is None:
                self.viol(op, "entropy", "entropy is None for an unsquashed distribution")
            else:
                e = np.asarray(ent, dtype=np.float64)
                if e.size != B:
                    self.viol(op, "entropy-shape", f"entropy shape {e.shape} for batch {B}", observed=list(e.shape))
                else:
                    e = e.reshape(B)
                    for i in range(B):
                        m = None if rows_mask is None else rows_mask[i]
                        r = ref_normal_entropy(sig) if self.kind == "box" else ref_entropy_discrete(self.sp, rows_z[i], m)
                        if not (math.isfinite(e[i]) and close(e[i], r)):
                            self.viol(op, "entropy", f"row {i}: logits {rows_z[i]} mask {m} std {sig}: entropy {e[i]!r}, closed form {r!r}", observed=float(e[i]), expected=r)
                            break
        return act

    def judge_reeval(self, op, rows_z, rows_mask, sig, acts, got, conv, ids=None):
        """acts: list of action tuples (one per row) ; got: np array ; row i judged against rows_z[i]"""
        n = len(acts)
        g = np.asarray(got, dtype=np.float64)
        if g.size != n or (g.ndim > 1 and g.shape[0] != n):
            self.viol(op, "shape", f"re-evaluated log_prob has shape {g.shape} for {n} actions", observed=list(g.shape), expected=[n])
            return
        g = g.reshape(n)
        for i in range(n):
            z = rows_z[i]
            m = None if rows_mask is None else rows_mask[i]
            a = acts[i]
            if self.kind != "box":
                r = ref_logp_discrete(self.sp, z, m, [int(x) for x in a])
                if r == -math.inf:
                    self.nt(n, "masked-reeval")
                    if math.isnan(g[i]) or g[i] > -1e7:
                        self.viol(op, "masked-action-probability-nonzero", f"row {i}: masked action {a} under mask {m} has log_prob {g[i]!r} (> -1e7)", observed=float(g[i]), expected="<= -1e7")
                    continue
                ok = math.isfinite(g[i]) and close(g[i], r)
                exp = r
            elif self.squash:
                t, dt = self.to_tanh(a, conv)
                band = squash_band(t, dt, z, sig)
                if band is None:
                    self.p.extra["saturated_tanh_rows"] += 1
                    if math.isnan(g[i]):
                        self.viol(op, "log_prob", f"row {i}: stored saturated action {a}: NaN", observed="nan")
                    continue
                ok = math.isfinite(g[i]) and band[0] - TOL_A - TOL_R * abs(band[0]) <= g[i] <= band[1] + TOL_A + TOL_R * abs(band[1])
                exp = list(band)
            else:
                r = ref_normal_logp([float(x) for x in a], z, sig)
                ok = math.isfinite(g[i]) and close(g[i], r)
                exp = r
            if not ok:
                self.viol(op, "log_prob", f"row {i}{'' if ids is None else ' (stored transition %s)' % (ids[i],)}: stored action {list(a)} logits/mean {z} mask {m} std {sig}: "
                          f"re-evaluated log_prob {g[i]!r}, log p_current(a) = {exp!r}; all rows {g.tolist()}", observed=float(g[i]) if not math.isnan(g[i]) else "nan", expected=exp)
                return


# ------------------------------------------------------------------------------------------
# real objects

def last_linear(mod):
    lins = [m for m in nn.Module.modules(mod) if isinstance(m, nn.Linear)]
    if not lins:
        raise HarnessError("no nn.Linear found in the head network (bias-trick seam lost)")
    return lins


def set_out(lin, bias, col0=None):
    with torch.no_grad():
        lin.weight.zero_()
        if col0 is not None:
            lin.weight[:, 0] = torch.tensor(col0, dtype=lin.weight.dtype)
        lin.bias.copy_(torch.tensor(bias, dtype=lin.bias.dtype))


def build_dist(sp, std, squash):
    from agilerl.modules.mlp import EvolvableMLP
    from agilerl.networks.distributions import EvolvableDistribution

    with seeded(7, with_numpy=True):
        net = EvolvableMLP(num_inputs=LATENT, num_outputs=nlog(sp), hidden_size=[LATENT], layer_norm=False, output_vanish=False)
        dist = EvolvableDistribution(make_space(sp), net, action_std_init=std, squash_output=squash)
    lins = last_linear(net)
    if len(lins) != 2 or lins[0].weight.shape != (LATENT, LATENT):
        raise HarnessError(f"unexpected MLP structure {net}")
    with torch.no_grad():
        lins[0].weight.copy_(torch.eye(LATENT))
        lins[0].bias.zero_()
    # identity check of the controlled latent path (harness seam)
    set_out(lins[1], [0.0] * nlog(sp), list(DELTA[: nlog(sp)]))
    probe = net(torch.tensor([[2.0, 0.0, 0.0, 0.0]]))
    want = torch.tensor([[2.0 * d for d in DELTA[: nlog(sp)]]])
    if not torch.allclose(probe, want, atol=1e-6):
        raise HarnessError(f"controlled latent path is not linear: {probe} vs {want}")
    return dist, lins[1]


def build_actor(sp, std, squash):
    from agilerl.networks.actors import StochasticActor

    with seeded(7, with_numpy=True):
        actor = StochasticActor(obs_space(), make_space(sp), action_std_init=std, squash_output=squash, latent_dim=8)
    return actor, last_linear(actor.head_net.wrapped)[-1]


def build_ppo(sp, std, squash):
    from agilerl.algorithms.ppo import PPO

    nc = {"squash_output": True, "head_config": {"hidden_size": [8]}} if squash else None
    with seeded(7, with_numpy=True):
        agent = PPO(obs_space(), make_space(sp), action_std_init=std, net_config=nc, batch_size=64, update_epochs=2, lr=1e-3)
    return agent, last_linear(agent.actor.head_net.wrapped)[-1]


def build_ippo(sp, std, squash, n_agents):
    from agilerl.algorithms.ippo import IPPO
    from agilerl.networks.actors import StochasticActor
    from agilerl.networks.value_networks import ValueNetwork

    ids = [f"a_{i}" for i in range(n_agents)]
    kw = {}
    with seeded(7, with_numpy=True):
        if squash:
            kw["actor_networks"] = [StochasticActor(obs_space(), make_space(sp), action_std_init=std, squash_output=True)]
            kw["critic_networks"] = [ValueNetwork(obs_space())]
        agent = IPPO([obs_space()] * n_agents, [make_space(sp)] * n_agents, ids, action_std_init=std, batch_size=64, update_epochs=2, lr=1e-3, **kw)
    if len(agent.actors) != 1:
        raise HarnessError("homogeneous agents did not share one actor")
    return agent, last_linear(agent.actors[0].head_net.wrapped)[-1], ids


def call(j: J, op, fn):
    """run real code; exceptions raised by AgileRL on a legal input are violations, keyed by class, operation,
    exception type and the innermost AgileRL function on the stack (where it fails)"""
    try:
        return True, fn()
    except HarnessError:
        raise
    except Exception as e:  # noqa: BLE001
        site, tb = "?", e.__traceback__
        while tb is not None:
            if "/agilerl/" in tb.tb_frame.f_code.co_filename:
                site = tb.tb_frame.f_code.co_name
            tb = tb.tb_next
        base = op.replace("/train", "").replace("/eval", "")
        key = f"{j.level}/{base}/exception/{type(e).__name__}@{site}"
        j.p.viol(key, f"{op} on {j.tag} raised {e!r} [point {j.point}]", {**j.cfg, "point": j.point}, observed=repr(e))
        j.bad_ops.add((op, "exception"))
        return False, None


def np_(x):
    if x is None:
        return None
    if isinstance(x, torch.Tensor):
        return x.detach().cpu().numpy()
    return np.asarray(x)


def mask_rows(masks, m, n_rows):
    """m None -> no mask; else row i gets masks[(m+i) % len]"""
    if m is None:
        return None
    return [masks[(m + i) % len(masks)] for i in range(n_rows)]


def mask_arr(rows):
    return None if rows is None else np.array(rows, dtype=np.int8)


def sigma_of(sp, std):
    return [math.exp(std)] * nlog(sp) if kind_of(sp) == "box" else None


def act_tensor(acts, like_dtype, kind):
    if kind == "discrete":
        return torch.tensor([a[0] for a in acts], dtype=like_dtype)
    return torch.tensor([list(a) for a in acts], dtype=like_dtype)


def chunks(acts, B):
    out = []
    for s in range(0, len(acts), B):
        c = list(acts[s:s + B])
        while len(c) < B:
            c.append(acts[(s + len(c)) % len(acts)])
        out.append(c)
    return out


# ------------------------------------------------------------------------------------------
# lattice points

def prev_bias(b):
    return [-x if x != 0 else 1.0 for x in b]


def point_net(j: J, obj, lin, level, B, bias, rows, m, masks, std, tier):
    """bare EvolvableDistribution ('dist') or StochasticActor ('actor')"""
    p, sp, kind = j.p, j.sp, j.kind
    n = nlog(sp)
    sig = sigma_of(sp, std)
    delta = list(DELTA[:n]) if rows == "delta" else None
    if level == "dist":
        x = torch.tensor([[float(i), 0.0, 0.0, 0.0] if delta else [1.0 + i, 2.0, 0.5, 3.0] for i in range(B)])
        fwd = lambda mk: obj.forward(x, mk)           # noqa: E731
        relp = lambda a: obj.log_prob(a)              # noqa: E731
        conv_s = conv_r = "tanh" if j.squash else "raw"
    else:
        x = torch.tensor([[(i + 1) / 8.0, -0.5, 0.25] for i in range(B)])
        fwd = lambda mk: obj.forward(x, mk)           # noqa: E731
        relp = lambda a: obj.action_log_prob(a)       # noqa: E731
        conv_s = "scaled" if j.squash else "raw"
        conv_r = "tanh" if j.squash else "raw"
    rows_z = [[bias[c] + (i * delta[c] if delta else 0.0) for c in range(n)] for i in range(B)]
    mrows = mask_rows(masks, m, B)
    marr = mask_arr(mrows)
    ent_mode = "none" if j.squash else "vector"
    # a stored action sampled under OTHER weights
    pb = prev_bias(bias)
    set_out(lin, pb, delta)
    with seeded(99):
        ok, out = call(j, "forward", lambda: fwd(marr))
    p.evaluations += 1
    stored_prev = None
    if ok:
        a_prev = np_(out[0])
        if j.squash and level == "actor":
            # actor.forward returns the rescaled action; action_log_prob works in tanh space
            a_prev = np.array([j.to_tanh(r, "scaled")[0] for r in a_prev.reshape(B, -1)], dtype=np.float32)
        stored_prev = a_prev
    set_out(lin, bias, delta)
    dtype = None
    for s in SEEDS:
        with seeded(1000 + s):
            ok, out = call(j, "forward", lambda: fwd(marr))
        p.evaluations += 1
        if not ok:
            return
        action, logp, ent = out
        dtype = action.dtype
        p.dg(np_(action).tolist(), np_(logp).tolist())
        j.judge_sample("forward", B, rows_z, mrows, sig, np_(action), np_(logp), np_(ent), conv_s, ent_mode)
        # immediate re-evaluation of the returned action
        if s == SEEDS[0]:
            a_now = np_(action).reshape(B, -1)
            a_t = action.detach().clone()
            if j.squash and level == "actor":
                a_now = np.array([j.to_tanh(r, "scaled")[0] for r in a_now], dtype=np.float32)
                a_t = torch.as_tensor(a_now, dtype=dtype)
            okr, got = call(j, "reeval", lambda: relp(a_t))
            p.evaluations += 1
            if okr:
                j.judge_reeval("reeval", rows_z, mrows, sig, [tuple(r) for r in a_now.tolist()], np_(got), conv_r)
    if n > 1 or kind == "md":
        j.nt(B, "multi-component")
    if kind in ("box", "mb") and n == 1:
        j.nt(B, "action-dim-1")
    if j.squash:
        j.nt(B, "squash")
    # re-evaluate every action of the support under the current weights (dist of the last forward)
    acts = stored_actions(sp, conv_r, B, tier)
    for ch in chunks(acts, B):
        okr, got = call(j, "reeval", lambda: relp(act_tensor(ch, dtype, kind)))
        p.evaluations += 1
        if not okr:
            break
        p.dg(np_(got).tolist())
        j.judge_reeval("reeval", rows_z, mrows, sig, ch, np_(got), conv_r)
        if ("reeval", "log_prob") in j.bad_ops or ("reeval", "shape") in j.bad_ops:
            break
    if stored_prev is not None:
        sp_rows = [tuple(r) for r in np.asarray(stored_prev).reshape(B, -1).tolist()]
        # an action sampled under a mask may be illegal only under the *same* mask rows -> same rows here
        okr, got = call(j, "reeval", lambda: relp(torch.as_tensor(np.asarray(stored_prev), dtype=dtype)))
        p.evaluations += 1
        if okr:
            j.nt(B, "weights-changed")
            j.judge_reeval("reeval", rows_z, mrows, sig, sp_rows, np_(got), conv_r)


def ppo_obs(B):
    if B == 0:
        return np.array([0.125, -0.5, 0.25], dtype=np.float32)
    return np.array([[(i + 1) / 8.0, -0.5, 0.25] for i in range(B)], dtype=np.float32)


def point_ppo(j: J, agent, lin, B, bias, m, masks, std, tier):
    """B == 0 : a single un-batched observation"""
    p, sp, kind = j.p, j.sp, j.kind
    n = nlog(sp)
    nb = max(B, 1)
    sig = sigma_of(sp, std)
    rows_z = [list(bias) for _ in range(nb)]
    mrows = mask_rows(masks, m, nb)
    marr = mask_arr(mrows)
    if marr is not None and B == 0:
        marr = marr[0]
    obs = ppo_obs(B)
    set_out(lin, prev_bias(bias))
    agent.set_training_mode(True)
    with seeded(99):
        ok, out = call(j, "get_action/train", lambda: agent.get_action(obs, action_mask=marr))
    p.evaluations += 1
    stored_prev = np.asarray(out[0]) if ok else None
    set_out(lin, bias)
    for mode in ("train", "eval"):
        agent.set_training_mode(mode == "train")
        op = f"get_action/{mode}"
        for s in SEEDS:
            with seeded(1000 + s):
                ok, out = call(j, op, lambda: agent.get_action(obs, action_mask=marr))
            p.evaluations += 1
            if not ok:
                break
            action, logp, ent, _ = out
            p.dg(np.asarray(action).tolist(), np.asarray(logp).tolist())
            if j.squash:
                conv, em = ("tanh" if mode == "train" else "scaled"), "neg_mean_logp"
            else:
                conv, em = "raw", "vector"
            j.judge_sample(op, nb, rows_z, mrows, sig, np_(action), np_(logp), np_(ent), conv, em, check_clip=(mode == "eval" and kind == "box" and not j.squash))
    agent.set_training_mode(True)
    if n > 1 or kind == "md":
        j.nt(B, "multi-component")
    if kind in ("box", "mb") and n == 1:
        j.nt(B, "action-dim-1")
    if j.squash:
        j.nt(B, "squash")
    if B == 0:
        return
    # direct evaluate_actions on every action of the support (unmasked current policy)
    conv_r = "tanh" if j.squash else "raw"
    dtype = torch.int64 if kind in ("discrete", "md") else torch.float32
    acts = stored_actions(sp, conv_r, B, tier)
    jobs = [("evaluate_actions", ch) for ch in chunks(acts, B)]
    if stored_prev is not None and stored_prev.size == B * (len(acts[0])):
        rows_prev = [tuple(r) for r in stored_prev.reshape(B, -1).tolist()]
        jobs.append(("evaluate_actions", rows_prev))
    for op, ch in jobs:
        ok, out = call(j, op, lambda: agent.evaluate_actions(obs, act_tensor(ch, dtype, kind)))
        p.evaluations += 1
        if not ok:
            break
        lp, ent, _ = out
        p.dg(np_(lp).tolist())
        j.judge_reeval(op, rows_z, None, sig, ch, np_(lp), conv_r)
        if ch is jobs[-1][1] and stored_prev is not None:
            j.nt(B, "weights-changed")
        # entropy of the current (unmasked) policy
        e = np_(ent).astype(np.float64)
        if j.squash:
            want = -float(np.mean(np_(lp).astype(np.float64)))
            if not (e.size == 1 and (close(float(e.reshape(-1)[0]), want) or (math.isnan(want) and math.isnan(float(e.reshape(-1)[0]))))):
                j.viol(op, "entropy", f"squashed: entropy must be -mean(log_prob)={want!r}, got {e.tolist()!r}")
        else:
            r = ref_normal_entropy(sig) if kind == "box" else ref_entropy_discrete(sp, rows_z[0], None)
            if e.size != B or not all(close(float(x), r) for x in e.reshape(-1)):
                j.viol(op, "entropy", f"entropy {e.tolist()!r}, closed form {r!r} per row", observed=e.tolist(), expected=r)
        if (op, "log_prob") in j.bad_ops or (op, "shape") in j.bad_ops:
            break


def ippo_obs(ids, B):
    if B == 0:
        return {a: np.array([(k + 1) / 8.0, -0.5, 0.25], dtype=np.float32) for k, a in enumerate(ids)}
    return {a: np.array([[(k * B + i + 1) / 16.0, -0.5, 0.25] for i in range(B)], dtype=np.float32) for k, a in enumerate(ids)}


def point_ippo(j: J, agent, lin, ids, B, bias, m, masks, std, mtype="ndarray"):
    p, sp, kind = j.p, j.sp, j.kind
    n = nlog(sp)
    nb = max(B, 1)
    sig = sigma_of(sp, std)
    tot = nb * len(ids)
    rows_z = [list(bias) for _ in range(tot)]
    mrows = mask_rows(masks, m, tot)
    obs = ippo_obs(ids, B)
    infos = None
    if mrows is not None:
        infos = {}
        for k, a in enumerate(ids):
            mk = mask_arr(mrows[k * nb:(k + 1) * nb])
            mk = mk[0] if B == 0 else mk
            infos[a] = {"action_mask": mk if mtype == "ndarray" else mk.tolist()}
    set_out(lin, bias)
    for mode in ("train", "eval"):
        agent.set_training_mode(mode == "train")
        op = f"get_action/{mode}"
        for s in SEEDS:
            with seeded(1000 + s):
                ok, out = call(j, op, lambda: agent.get_action(obs, infos))
            p.evaluations += 1
            if not ok:
                break
            action, logp, ent, _ = out
            try:
                A = np.concatenate([np_(action[a]).reshape(nb, -1) for a in ids], axis=0)
                L = np.concatenate([np_(logp[a]).reshape(-1) for a in ids], axis=0)
                E = np.concatenate([np_(ent[a]).reshape(-1) for a in ids], axis=0)
            except Exception as e:  # noqa: BLE001
                j.viol(op, "output-shape", f"per-agent outputs cannot be arranged as ({nb},...) rows: {e!r}; action { {a: np.shape(action[a]) for a in ids} }")
                break
            p.dg(A.tolist(), L.tolist())
            conv = "scaled" if j.squash else "raw"
            em = "neg_mean_logp" if j.squash else "vector"
            j.judge_sample(op, tot, rows_z, mrows, sig, A, L, E, conv, em, check_clip=(mode == "eval" and kind == "box" and not j.squash))
    agent.set_training_mode(True)
    if len(ids) > 1:
        j.nt(B, "homogeneous-agents>1")
    if n > 1 or kind == "md":
        j.nt(B, "multi-component")
    if kind in ("box", "mb") and n == 1:
        j.nt(B, "action-dim-1")
    if j.squash:
        j.nt(B, "squash")


# ------------------------------------------------------------------------------------------
# learn() pipelines (experiences built as the training loops build them)

def cur_logits(actor, obs_t):
    with torch.no_grad():
        return actor.head_net.wrapped(actor.extract_features(obs_t)).double().tolist()


def cur_sigma(actor, sp):
    if kind_of(sp) != "box":
        return None
    return [math.exp(float(x)) for x in actor.head_net.log_std.detach().reshape(-1).tolist()]


def pipe_ppo(j: J, sp, std, squash, E, bias, m, masks):
    """E == 0 : un-vectorised environment"""
    p, kind = j.p, j.kind
    T = 2 if E else 3
    ne = max(E, 1)
    agent, lin = build_ppo(sp, std, squash)
    agent.set_training_mode(True)
    set_out(lin, bias)
    n_act = len(support(sp, "raw")[0])
    states, actions, log_probs, rewards, dones, values = [], [], [], [], [], []
    stored = {}
    mrows_all = mask_rows(masks, m, T * ne)
    for t in range(T):
        o = np.array([[(t * ne + e + 1) / 32.0, -0.5, 0.25] for e in range(ne)], dtype=np.float32)
        mk = None if mrows_all is None else mask_arr(mrows_all[t * ne:(t + 1) * ne])
        if E == 0:
            o = o[0]
            mk = None if mk is None else mk[0]
        with seeded(2000 + t):
            ok, out = call(j, "get_action/train", lambda: agent.get_action(o, action_mask=mk))
        p.evaluations += 1
        if not ok:
            return
        action, lp, ent, val = out
        a_rows = np.asarray(action).reshape(ne, -1)
        if a_rows.shape[1] != n_act:
            j.viol("learn/get_action", "action-shape", f"action shape {np.shape(action)}")
            return
        for e in range(ne):
            stored[t * ne + e] = tuple(a_rows[e].tolist())
        if E == 0:
            action, lp, val = action[0], lp[0], val[0]
        states.append(o)
        actions.append(action)
        log_probs.append(lp)
        values.append(val)
        rewards.append(np.zeros(ne, dtype=np.float32) + 0.5 * t if E else 0.5 * t)
        dones.append(np.zeros(ne, dtype=np.float32) if E else 0.0)
    nxt = np.array([[0.9, -0.5, 0.25]] * ne, dtype=np.float32)
    experiences = (states, actions, log_probs, rewards, dones, values, nxt if E else nxt[0], np.zeros(ne, dtype=np.float32) if E else np.zeros(1, dtype=np.float32))
    records = []
    real = agent.evaluate_actions

    def spy(obs, actions):
        o = obs if isinstance(obs, torch.Tensor) else torch.as_tensor(np.asarray(obs))
        o = o.reshape(-1, OBS_DIM).float()
        ids = [int(round(float(v) * 32.0)) - 1 for v in o[:, 0].tolist()]
        pristine = bool((lin.weight == 0).all())
        z = [list(bias) for _ in ids] if pristine else cur_logits(agent.actor, o)
        sg = cur_sigma(agent.actor, sp)
        res = real(obs=obs, actions=actions)
        records.append((ids, z, sg, tuple(actions.shape), np_(res[0]), pristine))
        return res

    agent.evaluate_actions = spy
    with seeded(3000, with_numpy=True):
        ok, _ = call(j, "learn", lambda: agent.learn(experiences))
    p.evaluations += 1
    if not records and ok:
        raise HarnessError("PPO.learn did not call evaluate_actions (spy seam lost)")
    conv_r = "tanh" if j.squash else "raw"
    for k, (ids, z, sg, ashape, got, pristine) in enumerate(records):
        if any(i not in stored for i in ids):
            raise HarnessError(f"identity-coded observation rows not recovered: {ids}")
        op = "learn/evaluate_actions"
        p.evaluations += 1
        p.dg(ids, np.asarray(got).tolist())
        if not pristine:
            j.nt(E, "weights-changed")
        j.judge_reeval(op, z, None, sg, [stored[i] for i in ids], got, conv_r, ids=ids)
    if kind in ("box", "mb") and nlog(sp) == 1:
        j.nt(E, "action-dim-1")
    if nlog(sp) > 1:
        j.nt(E, "multi-component")
    if j.squash:
        j.nt(E, "squash")


def pipe_ippo(j: J, sp, std, squash, n_agents, E, bias, m, masks):
    p, kind = j.p, j.kind
    T = 2
    ne = max(E, 1)
    agent, lin, ids = build_ippo(sp, std, squash, n_agents)
    actor = agent.actors[0]
    agent.set_training_mode(True)
    set_out(lin, bias)
    n_act = len(support(sp, "raw")[0])
    keys = ("states", "actions", "log_probs", "rewards", "dones", "values")
    ex = {k: {a: [] for a in ids} for k in keys}
    stored = {}
    tot = ne * n_agents
    mrows_all = mask_rows(masks, m, T * tot)

    def code(t, k, e):
        return (t * n_agents + k) * ne + e

    for t in range(T):
        obs = {a: np.array([[(code(t, k, e) + 1) / 32.0, -0.5, 0.25] for e in range(ne)], dtype=np.float32) for k, a in enumerate(ids)}
        infos = None
        if mrows_all is not None:
            # lists: IPPO.extract_action_masks cannot take ndarray masks (reported by the get_action level)
            infos = {a: {"action_mask": mask_arr(mrows_all[t * tot + k * ne: t * tot + (k + 1) * ne]).tolist()} for k, a in enumerate(ids)}
        if E == 0:
            obs = {a: v[0] for a, v in obs.items()}
            if infos:
                infos = {a: {"action_mask": v["action_mask"][0]} for a, v in infos.items()}
        with seeded(2000 + t):
            ok, out = call(j, "get_action/train", lambda: agent.get_action(obs, infos))
        p.evaluations += 1
        if not ok:
            return
        action, lp, ent, val = out
        for k, a in enumerate(ids):
            a_rows = np.asarray(action[a]).reshape(ne, -1)
            if a_rows.shape[1] != n_act:
                j.viol("learn/get_action", "action-shape", f"action shape {np.shape(action[a])}")
                return
            for e in range(ne):
                stored[code(t, k, e)] = tuple(a_rows[e].tolist())
        if E == 0:
            action = {a: v[0] for a, v in action.items()}
            lp = {a: v[0] for a, v in lp.items()}
            val = {a: v[0] for a, v in val.items()}
        for a in ids:
            ex["states"][a].append(obs[a])
            ex["actions"][a].append(action[a])
            ex["log_probs"][a].append(lp[a])
            ex["values"][a].append(val[a])
            ex["rewards"][a].append(np.zeros(ne, dtype=np.float32) + 0.5 * t if E else 0.5 * t)
            ex["dones"][a].append(np.zeros(ne, dtype=np.float32))
    nxt = {a: (np.array([[0.9, -0.5, 0.25]] * ne, dtype=np.float32) if E else np.array([0.9, -0.5, 0.25], dtype=np.float32)) for a in ids}
    nd = {a: np.zeros(ne, dtype=np.float32) for a in ids}
    experiences = tuple(ex[k] for k in keys) + (nxt, nd)
    records = []
    last = {}
    real_fwd, real_alp = actor.forward, actor.action_log_prob

    def spy_fwd(obs, action_mask=None):
        last["obs"] = obs
        last["pristine"] = bool((lin.weight == 0).all())
        o = obs.reshape(-1, OBS_DIM).float()
        last["z"] = [list(bias) for _ in range(o.shape[0])] if last["pristine"] else cur_logits(actor, o)
        last["sg"] = cur_sigma(actor, sp)
        return real_fwd(obs, action_mask)

    def spy_alp(action):
        res = real_alp(action)
        o = last["obs"].reshape(-1, OBS_DIM)
        rid = [int(round(float(v) * 32.0)) - 1 for v in o[:, 0].tolist()]
        records.append((rid, last["z"], last["sg"], np_(res), last["pristine"]))
        return res

    actor.forward = spy_fwd
    actor.action_log_prob = spy_alp
    try:
        with seeded(3000, with_numpy=True):
            ok, _ = call(j, "learn", lambda: agent.learn(experiences))
    finally:
        del actor.forward
        del actor.action_log_prob
    p.evaluations += 1
    if not records and ok:
        raise HarnessError("IPPO.learn did not call actor.action_log_prob (spy seam lost)")
    conv_r = "scaled" if j.squash else "raw"
    for rid, z, sg, got, pristine in records:
        if any(i not in stored for i in rid):
            raise HarnessError(f"identity-coded observation rows not recovered: {rid}")
        op = "learn/action_log_prob"
        p.evaluations += 1
        p.dg(rid, np.asarray(got).tolist())
        if not pristine:
            j.nt(E, "weights-changed")
        j.judge_reeval(op, z, None, sg, [stored[i] for i in rid], got, conv_r, ids=rid)
    if n_agents > 1:
        j.nt(E, "homogeneous-agents>1")
    if kind in ("box", "mb") and nlog(sp) == 1:
        j.nt(E, "action-dim-1")
    if j.squash:
        j.nt(E, "squash")


def construct_checks(j: J, sp):
    """the documented way to enable squashing through net_config"""
    from agilerl.algorithms.ippo import IPPO
    from agilerl.algorithms.ppo import PPO

    j.level = "PPO"
    j.point = {"construct": "PPO(net_config={'squash_output': True})"}
    with seeded(7, with_numpy=True):
        call(j, "construct/net_config-squash_output", lambda: PPO(obs_space(), make_space(sp), net_config={"squash_output": True}))
    j.p.evaluations += 1
    j.level = "IPPO"
    j.point = {"construct": "IPPO(net_config={'squash_output': True})"}
    with seeded(7, with_numpy=True):
        call(j, "construct/net_config-squash_output", lambda: IPPO([obs_space()] * 2, [make_space(sp)] * 2, ["a_0", "a_1"], net_config={"squash_output": True}))
    j.p.evaluations += 1


# ------------------------------------------------------------------------------------------
# bounds / tasks

LEVELS = ("dist", "actor", "ppo", "ippo1", "ippo2", "ppo-learn", "ippo1-learn", "ippo2-learn")
MS_PER_EVAL = {"dist": 0.7, "actor": 0.7, "ppo": 1.7, "ippo1": 1.3, "ippo2": 1.4, "ppo-learn": 9.0, "ippo1-learn": 9.0, "ippo2-learn": 10.0}


def bias_rule(level, sp, tier):
    """('full', alphabet) -> alphabet^n ; ('star', alphabet) -> the zero vector and every vector differing from it in one coordinate"""
    n = nlog(sp)
    q = tier == "quick"
    if level == "dist":
        if n <= 2:
            return ("full", A5)
        if n == 3:
            return ("full", A3 if q else A5)
        return ("full", A2) if q else ("full", A5 if n == 5 else A3)
    if level == "actor":
        if n <= 2:
            return ("full", A5)
        if n == 3:
            return ("full", A3 if q else A5)
        return ("star", A3) if q else ("full", A2)
    if level in ("ppo", "ippo1", "ippo2"):
        if n <= 2:
            return ("full", A3 if q else A5)
        if n == 3:
            return ("full", A2 if q else A3)
        return ("star", A3) if q else ("full", A2)
    # learn pipelines
    if n <= 2:
        return ("full", A3 if q else A5)
    if n == 3:
        return ("full", A2 if q else A3)
    return ("star", A3) if q else ("full", A2)


def bias_vectors(level, sp, tier):
    mode, alpha = bias_rule(level, sp, tier)
    n = nlog(sp)
    if mode == "full":
        return [list(b) for b in itertools.product(alpha, repeat=n)]
    out = [[0.0] * n]
    for c in range(n):
        for v in alpha:
            if v != 0.0:
                b = [0.0] * n
                b[c] = v
                out.append(b)
    return out


def stored_actions(sp, conv, B, tier):
    """actions to re-evaluate. Box in the quick tier: whole 5^d grid at batch 4, centre + per-dimension extremes at batch 1 and 2"""
    acts = support(sp, conv)
    if kind_of(sp) != "box" or tier != "quick" or B >= 4:
        return acts
    d = nlog(sp)
    mid = support(sp, conv)[(5 ** d) // 2]
    g = [sorted({a[jj] for a in acts}) for jj in range(d)]
    out = [mid]
    for jj in range(d):
        for v in (g[jj][0], g[jj][-1]):
            a = list(mid)
            a[jj] = v
            out.append(tuple(a))
    return out


def points(level, sp, tier):
    masks = all_masks(sp)
    mlist = [None] + list(range(len(masks)))
    biases = bias_vectors(level, sp, tier)
    out = []
    if level in ("dist", "actor"):
        combos = [(1, "same"), (2, "same"), (4, "same")]
        if level == "dist":
            combos += [(4, "delta")] if tier == "quick" else [(2, "delta"), (4, "delta")]
        for B, rows in combos:
            for bias in biases:
                for m in mlist:
                    out.append({"B": B, "rows": rows, "bias": bias, "mask": m})
    elif level == "ppo":
        for B in (0, 1, 2, 4):
            for bias in biases:
                for m in mlist:
                    out.append({"B": B, "bias": bias, "mask": m})
    elif level in ("ippo1", "ippo2"):
        for B in (0, 1, 2, 4):
            for bias in biases:
                for m in mlist:
                    for mtype in (("ndarray", "list") if m is not None else ("ndarray",)):
                        out.append({"B": B, "bias": bias, "mask": m, "mtype": mtype})
    else:
        ml = [None] + ([1 % len(masks)] if masks else [])
        for E in ((0, 1, 2, 4) if level == "ppo-learn" else (1, 2, 4)):
            for bias in biases:
                for m in ml:
                    out.append({"E": E, "bias": bias, "mask": m})
    return out


def point_cost(level, sp, tier, pt):
    """rough number of judged executions of one point x measured ms per execution"""
    if "learn" in level:
        return MS_PER_EVAL[level] * 6
    B = max(pt.get("B", 1), 1)
    nre = -(-len(stored_actions(sp, "raw", B, tier)) // B)
    if level in ("dist", "actor"):
        ev = 8 + nre
    elif level == "ppo":
        ev = 11 + (nre + 1 if pt["B"] else 0)
    else:
        ev = 10 if pt.get("mtype") != "ndarray" or pt["mask"] is None else 2
    return MS_PER_EVAL[level] * ev


def variants(level, sp):
    base = level.split("-")[0]
    box = kind_of(sp) == "box"
    stds = (STDS if base in ("dist", "actor") else (0.0, 0.5)) if box else (0.0,)
    sqs = (False, True) if box else ((False, True) if (sp in ("D3", "MB3") and level in ("actor", "ppo")) else (False,))
    return [(std, sq) for std in stds for sq in sqs]


def bounds(tier):
    return {
        "spaces": {k: f"{v[0]}{list(v[1])}" for k, v in SPACE_DEF.items()},
        "box_bounds": {"low": BOX_LOW, "high": BOX_HIGH},
        "levels": LEVELS,
        "action_std_init": {"dist/actor": STDS, "ppo/ippo": [s for s in STDS if s >= 0]},
        "squash_output": "Box: [False, True]; the flag is also passed (and must be ignored) for D3 and MB3 at the actor and PPO levels",
        "batch": {"dist/actor": [1, 2, 4], "ppo/ippo get_action": ["unbatched", 1, 2, 4], "learn pipelines (num_envs x T)": ["unvectorised x3 (PPO only)", "1x2", "2x2", "4x2"]},
        "rows": {"dist": "same for batch 1,2,4; delta (row i gets bias + i*DELTA) for batch %s" % ("4" if tier == "quick" else "2,4"), "others": "same"},
        "masks": "None + every mask with >=1 legal action per component (MultiBinary: all 2^n), rotated over rows; IPPO: each mask as ndarray and as nested list; learn pipelines: None and the rotation starting at mask 1",
        "seeds": SEEDS,
        "stored_actions": "discrete: whole support; Box: 5-point grid per dimension (raw: low+f*(high-low), f in %s; squashed: tanh-space %s)%s; plus one action sampled under the negated bias; plus the sample itself"
                          % (GRID_F, GRID_T, " -- quick tier: whole grid at batch 4, centre + per-dimension extremes at batch 1,2" if tier == "quick" else ""),
        "bias_vectors": {lv: {sp: "%s over %s (%d vectors)" % (bias_rule(lv, sp, tier)[0], list(bias_rule(lv, sp, tier)[1]), len(bias_vectors(lv, sp, tier))) for sp in SPACE_DEF}
                         for lv in ("dist", "actor", "ppo", "ppo-learn")},
        "bias_vectors_note": "full = alphabet^n; star = zero vector + every vector that differs from it in exactly one coordinate; ippo1/ippo2 as ppo, ippo*-learn as ppo-learn",
        "learn": "T=2 steps (3 un-vectorised), update_epochs=2, one mini-batch per epoch: first pass with unchanged weights, second after an optimiser step",
    }


def tasks(tier, seed):
    out = []
    target = 4000.0 if tier == "quick" else 30000.0   # ms per task
    for level in LEVELS:
        for sp in SPACE_DEF:
            pts = points(level, sp, tier)
            cost = sum(point_cost(level, sp, tier, pt) for pt in pts)
            nchunk = max(1, min(len(pts), int(math.ceil(cost / target))))
            for std, sq in variants(level, sp):
                for c in range(nchunk):
                    out.append({"level": level, "space": sp, "std": std, "squash": sq, "tier": tier, "chunk": [c, nchunk], "_cost": cost / nchunk})
    out.append({"level": "construct", "space": "B2", "std": 0.0, "squash": True, "tier": tier, "chunk": [0, 1], "_cost": 1})
    return out


def run_task(task):
    p = Partial()
    cfg = {k: task[k] for k in ("level", "space", "std", "squash", "tier", "chunk")}
    level, sp, std, sq, tier = cfg["level"], cfg["space"], cfg["std"], cfg["squash"], cfg["tier"]
    j = J(p, cfg)
    if level == "construct":
        construct_checks(j, sp)
        p.sample({"config": cfg})
        return p
    masks = all_masks(sp)
    if task.get("point") is not None:
        pts = [task["point"]]
    else:
        c, nc = cfg["chunk"]
        pts = [pt for i, pt in enumerate(points(level, sp, tier)) if i % nc == c]
    j.level = {"dist": "EvolvableDistribution", "actor": "StochasticActor", "ppo": "PPO", "ippo1": "IPPO", "ippo2": "IPPO"}[level.split("-")[0]]
    obj = None
    for k, pt in enumerate(pts):
        j.point = pt
        j.bad_ops.clear()
        if level in ("dist", "actor"):
            obj = obj or (build_dist if level == "dist" else build_actor)(sp, std, sq)
            point_net(j, obj[0], obj[1], level, pt["B"], pt["bias"], pt["rows"], pt["mask"], masks, std, tier)
        elif level == "ppo":
            obj = obj or build_ppo(sp, std, sq)
            point_ppo(j, obj[0], obj[1], pt["B"], pt["bias"], pt["mask"], masks, std, tier)
        elif level in ("ippo1", "ippo2"):
            obj = obj or build_ippo(sp, std, sq, int(level[-1]))
            point_ippo(j, obj[0], obj[1], obj[2], pt["B"], pt["bias"], pt["mask"], masks, std, pt.get("mtype", "ndarray"))
        elif level == "ppo-learn":
            pipe_ppo(j, sp, std, sq, pt["E"], pt["bias"], pt["mask"], masks)
        else:
            pipe_ippo(j, sp, std, sq, int(level[4]), pt["E"], pt["bias"], pt["mask"], masks)
        if k == 0:
            p.sample({"config": cfg, "point": pt})
    return p


def _warm():
    """first construction of an agent triggers ~7 s of lazy imports; do it once in the parent before the pool forks"""
    try:
        build_ppo("D2", 0.0, False)
        build_ippo("D2", 0.0, False, 1)
    except Exception:  # noqa: BLE001  (a broken constructor is reported by the tasks themselves)
        pass


_warm()
