"""C18 — Rainbow's distributional target conserves probability mass and expected value.

E3 lattice, two parts, both on the real ``RainbowDQN``:

* part "stub": ``agent._dqn_loss`` is called with ``agent.actor`` / ``agent.actor_target`` replaced (on the
  instance) by table-driven modules.  The online table gives batch row (j, p) the log-probability vector -e_j
  (and -1 everywhere for j == num_atoms), so the element-wise loss of that row IS component j (resp. the total
  mass) of the projected distribution of lattice point p: the internal ``proj_dist`` is recovered through the public
  return value.  Every real row has a zero-mass ("dark") neighbour row on both sides, so any mass landing in another
  batch row is seen exactly.
* part "e2e": ``agent.learn(experiences, n_experiences, per=True)`` with real networks (fresh and peaked weights,
  target != online) for 1-step, n-step and combined targets; the returned priorities are compared with the
  cross-entropy of an independent float64 reference projection.
"""
from __future__ import annotations

import copy
import itertools
import math

import numpy as np
import torch
from gymnasium import spaces
from tensordict import TensorDict

from agilerl.algorithms.dqn_rainbow import RainbowDQN

from ..core import HarnessError, Partial
from ..rand import seeded

LEVEL = "exploration"
RULE = (
    "exhaustive product atoms x (v_min,v_max) x gamma^k x done x reward x source distribution; every lattice point is "
    "executed through the real RainbowDQN._dqn_loss (stub part: table-driven actor/actor_target, projection read back "
    "component by component through the returned element-wise loss, N+1 batch rows per point, dark neighbour rows) and "
    "every (reward,done) row additionally through RainbowDQN.learn(per=True) with real networks for 1-step / n-step / "
    "combined targets (e2e part); evaluations = lattice points judged (stub) + batch rows of learn() judged (e2e); "
    "non-trivial = distinct (atoms,range,gamma^k,done,reward) with the reward exactly on an atom, beyond the support "
    "range, or done=1 (stub) and distinct e2e rows of the same kinds per (atoms,range,gamma,k,mode,weights); "
    "outcome = distinct (atoms, clipped-low, clipped-high, some t_z exactly on an atom, number of non-zero projected atoms)"
)
ASSUMPTIONS = [
    "the greedy next action is the arg-max of the ONLINE network's expected value (double-DQN reading of 'greedy next action'); the source distribution is the TARGET network's distribution for that action",
    "batches have the shapes the AgileRL replay buffers produce: obs (B,d), action/reward/done/weights/idxs (B,1), float32 (checked against a real PrioritizedReplayBuffer sample in every e2e task); agent.batch_size equals the number of rows",
    "mass tolerance 1e-5*max(1,mass), mean tolerance 1e-4*(v_max-v_min), projection-vs-reference tolerance 1e-4, priority tolerance 2e-4*max(1,|cross-entropy|) (float32 implementation vs float64 reference on float32 inputs; largest deviation measured on the unchanged tree 7e-5)",
    "the reference projection is the triangular-kernel (C51) projection onto linspace(v_min,v_max,atoms) computed in float64; 'the online distribution' in the cross-entropy is accepted as either log_softmax (actor(..., log=True)) or log of the clamped softmax (actor(..., q=False))",
    "dark (zero-mass) neighbour rows are measuring instruments, not lattice points; they are not counted as evaluations",
    "e2e: n-step rows pair the (reward,done) list with itself rotated by len//3+1 (not the full square of pairs); rows whose online greedy action is ambiguous within 1e-6*range accept either action",
    "NoisyLinear noise is held in buffers until reset_noise() at the end of learn(); the reference uses the same networks before the call",
]

ATOMS_Q = [2, 3, 5, 11, 51]
RANGES_Q = [[-1.0, 1.0], [0.0, 10.0], [-10.0, 10.0], [-100.0, 100.0], [0.1, 0.7], [-0.3, 0.3]]
GAMMAS_Q = [0.0, 0.5, 0.99, 1.0]
KS_Q = [1, 3]
ATOMS_T = [2, 3, 4, 5, 7, 11, 21, 51, 71]
RANGES_T = RANGES_Q + [[0.0, 200.0], [-1.0, 0.0]]
GAMMAS_T = [0.0, 0.5, 0.9, 0.99, 1.0]
KS_T = [1, 3]
MODES = ["1step", "nstep", "combined"]
VARIANTS = ["init", "peaked"]
NUM_ACTIONS = 3
E2E_B = 10
PRIOR_EPS = 1e-6
NET_CONFIG = {"latent_dim": 8, "encoder_config": {"hidden_size": [16]}, "head_config": {"hidden_size": [16]}}


def _alph(tier):
    if tier == "quick":
        return ATOMS_Q, RANGES_Q, GAMMAS_Q, KS_Q
    return ATOMS_T, RANGES_T, GAMMAS_T, KS_T


def bounds(tier):
    atoms, ranges, gammas, ks = _alph(tier)
    return {
        "atoms": atoms, "v_range": ranges, "gamma": gammas, "k": ks, "done": [0, 1],
        "reward": "every atom (float32), every mid-point of adjacent atoms, v_min-1, v_max+1, every atom -1ulp and +1ulp  (4*atoms+1 values)",
        "source": "one-hot at each atom, uniform, two-point ends (0.3,0.7), two-point adjacent middle (0.6,0.4), clamped softmax of a real peaked RainbowQNetwork  (atoms+4)",
        "stub": {"num_actions": NUM_ACTIONS, "gamma_pow": "all distinct values of gamma**k", "rows_per_point": "atoms+1 readers, dark neighbour rows on both sides"},
        "e2e": {"modes": MODES, "weights": VARIANTS, "batch": E2E_B, "num_actions": NUM_ACTIONS, "obs_dim": 3,
                "rows": "every (reward, done) of the lattice as 1-step row; n-step row = same list rotated by len//3+1",
                "gamma_x_k": "full product"},
    }


def _gpows(gammas, ks):
    seen, out = set(), []
    for g in gammas:
        for k in ks:
            v = g ** k
            if v not in seen:
                seen.add(v)
                out.append([g, k])
    return out


def tasks(tier, seed):
    atoms, ranges, gammas, ks = _alph(tier)
    out = []
    for N in atoms:
        for vr in ranges:
            for g, k in _gpows(gammas, ks):
                base = {"part": "stub", "N": N, "vmin": vr[0], "vmax": vr[1], "gamma": g, "k": k}
                npts = (4 * N + 1) * (N + 4) * 2
                nsplit = max(1, round(npts * (N + 1) * N / 3.0e7))
                for s in range(nsplit):
                    out.append({**base, "split": [s, nsplit], "_cost": npts * (N + 1) * N / nsplit})
            for g in gammas:
                out.append({"part": "e2e", "N": N, "vmin": vr[0], "vmax": vr[1], "gamma": g, "ks": ks,
                            "_cost": (8 * N + 2) * len(ks) * 6 * 4.0e4})
    return out


# ------------------------------------------------------------------------------------------
# independent reference (numpy float64)

def support64(N, vmin, vmax):
    return vmin + np.arange(N, dtype=np.float64) * ((vmax - vmin) / (N - 1))


def ref_target(src, rew, done, g, N, vmin, vmax):
    """src (P,N) float64, rew (P,), done (P,) -> clipped target locations (P,N), reference projection (P,N)."""
    z = support64(N, vmin, vmax)
    dz = (vmax - vmin) / (N - 1)
    tz = np.clip(rew[:, None] + g * (1.0 - done[:, None]) * z[None, :], vmin, vmax)
    # triangular kernel: atom j receives s_i * max(0, 1 - |tz_i - z_j| / dz)
    K = np.maximum(0.0, 1.0 - np.abs(tz[:, :, None] - z[None, None, :]) / dz)
    proj = np.einsum("pi,pij->pj", src, K)
    return tz, proj


def reward_lattice(N, vmin, vmax):
    z = support64(N, vmin, vmax)
    z32 = z.astype(np.float32)
    out = []
    for i in range(N):
        out.append(("atom", i, z32[i]))
    for i in range(N - 1):
        out.append(("mid", i, np.float32((z[i] + z[i + 1]) / 2.0)))
    out.append(("below", 0, np.float32(vmin - 1.0)))
    out.append(("above", 0, np.float32(vmax + 1.0)))
    for i in range(N):
        out.append(("ulp-", i, np.nextafter(z32[i], np.float32(-np.inf))))
        out.append(("ulp+", i, np.nextafter(z32[i], np.float32(np.inf))))
    return out


def make_agent(N, vmin, vmax, gamma, k, combined, batch, seed):
    with seeded(seed):
        return RainbowDQN(
            spaces.Box(-1.0e7, 1.0e7, (3,), dtype=np.float32), spaces.Discrete(NUM_ACTIONS), num_atoms=N, v_min=vmin, v_max=vmax,
            gamma=gamma, n_step=k, combined_reward=combined, batch_size=batch, prior_eps=PRIOR_EPS, lr=1e-4,
            net_config=copy.deepcopy(NET_CONFIG))


def peak(net, factor=40.0):
    """Scale the output layers of both heads so that the softmax is peaked and the 1e-3 clamp is active."""
    n = 0
    with torch.no_grad():
        for name, prm in net.named_parameters():
            if "linear_layer_output" in name and name.startswith("head_net"):
                prm.mul_(factor)
                n += 1
    if n != 8:
        raise HarnessError(f"expected 8 output-layer parameters of the Rainbow heads, found {n}")


def source_lattice(N, vmin, vmax):
    srcs = []
    for i in range(N):
        v = np.zeros(N, np.float32)
        v[i] = 1.0
        srcs.append((f"onehot{i}", v))
    srcs.append(("uniform", np.full(N, 1.0 / N, np.float32)))
    v = np.zeros(N, np.float32)
    v[0] += 0.3
    v[N - 1] += 0.7
    srcs.append(("two-ends", v))
    v = np.zeros(N, np.float32)
    v[(N - 1) // 2] += 0.6
    v[(N - 1) // 2 + 1] += 0.4
    srcs.append(("two-adjacent", v))
    ag = make_agent(N, vmin, vmax, 0.99, 3, False, 4, 777)
    peak(ag.actor_target)
    with torch.no_grad():
        d = ag.actor_target(torch.tensor([[0.3, -1.2, 0.8]]), q=False)[0, 1]
    v = d.numpy().astype(np.float32).copy()
    if not (np.isfinite(v).all() and v.min() >= 1e-3 - 1e-9):
        raise HarnessError(f"net source not a clamped softmax: {v}")
    srcs.append(("net-clamped-softmax", v))
    return srcs


# ------------------------------------------------------------------------------------------
# part "stub"

class TableNet(torch.nn.Module):
    """Stand-in for RainbowQNetwork: answers from tables indexed by obs[:, 0]."""

    def __init__(self):
        super().__init__()
        self.q = self.dist = self.logp = None
        self.calls = []

    def forward(self, obs, q=True, log=False):
        idx = obs[:, 0].long()
        self.calls.append((int(idx[0]), len(idx), bool(q), bool(log)))
        if log:
            return self.logp[idx]
        if q:
            return self.q[idx]
        return self.dist[idx]

    def reset_noise(self):
        pass


class StubRig:
    def __init__(self, N, vmin, vmax, g):
        self.N, self.vmin, self.vmax, self.g = N, vmin, vmax, g
        self.agent = make_agent(N, vmin, vmax, 0.99, 3, False, 4, 11)
        self.on, self.tg = TableNet(), TableNet()
        # replace on the instance; the real networks stay registered but unused
        self.agent.__dict__["actor"] = self.on
        self.agent.__dict__["actor_target"] = self.tg
        if self.agent.actor is not self.on or self.agent.actor_target is not self.tg:
            raise HarnessError("could not replace actor/actor_target on the instance")
        self.z32 = torch.tensor(support64(N, vmin, vmax), dtype=torch.float32)
        self.cache = {}

    def layout(self, PP):
        """constant tables for a call with PP point slots (rows = (N+1)*PP, reader-major)."""
        if PP in self.cache:
            return self.cache[PP]
        N, A = self.N, NUM_ACTIONS
        R = (N + 1) * PP
        qs = torch.arange(PP).repeat(N + 1)              # point slot of each row
        js = torch.arange(N + 1).repeat_interleave(PP)   # reader of each row
        greedy = qs % A
        act = (qs + js) % A
        reader = torch.zeros(R, N)
        rr = torch.arange(R)
        m = js < N
        reader[rr[m], js[m]] = -1.0
        reader[~m] = -1.0
        # online tables
        logp = torch.full((2 * R, A, N), -1000.0)
        logp[rr, act] = reader
        dist = torch.exp(logp)
        dist[R:] = 0.0
        dist[R:, :, 0] = 1.0
        dist[R + rr, greedy] = 0.0
        dist[R + rr, greedy, N - 1] = 1.0
        logp[R:] = torch.log(dist[R:].clamp(min=1e-30))
        onq = (dist * self.z32).sum(-1)
        # target tables: poison everywhere except the slots filled per call
        tdist = torch.zeros(2 * R, A, N)
        tdist[:, :, N - 1] = 3.0
        tq = (tdist * self.z32).sum(-1)
        tlogp = torch.log(tdist.clamp(min=1e-30))
        lay = {"tq": tq, "tlogp": tlogp, "R": R, "qs": qs, "js": js, "greedy": greedy, "act": act, "reader": reader, "on": (onq, dist, logp), "tdist": tdist,
               "states": torch.stack([rr.float(), torch.zeros(R), torch.zeros(R)], 1),
               "next_states": torch.stack([(R + rr).float(), torch.zeros(R), torch.zeros(R)], 1),
               "actions": act.float().unsqueeze(1)}
        self.cache[PP] = lay
        return lay

    def call(self, src, rew, done, logp_override=None):
        """src (PP,N) float32, rew (PP,), done (PP,) -> loss (N+1, PP) float64 numpy (raises what AgileRL raises)."""
        PP = src.shape[0]
        N = self.N
        lay = self.layout(PP)
        R = lay["R"]
        rr = torch.arange(R)
        # only the (next-state row, greedy action) slots change between calls of one layout: written in place
        srows = torch.from_numpy(src).repeat(N + 1, 1)
        lay["tdist"][R + rr, lay["greedy"]] = srows
        lay["tq"][R + rr, lay["greedy"]] = (srows * self.z32).sum(-1)
        lay["tlogp"][R + rr, lay["greedy"]] = torch.log(srows.clamp(min=1e-30))
        self.tg.dist, self.tg.q, self.tg.logp = lay["tdist"], lay["tq"], lay["tlogp"]
        self.on.q, self.on.dist, self.on.logp = lay["on"]
        if logp_override is not None:
            lp = self.on.logp.clone()
            lp[:R] = logp_override.unsqueeze(1)  # same vector for every action: the probe must not depend on which action is read
            self.on.logp = lp
            d = self.on.dist.clone()
            d[:R] = torch.exp(lp[:R])
            self.on.dist = d
        self.on.calls, self.tg.calls = [], []
        self.agent.batch_size = R
        rewards = torch.from_numpy(rew).repeat(N + 1).unsqueeze(1)
        dones = torch.from_numpy(done).repeat(N + 1).unsqueeze(1)
        out = self.agent._dqn_loss(lay["states"], lay["actions"], rewards, lay["next_states"], dones, self.g)
        if tuple(out.shape) != (R,):
            raise HarnessError(f"_dqn_loss returned shape {tuple(out.shape)}, expected ({R},)")
        return out.detach().to(torch.float64).numpy().reshape(N + 1, PP)

    def seam_probe(self, src, rew, done):
        """The read-back is valid iff the returned loss is linear in the online log-probabilities (independent of
        how the projection is computed and of which action is read): loss(l1 + l2) == loss(l1) + loss(l2) row by row."""
        PP = src.shape[0]
        lay = self.layout(PP)
        R, N = lay["R"], self.N
        l1 = lay["reader"]
        l2 = -((torch.arange(R).unsqueeze(1) * 3 + torch.arange(N).unsqueeze(0) * 5) % 7).float() / 4.0 - 0.25
        try:
            a = self.call(src, rew, done, l1)
            b = self.call(src, rew, done, l2)
            c = self.call(src, rew, done, l1 + l2)
            d = self.call(src, rew, done, torch.zeros(R, N))
        except HarnessError:
            raise
        except Exception:
            return  # AgileRL raised on a legal batch: reported by the main loop as a violation
        if not (np.isfinite(a).all() and np.isfinite(b).all() and np.isfinite(c).all()):
            return
        if np.abs(c - (a + b)).max() > 1e-5 * (1.0 + np.abs(c).max()) or np.abs(d).max() != 0.0:
            raise HarnessError("seam lost: element-wise loss is not linear in the online log-probabilities")
        sig_on = sorted(set((q, lg) for _, _, q, lg in self.on.calls))
        sig_tg = sorted(set((q, lg) for _, _, q, lg in self.tg.calls))
        if not sig_on or not sig_tg:
            raise HarnessError(f"seam lost: stub networks not consulted (online {sig_on}, target {sig_tg})")


def rkind(kind):
    return {"atom": "r-on-atom", "mid": "r-between-atoms", "below": "r-beyond-range", "above": "r-beyond-range", "ulp-": "r-atom-1ulp", "ulp+": "r-atom-1ulp"}[kind]


def run_stub(task):
    p = Partial()
    N, vmin, vmax, gam, k = task["N"], task["vmin"], task["vmax"], task["gamma"], task["k"]
    g = gam ** k
    cfg = {kk: task[kk] for kk in ("part", "N", "vmin", "vmax", "gamma", "k")}
    rig = StubRig(N, vmin, vmax, g)
    rews = reward_lattice(N, vmin, vmax)
    srcs = source_lattice(N, vmin, vmax)
    points = [(si, d, ri) for si in range(len(srcs)) for d in (0, 1) for ri in range(len(rews))]
    P = max(3, min(48, 1400 // (N + 1)))
    calls = [points[i:i + P] for i in range(0, len(points), P)]
    if len(calls) > 1 and len(calls[-1]) < 3:
        calls[-2:] = [calls[-2] + calls[-1]]
    span = (vmax - vmin)
    z = support64(N, vmin, vmax)

    def arrays(pts):
        """dark, real, dark, real, ..., dark"""
        PP = 2 * len(pts) + 1
        src = np.zeros((PP, N), np.float32)
        rew = np.zeros(PP, np.float32)
        done = np.zeros(PP, np.float32)
        for i, (si, d, ri) in enumerate(pts):
            src[2 * i + 1] = srcs[si][1]
            rew[2 * i + 1] = rews[ri][2]
            done[2 * i + 1] = d
            rew[2 * i] = rews[ri][2]
            done[2 * i] = d
        rew[-1], done[-1] = rew[-2], done[-2]
        return src, rew, done

    def describe(pt):
        si, d, ri = pt
        return f"atoms={N} range=[{vmin},{vmax}] gamma^k={gam}^{k} done={d} reward={rews[ri][0]}[{rews[ri][1]}]={float(rews[ri][2])!r} source={srcs[si][0]}"

    def tclass(pt):
        si, d, ri = pt
        raw = float(rews[ri][2]) + g * (1.0 - d) * z
        carry = srcs[si][1] > 0
        b = (np.clip(raw, vmin, vmax) - vmin) / (span / (N - 1))
        if ((raw < vmin) | (raw > vmax))[carry].any():
            return "target-clipped"
        if (b == np.round(b))[carry].any():
            return "target-on-atom"
        return "target-between-atoms"

    def eclass(pt):
        """where ANY target location falls (index arithmetic is independent of the mass carried)"""
        si, d, ri = pt
        tz32 = np.clip(np.float32(rews[ri][2]) + np.float32(g * (1.0 - d)) * z.astype(np.float32), np.float32(vmin), np.float32(vmax))
        top = (tz32 >= np.nextafter(np.nextafter(np.float32(z[N - 1]), np.float32(-np.inf)), np.float32(-np.inf))).any()
        bot = (tz32 <= np.nextafter(np.nextafter(np.float32(z[0]), np.float32(np.inf)), np.float32(np.inf))).any()
        return "target-at-top-atom" if top else ("target-at-bottom-atom" if bot else "target-interior")

    def judge(pts, loss, rp):
        src, rew, done = arrays(pts)
        real = np.arange(len(pts)) * 2 + 1
        dark = np.arange(len(pts) + 1) * 2
        proj = loss[:N, :].T          # (PP, N)
        massr = loss[N, :]            # (PP,)
        s64 = src[real].astype(np.float64)
        tz, ref = ref_target(s64, rew[real].astype(np.float64), done[real].astype(np.float64), g, N, vmin, vmax)
        smass = s64.sum(1)
        smean = (s64 * tz).sum(1)
        pr = proj[real]
        finite = np.isfinite(pr).all(1) & np.isfinite(massr[real])
        # cross-row: anything read in a dark row came from another row
        dk = np.concatenate([proj[dark], massr[dark][:, None]], 1)
        bad_dark = ~(np.nan_to_num(dk, nan=1.0) == 0.0).all(1)
        for di in np.nonzero(bad_dark)[0][:1]:
            nb = pts[min(di, len(pts) - 1)] if di == 0 else pts[di - 1]
            p.viol(f"Rainbow/_dqn_loss/cross-row-leak/next-to-{eclass(nb)}", f"zero-mass batch row next to [{describe(nb)}] received mass {dk[di].tolist()}", rp,
                   observed=dk[di].tolist(), expected=0.0)
        for i, pt in enumerate(pts):
            si, d, ri = pt
            kind = rews[ri][0]
            p.evaluations += 1
            if kind in ("atom", "below", "above") or d == 1:
                p.nt([N, vmin, vmax, g, d, kind, rews[ri][1]])
            raw = rew[real][i].astype(np.float64) + g * (1.0 - d) * z
            b = (tz[i] - vmin) / (span / (N - 1))
            rk = tclass(pt)  # where the mass-carrying target locations fall (discriminates the key)
            if not finite[i]:
                p.viol(f"Rainbow/_dqn_loss/non-finite/{rk}", f"{describe(pt)}: projection {pr[i].tolist()} mass-row {massr[real][i]}", rp)
                continue
            tol_m = 1e-5 * max(1.0, smass[i])
            got_mass = pr[i].sum()
            if (pr[i] < 0).any():
                p.viol(f"Rainbow/_dqn_loss/negative-probability/{rk}", f"{describe(pt)}: projection {pr[i].tolist()}", rp, observed=pr[i].tolist())
            if abs(got_mass - smass[i]) > tol_m or abs(massr[real][i] - smass[i]) > tol_m:
                how = "lost" if min(got_mass, massr[real][i]) < smass[i] - tol_m else "gained"
                p.viol(f"Rainbow/_dqn_loss/mass-{how}/{rk}",
                       f"{describe(pt)}: sum(proj)={got_mass!r} mass read by the all-ones row={massr[real][i]!r} source mass={smass[i]!r}; proj={pr[i].tolist()}", rp,
                       observed=[got_mass, float(massr[real][i])], expected=float(smass[i]))
            elif abs((pr[i] * z).sum() - smean[i]) > 1e-4 * span:
                p.viol(f"Rainbow/_dqn_loss/mean-not-conserved/{rk}",
                       f"{describe(pt)}: sum(proj*z)={(pr[i] * z).sum()!r} expected E[clip(r+g(1-d)z)]={smean[i]!r}; proj={pr[i].tolist()}", rp,
                       observed=float((pr[i] * z).sum()), expected=float(smean[i]))
            elif np.abs(pr[i] - ref[i]).max() > 1e-4 * max(1.0, smass[i]):
                p.viol(f"Rainbow/_dqn_loss/not-the-reference-projection/{rk}",
                       f"{describe(pt)}: proj={pr[i].tolist()} reference={ref[i].tolist()}", rp, observed=pr[i].tolist(), expected=ref[i].tolist())
            p.out([N, bool((raw < vmin).any()), bool((raw > vmax).any()),
                   bool((b == np.round(b)).any()), int((pr[i] > 0).sum())])

    only = task.get("call")
    s, ns = task.get("split", [0, 1])
    probed = False
    for ci, pts in enumerate(calls):
        if only is not None:
            if ci != only:
                continue
        elif ci % ns != s:
            continue
        rp = {**cfg, "call": ci}
        src, rew, done = arrays(pts)
        if not probed:
            rig.seam_probe(src, rew, done)
            probed = True
        try:
            loss = rig.call(src, rew, done)
        except HarnessError:
            raise
        except Exception as e:
            # locate the offending point(s): each point alone between two dark rows
            culprits = []
            for pt in pts:
                s1, r1, d1 = arrays([pt])
                try:
                    l1 = rig.call(s1, r1, d1)
                    judge([pt], l1, rp)
                except HarnessError:
                    raise
                except Exception as e1:
                    p.evaluations += 1
                    culprits.append((pt, e1))
            for pt, e1 in culprits:
                p.viol(f"Rainbow/_dqn_loss/exception/{type(e1).__name__}/{eclass(pt)}", f"{describe(pt)} (alone between two zero-mass rows): {e1!r}", rp)
            if not culprits:
                p.viol(f"Rainbow/_dqn_loss/exception/{type(e).__name__}/batch-only", f"batch of {len(pts)} points starting at [{describe(pts[0])}]: {e!r}", rp)
            p.dg(ci, "exc", type(e).__name__)
            continue
        judge(pts, loss, rp)
        p.dg(ci, loss.tobytes())
        if ci == 0 or only is not None:
            i = min(3, len(pts) - 1)
            p.sample({"config": cfg, "point": describe(pts[i]), "projection_read_back": loss[:N, 2 * i + 1].tolist(), "mass_row": float(loss[N, 2 * i + 1])})
    return p


# ------------------------------------------------------------------------------------------
# part "e2e"

def _obs(idx, salt):
    i = np.asarray(idx, dtype=np.float64) + salt
    return np.stack([np.sin(0.7 * i + 1.0), np.cos(1.3 * i), ((i % 5) - 2.0) / 2.0], 1).astype(np.float32)


def check_buffer_shapes(B):
    """The hand-built batches must look like what the real buffers hand to learn()."""
    from agilerl.components.data import Transition
    from agilerl.components.replay_buffer import PrioritizedReplayBuffer

    buf = PrioritizedReplayBuffer(max_size=8, alpha=0.6)
    tr = Transition(obs=_obs([0, 1], 0), action=np.array([1, 2]), reward=np.array([0.5, 1.5]), next_obs=_obs([0, 1], 1000), done=np.array([False, True]))
    tr = tr.to_tensordict()
    tr.batch_size = [2]
    buf.add(tr)
    with seeded(0):
        s = buf.sample(2, 0.4)
    got = {kk: (tuple(s[kk].shape), str(s[kk].dtype)) for kk in ("obs", "action", "reward", "next_obs", "done", "weights", "idxs")}
    want = {"obs": ((2, 3), "torch.float32"), "action": ((2, 1), "torch.float32"), "reward": ((2, 1), "torch.float32"), "next_obs": ((2, 3), "torch.float32"),
            "done": ((2, 1), "torch.float32"), "weights": ((2, 1), "torch.float32"), "idxs": ((2, 1), "torch.int64")}
    if got != want:
        raise HarnessError(f"replay buffer sample layout changed: {got}")


def ce_reference(dist_next_on, dist_next_tg, logp_on, dist_on, actions, rew, done, g, N, vmin, vmax):
    """all float64 numpy; returns per row: list of admissible cross-entropy values"""
    z = support64(N, vmin, vmax)
    span = vmax - vmin
    q = (dist_next_on * z).sum(-1)           # (B, A)
    B = q.shape[0]
    out = []
    for r in range(B):
        order = np.argsort(-q[r], kind="stable")
        cands = [order[0]] + [a for a in order[1:] if q[r, order[0]] - q[r, a] <= 1e-6 * span]
        vals = []
        for a in cands:
            _, proj = ref_target(dist_next_tg[r, a][None, :], rew[r:r + 1], done[r:r + 1], g, N, vmin, vmax)
            a_t = int(actions[r])
            vals.append(float(-(proj[0] * logp_on[r, a_t]).sum()))
            vals.append(float(-(proj[0] * np.log(dist_on[r, a_t])).sum()))
        out.append(vals)
    return out


def run_e2e(task):
    p = Partial()
    N, vmin, vmax, gam = task["N"], task["vmin"], task["vmax"], task["gamma"]
    cfg = {kk: task[kk] for kk in ("part", "N", "vmin", "vmax", "gamma", "ks")}
    B = E2E_B
    check_buffer_shapes(B)
    rews = reward_lattice(N, vmin, vmax)
    rows = [(ri, d) for ri in range(len(rews)) for d in (0, 1)]
    M = len(rows)
    shift = M // 3 + 1
    nb = math.ceil(M / B)
    only = task.get("only")
    with seeded(99):
        for k in task["ks"]:
            for mode in MODES:
                if only and (only[0] != k or only[1] != mode):
                    continue
                agent = make_agent(N, vmin, vmax, gam, k, mode == "combined", B, 1234)
                alt = make_agent(N, vmin, vmax, gam, k, mode == "combined", B, 4321)
                if not agent.actor.training or not agent.actor_target.training:
                    raise HarnessError("networks expected in training mode")
                sd = {"init": (copy.deepcopy(agent.actor.state_dict()), copy.deepcopy(agent.actor_target.state_dict()))}
                peak(agent.actor)
                peak(alt.actor)
                sd["peaked"] = (copy.deepcopy(agent.actor.state_dict()), copy.deepcopy(alt.actor.state_dict()))
                for variant in VARIANTS:
                    if only and only[2] != variant:
                        continue
                    for bi in range(nb):
                        if only and only[3] != bi:
                            continue
                        rp = {**cfg, "only": [k, mode, variant, bi]}
                        agent.actor.load_state_dict(sd[variant][0])
                        agent.actor_target.load_state_dict(sd[variant][1])
                        ids = [(bi * B + r) % M for r in range(B)]
                        nids = [(i + shift) % M for i in ids]
                        gi = np.array(ids) + (1 if variant == "peaked" else 0) * 7
                        exp = TensorDict({
                            "obs": torch.from_numpy(_obs(gi, 0)), "action": torch.tensor([[float((i + i // 3) % NUM_ACTIONS)] for i in ids]),
                            "reward": torch.tensor([[rews[rows[i][0]][2]] for i in ids], dtype=torch.float32),
                            "next_obs": torch.from_numpy(_obs(gi, 1000)), "done": torch.tensor([[float(rows[i][1])] for i in ids]),
                            "weights": torch.tensor([[0.25 + 0.75 * ((i * 3) % 4) / 3.0] for i in ids], dtype=torch.float32),
                            "idxs": torch.tensor([[i] for i in ids], dtype=torch.int64)}, batch_size=[B])
                        nexp = None
                        if mode != "1step":
                            nexp = TensorDict({
                                "obs": exp["obs"].clone(), "action": exp["action"].clone(),
                                "reward": torch.tensor([[rews[rows[i][0]][2]] for i in nids], dtype=torch.float32),
                                "next_obs": torch.from_numpy(_obs(gi, 2000)), "done": torch.tensor([[float(rows[i][1])] for i in nids])}, batch_size=[B])

                        def f64(t):
                            return t.detach().to(torch.float64).numpy()

                        with torch.no_grad():
                            a_t = exp["action"].reshape(-1).long().numpy()
                            logp_on = f64(agent.actor(exp["obs"], q=False, log=True))
                            dist_on = f64(agent.actor(exp["obs"], q=False))
                            terms = []
                            if mode in ("1step", "combined"):
                                terms.append(ce_reference(f64(agent.actor(exp["next_obs"], q=False)), f64(agent.actor_target(exp["next_obs"], q=False)), logp_on, dist_on, a_t,
                                                          f64(exp["reward"]).reshape(-1), f64(exp["done"]).reshape(-1), gam, N, vmin, vmax))
                            if mode in ("nstep", "combined"):
                                terms.append(ce_reference(f64(agent.actor(nexp["next_obs"], q=False)), f64(agent.actor_target(nexp["next_obs"], q=False)), logp_on, dist_on, a_t,
                                                          f64(nexp["reward"]).reshape(-1), f64(nexp["done"]).reshape(-1), gam ** k, N, vmin, vmax))
                        kp = f"Rainbow/learn/per/{mode}"
                        tops = [bool(np.float32(rews[rows[i][0]][2]) >= np.float32(vmax)) for i in (ids if mode == "1step" else nids if mode == "nstep" else ids + nids)]
                        try:
                            res = agent.learn(exp.clone(), n_experiences=None if nexp is None else nexp.clone(), per=True)
                        except Exception as e:
                            p.evaluations += B
                            p.viol(f"Rainbow/learn/per/exception/{type(e).__name__}", f"mode={mode} atoms={N} range=[{vmin},{vmax}] gamma={gam} n_step={k} weights={variant} batch {bi} "
                                   f"(rows with reward >= v_max: {sum(tops)}): {e!r}", rp)
                            p.dg(k, mode, variant, bi, "exc")
                            continue
                        if not (isinstance(res, tuple) and len(res) == 3):
                            p.viol(f"{kp}/return-arity", f"learn returned {type(res)}", rp)
                            continue
                        loss, idxs, prio = res
                        prio = np.asarray(prio, dtype=np.float64)
                        if prio.shape != (B,):
                            p.evaluations += B
                            p.viol(f"{kp}/priorities-shape", f"new_priorities shape {prio.shape}, batch {B}", rp)
                            continue
                        p.dg(k, mode, variant, bi, prio.tobytes())
                        for r in range(B):
                            p.evaluations += 1
                            ri, d = rows[ids[r]]
                            kind = rews[ri][0]
                            if kind in ("atom", "below", "above") or d == 1:
                                p.nt(["e2e", N, vmin, vmax, gam, k, mode, variant, d, kind, rews[ri][1]])
                            adm = [sum(c) for c in itertools.product(*[t[r] for t in terms])]
                            got = prio[r] - PRIOR_EPS
                            scale = max(1.0, max(abs(a) for a in adm))
                            if not np.isfinite(got) or min(abs(got - a) for a in adm) > 2e-4 * scale:
                                nri, nd = rows[nids[r]]
                                p.viol(f"{kp}/priority-not-cross-entropy",
                                       f"atoms={N} range=[{vmin},{vmax}] gamma={gam} n_step={k} weights={variant} batch {bi} row {r}: reward={float(rews[ri][2])!r}({kind}) done={d}"
                                       + (f" n-step reward={float(rews[nri][2])!r} n-done={nd}" if nexp is not None else "")
                                       + f": new_priority-prior_eps={got!r}, reference cross-entropy={adm[0]!r}", rp, observed=float(got), expected=adm[0])
                            p.out(["e2e", N, mode, variant, d, rkind(kind)])
                        if bi == 0 and variant == "peaked" and k == task["ks"][-1] and mode == "combined":
                            p.sample({"config": cfg, "mode": mode, "n_step": k, "weights": variant, "rewards": f64(exp["reward"]).reshape(-1).tolist(),
                                      "dones": f64(exp["done"]).reshape(-1).tolist(), "priorities": prio.tolist(),
                                      "reference_ce": [sum(t[r][0] for t in terms) for r in range(B)]})
    return p


def run_task(task):
    if task["part"] == "stub":
        return run_stub(task)
    if task["part"] == "e2e":
        return run_e2e(task)
    raise HarnessError(f"unknown part {task.get('part')}")
