"""C10 — n-step returns never cross an episode boundary and stay aligned with 1-step data.

E1 stategraph over the op alphabet add(done-vector in {0,1}^E) on the real MultiStepReplayBuffer
with a 1-step ReplayBuffer filled alongside exactly as train_off_policy does. Rewards are
2^(t*E+e) so that (with gamma in {1, 0.5}) the stored sum identifies exactly which raw steps
were summed; obs/action/next_obs encode (t, e).
"""
from __future__ import annotations

import numpy as np
import torch

from agilerl.components.data import Transition
from agilerl.components.replay_buffer import MultiStepReplayBuffer, ReplayBuffer

from ..core import Partial
from ..stategraph import explore

LEVEL = "model_checking"
RULE = (
    "explicit-state BFS over add(done-vector) for every done vector in {0,1}^E; canonical state = (window done bits, "
    "cursor, size, per stored row (age, env, steps-summed, done)); closure for small capacity, all streams up to the "
    "stated length for the large one; each stored row decoded and compared with the episode-aware reference; "
    "non-trivial = distinct (config, window done pattern) containing >=1 terminal; outcomes = distinct (config, m, done) stored rows"
)
ASSUMPTIONS = [
    "transitions built as in train_off_policy (Transition -> to_tensordict, batch_size=[E]); the 1-step buffer receives the value returned by add()",
    "rewards are powers of two and gamma in {1,0.5} so float32 sums are exact; gamma=0.99 is compared with rel. tolerance 1e-5",
    "a window may legitimately be cut at a step where ANY environment terminates (the statement allows it); cutting elsewhere is a violation",
]


def bounds(tier):
    if tier == "quick":
        return {"n": [1, 2, 3, 4, 5], "envs": [1, 2], "gamma": [1.0, 0.5], "capacity": [3, 64],
                "stream_len": {"E=1": "n+4", "E=2": 5}, "search": "BFS, closure where capacity=3; n in {4,5} with one environment only"}
    return {"n": [1, 2, 3, 4, 5], "envs": [1, 2, 3], "gamma": [1.0, 0.5, 0.99], "capacity": [3, 4, 64],
            "stream_len": {"E=1": "n+6", "E=2": 6, "E=3": 4}, "search": "BFS, closure where capacity<=4; n=5 with one environment, n=4 with <=2 environments"}


def tasks(tier, seed):
    b = bounds(tier)
    out = []
    for n in b["n"]:
        for E in b["envs"]:
            if n >= 4 and E > 1 and (tier == "quick" or n >= 5 or E > 2):
                continue  # long windows: one environment (thorough: n=4 also with two)
            for g in b["gamma"]:
                for cap in b["capacity"]:
                    if tier == "quick":
                        T = n + 4 if E == 1 else 5
                    else:
                        T = n + 6 if E == 1 else (6 if E == 2 else 4)
                    if cap <= 4:
                        T = T + 2  # small capacity: go past the wrap of both buffers (closure is usually reached earlier)
                    out.append({"n": n, "E": E, "gamma": g, "cap": cap, "T": T, "_cost": (2 ** E) ** min(T, 6)})
    return out


def enc(t, e, field, shape=(2,)):
    s = t * 4 + e
    n = int(np.prod(shape)) if shape else 1
    return (64.0 * s + 8 * field + np.arange(n) / 1024.0).reshape(shape).astype(np.float32)


def dec(x, field):
    v = x.detach().to(torch.float64).reshape(-1).numpy()
    s = int(np.floor(v[0] / 64.0))
    want = (64.0 * s + 8 * field + np.arange(v.size) / 1024.0).astype(np.float32).astype(np.float64)
    return (s // 4, s % 4), bool(np.array_equal(v, want))


def rew(t, e, E):
    return float(2.0 ** (t * E + e))


class H:
    def __init__(self, n, E, gamma, cap):
        self.n, self.E, self.gamma, self.cap = n, E, gamma, cap
        self.nbuf = MultiStepReplayBuffer(max_size=cap, n_step=n, gamma=gamma)
        self.mem = ReplayBuffer(max_size=cap)
        self.dones = []       # raw done vectors, one per add
        self.rows = []        # reference ring: list of (k, e) expected per storage slot, None if empty
        self.cursor = 0
        self.size = 0
        self.ref_rows = [None] * cap


def make_td(h: H, t, dvec):
    E = h.E
    obs = np.stack([enc(t, e, 1) for e in range(E)])
    nobs = np.stack([enc(t, e, 3) for e in range(E)])
    act = np.stack([enc(t, e, 2, ()) for e in range(E)]).reshape(E)
    r = np.array([rew(t, e, E) for e in range(E)], dtype=np.float32)
    d = np.array(dvec, dtype=np.float32)
    tr = Transition(obs=obs, action=act, reward=r, next_obs=nobs, done=d)
    td = tr.to_tensordict()
    td.batch_size = [E]
    return td


def admissible(h: H, k, e, m):
    """is 'sum m steps from raw step k for env e' allowed by the statement?"""
    if not (1 <= m <= h.n) or k + m - 1 >= len(h.dones):
        return False, "window length out of range"
    for i in range(m - 1):
        if h.dones[k + i][e]:
            return False, f"own-terminal-at-window-pos-{'0' if i == 0 else 'mid'}"
    if m == h.n:
        return True, ""
    if any(h.dones[k + m - 1]):
        return True, ""
    return False, "cut-without-terminal"


def check_row(h: H, row, mem_row, k_exp, e_exp):
    """returns (problem_class, text, m, done) ; problem_class None if ok"""
    (t0, e0), ok = dec(row["obs"], 1)
    if not ok or (t0, e0) != (k_exp, e_exp):
        return "obs-misplaced", f"slot expected raw step {(k_exp, e_exp)} got obs of {(t0, e0)} ok={ok}", None, None
    (ta, ea), ok = dec(row["action"], 2)
    if not ok or (ta, ea) != (t0, e0):
        return "action-misaligned", f"action of {(ta, ea)} stored with obs of {(t0, e0)}", None, None
    (t1, e1), ok = dec(row["next_obs"], 3)
    if not ok or e1 != e0:
        return "next-obs-foreign-env", f"next_obs of {(t1, e1)} for obs {(t0, e0)}", None, None
    m = t1 - t0 + 1
    okm, why = admissible(h, t0, e0, m)
    d = float(row["done"].reshape(-1)[0])
    if not okm:
        return why, f"row for raw step {(t0, e0)}: next_obs is of step {t1} (m={m}, n={h.n}); dones={[list(map(int, x)) for x in h.dones[t0:t0 + h.n]]}", m, d
    if d != float(h.dones[t1][e0]):
        return "done-flag-not-of-last-summed-step", f"row {(t0, e0)} m={m}: done={d} but step {t1} has done={h.dones[t1][e0]}", m, d
    want = sum((h.gamma ** i) * rew(t0 + i, e0, h.E) for i in range(m))
    got = float(row["reward"].reshape(-1)[0])
    exact = h.gamma in (1.0, 0.5)
    if (got != want) if exact else (abs(got - want) > 1e-5 * abs(want)):
        # classify: does it equal a sum that runs past an own terminal?
        cls = "reward-sum-mismatch"
        for mm in range(1, h.n + 1):
            if t0 + mm - 1 < len(h.dones):
                w2 = sum((h.gamma ** i) * rew(t0 + i, e0, h.E) for i in range(mm))
                if (got == w2) if exact else (abs(got - w2) <= 1e-5 * abs(w2)):
                    okm2, why2 = admissible(h, t0, e0, mm)
                    cls = f"reward-sums-{mm}-steps-but-next-obs-of-{m}" + ("" if okm2 else f"/{why2}")
                    break
        return cls, f"row {(t0, e0)} m={m}: reward {got} expected {want}", m, d
    if mem_row is not None:
        (tm, em), ok = dec(mem_row["obs"], 1)
        (tma, ema), ok2 = dec(mem_row["action"], 2)
        if not (ok and ok2) or (tm, em) != (t0, e0) or (tma, ema) != (t0, e0):
            return "one-step-buffer-misaligned", f"n-step slot holds {(t0, e0)}, 1-step slot holds obs {(tm, em)} action {(tma, ema)}", m, d
    return None, "", m, d


def canon(h: H):
    win = tuple(tuple(int(x) for x in d) for d in h.dones[-(h.n - 1):]) if h.n > 1 else ()
    win = win[-min(len(h.dones), h.n - 1):] if h.n > 1 else ()
    T = len(h.dones)
    rows = []
    for j in range(h.cap):
        r = h.ref_rows[j]
        rows.append(None if r is None else (T - r[0], r[1], r[2], r[3]))
    return (win, h.cursor, h.size, tuple(rows), min(T, h.n))


def make_apply(p: Partial, cfg):
    def apply(h: H, op, path):
        p.evaluations += 1
        t = len(h.dones)
        dvec = op["done"]
        td = make_td(h, t, dvec)
        h.dones.append(list(dvec))
        rp = {**cfg, "path": path}
        kp = f"nstep/E={'1' if h.E == 1 else '>1'}"
        try:
            one = h.nbuf.add(td)
            if one is not None:
                h.mem.add(one)
        except Exception as e:
            p.viol(f"{kp}/add/exception/{type(e).__name__}", f"add raised {e!r}", rp)
            return None
        stored_now = len(h.dones) >= h.n
        if (one is not None) != stored_now:
            p.viol(f"{kp}/add/return-presence", f"add returned {'a transition' if one is not None else 'None'} at step {t} (n={h.n})", rp)
            return None
        if stored_now:
            k = t - h.n + 1
            # returned transition is raw step k
            for e in range(h.E):
                (tr, er), ok = dec(one["obs"][e], 1)
                (ta, ea), ok2 = dec(one["action"][e], 2)
                (tn, en), ok3 = dec(one["next_obs"][e], 3)
                if not (ok and ok2 and ok3) or not ((tr, er) == (ta, ea) == (tn, en) == (k, e)):
                    p.viol(f"{kp}/returned-transition-not-raw-step-k", f"add at step {t} returned obs {(tr, er)} action {(ta, ea)} next {(tn, en)}, expected raw step {(k, e)}", rp)
                    return None
                if float(one["reward"].reshape(h.E, -1)[e, 0]) != rew(k, e, h.E) or float(one["done"].reshape(h.E, -1)[e, 0]) != float(h.dones[k][e]):
                    p.viol(f"{kp}/returned-transition-modified", f"returned 1-step transition of raw step {(k, e)} has reward/done altered", rp)
                    return None
            for e in range(h.E):
                h.ref_rows[h.cursor] = [k, e, None, None]
                h.cursor = (h.cursor + 1) % h.cap
                h.size = min(h.size + 1, h.cap)
            window = [tuple(int(x) for x in d) for d in h.dones[k:k + h.n]]
            if any(any(d) for d in window):
                p.nt([cfg["n"], cfg["E"], cfg["gamma"], window])
        # --- oracle over the whole storage (also re-checks old rows after later adds / wrap)
        if len(h.nbuf) != h.size or len(h.mem) != h.size:
            p.viol(f"{kp}/len", f"len(n-step)={len(h.nbuf)} len(1-step)={len(h.mem)} expected {h.size}", rp)
            return None
        for j in range(h.cap):
            r = h.ref_rows[j]
            if r is None:
                continue
            cls, text, m, d = check_row(h, h.nbuf.storage[j], h.mem.storage[j], r[0], r[1])
            if cls:
                p.viol(f"{kp}/{cls}", text, rp)
                return None
            r[2], r[3] = m, d
            p.out([cfg["n"], cfg["E"], m, d])
        p.dg(canon(h))
        return h

    return apply


def run_task(task):
    p = Partial()
    cfg = {k: task[k] for k in ("n", "E", "gamma", "cap", "T")}
    E = task["E"]
    dvecs = [[(i >> e) & 1 for e in range(E)] for i in range(2 ** E)]

    def ops(h):
        return [{"done": d} for d in dvecs]

    h0 = H(task["n"], E, task["gamma"], task["cap"])
    deepest = explore(h0, ops, make_apply(p, cfg), canon, p, max_depth=task["T"], path_only=task.get("path"))
    p.sample({"config": cfg, "deepest_bfs_path": task.get("path") or deepest})
    return p
