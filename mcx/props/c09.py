"""C09 — replay buffers hold exactly the most recent transitions, each one intact.

E1 stategraph: BFS to closure over {add(w), sample(b, perm), clear} on the real ReplayBuffer /
MultiAgentReplayBuffer for every small capacity and observation kind. Every field of
transition #s encodes s, the canonical state replaces serials by ages (DESIGN A.4).
Reference model: collections.deque(maxlen=N) of serials.
"""
from __future__ import annotations

import collections
import copy
import itertools
import random as pyrandom

import numpy as np
import torch

from agilerl.components.data import Transition
from agilerl.components.multi_agent_replay_buffer import MultiAgentReplayBuffer
from agilerl.components.replay_buffer import ReplayBuffer

from ..core import HarnessError, Partial
from ..rand import patched, seeded
from ..stategraph import explore

LEVEL = "model_checking"
RULE = (
    "explicit-state BFS to closure over add(width)/sample(batch,perm)/clear on the real buffer; canonical state = "
    "(cursor,size,ages of stored serials); every transition compared with a deque(maxlen=N) reference; "
    "non-trivial = distinct (config, canonical state, op) triples on which the write wrapped around the end "
    "or overwrote a stored row; outcomes = distinct (config,len,stored-age-set)"
)
ASSUMPTIONS = [
    "transitions are built the way train_off_policy builds them (Transition tensorclass -> to_tensordict, batch_size=[w])",
    "ring-buffer futures depend on (cursor,size,ages) only, not on absolute serial numbers (DESIGN A.4)",
    "torch.randperm / random.sample are the only random sources of sample(); they are scripted and additionally run unscripted under pinned seeds",
]

OBS_KINDS = ["vector", "image", "dict", "tuple", "scalar", "scalar_single"]
FIELDS = {"obs": 1, "action": 2, "next_obs": 3, "reward": 4}


def bounds(tier):
    return {
        "single_agent_capacity": [1, 2, 3, 4, 5] if tier == "quick" else [1, 2, 3, 4, 5, 6, 7, 8],
        "obs_kinds": OBS_KINDS,
        "add_widths": "1..capacity (plus unvectorised single form)",
        "sample_batch": "1..len with perms {identity,reverse,rotate} + 2 pinned-seed unscripted draws",
        "multi_agent_capacity": [1, 2, 3, 4] if tier == "quick" else [1, 2, 3, 4, 5, 6],
        "multi_agent_widths": "single + vectorised 1..3",
        "search": "BFS to closure on canonical state",
    }


def tasks(tier, seed):
    ts = []
    caps = bounds(tier)["single_agent_capacity"]
    for n in caps:
        for kind in OBS_KINDS:
            ts.append({"buf": "single", "cap": n, "kind": kind, "_cost": n ** 3})
    for n in bounds(tier)["multi_agent_capacity"]:
        for kind in ["vector", "dict", "tuple", "scalar"]:
            ts.append({"buf": "multi", "cap": n, "kind": kind, "_cost": n ** 3})
    return ts


# ---------------------------------------------------------------------------- encoding
def _shape(kind):
    return {"vector": [(3,)], "image": [(2, 3, 3)], "scalar": [()], "scalar_single": [()], "dict": [(3,), (2, 2)], "tuple": [(2,), (1, 2, 2)]}[kind]


def _arr(serials, field, sub, shape):
    """array of shape (w,*shape): value = 64*s + 8*field + sub + pos/1024"""
    n = int(np.prod(shape)) if shape else 1
    pos = (np.arange(n, dtype=np.float64) / 1024.0).reshape(shape if shape else ())
    out = np.stack([64.0 * s + 8 * field + sub + pos for s in serials]).astype(np.float32)
    return out


def _obs(serials, field, kind):
    shp = _shape(kind)
    if kind == "dict":
        return {"a": _arr(serials, field, 0, shp[0]), "b": _arr(serials, field, 1, shp[1])}
    if kind == "tuple":
        return (_arr(serials, field, 0, shp[0]), _arr(serials, field, 1, shp[1]))
    return _arr(serials, field, 0, shp[0])


def make_td(serials, kind, single_form=False):
    w = len(serials)
    obs, nobs = _obs(serials, FIELDS["obs"], kind), _obs(serials, FIELDS["next_obs"], kind)
    action = _arr(serials, FIELDS["action"], 0, ())
    reward = _arr(serials, FIELDS["reward"], 0, ())
    done = np.array([s % 2 for s in serials], dtype=np.float32)
    if single_form:
        assert w == 1
        sq = lambda x: x[0]
        m = lambda o: {k: sq(v) for k, v in o.items()} if isinstance(o, dict) else tuple(sq(v) for v in o) if isinstance(o, tuple) else sq(o)
        t = Transition(obs=m(obs), action=action[0], reward=float(reward[0]), next_obs=m(nobs), done=bool(done[0]))
        t = t.unsqueeze(0)
    else:
        t = Transition(obs=obs, action=action, reward=reward, next_obs=nobs, done=done)
    td = t.to_tensordict()
    td.batch_size = [w]
    return td


def _decode_tensor(t, field, sub):
    """returns (serial, ok) for one stored row tensor"""
    if hasattr(t, "data") and not isinstance(t, torch.Tensor):  # NonTensorData (python-number observations)
        t = t.data
    if not isinstance(t, torch.Tensor):
        t = torch.as_tensor(np.asarray(t, dtype=np.float64))
    v = t.detach().to(torch.float64).reshape(-1).numpy()
    s = int(np.floor(v[0] / 64.0))
    n = v.size
    want = 64.0 * s + 8 * field + sub + np.arange(n) / 1024.0
    return s, bool(np.array_equal(v, want.astype(np.float32).astype(np.float64)))


def decode_row(row, kind):
    """row: TensorDict for a single transition -> (serial or None, problem text or None)"""
    sers = []
    for fname in ("obs", "next_obs"):
        f = FIELDS[fname]
        o = row[fname]
        if kind == "dict":
            parts = [(o["a"], 0), (o["b"], 1)]
        elif kind == "tuple":
            parts = [(o["tuple_obs_0"], 0), (o["tuple_obs_1"], 1)]
        else:
            parts = [(o, 0)]
        for t, sub in parts:
            s, ok = _decode_tensor(t, f, sub)
            if not ok:
                return None, f"{fname} content corrupted"
            sers.append(s)
    for fname in ("action", "reward"):
        s, ok = _decode_tensor(row[fname], FIELDS[fname], 0)
        if not ok:
            return None, f"{fname} content corrupted"
        sers.append(s)
    if len(set(sers)) != 1:
        return None, f"fields of one stored row belong to different transitions {sers}"
    s = sers[0]
    d = float(row["done"].reshape(-1)[0])
    if d != float(s % 2):
        return None, f"done flag of row does not belong to transition {s}"
    return s, None


# ---------------------------------------------------------------------------- single-agent harness
class H:
    def __init__(self, cap, kind):
        self.cap, self.kind = cap, kind
        self.buf = ReplayBuffer(max_size=cap)
        self.total = 0
        self.ref = collections.deque(maxlen=cap)


def _stored_serials(h: H):
    """decode rows [0,len) of the storage"""
    out = []
    n = len(h.buf)
    for i in range(n):
        s, prob = decode_row(h.buf.storage[i], h.kind)
        if prob:
            return None, f"slot {i}: {prob}"
        out.append(s)
    return out, None


def canon_single(h: H):
    n = len(h.buf)
    ages = []
    if h.buf.storage is not None:
        for i in range(h.cap):
            s, prob = decode_row(h.buf.storage[i], h.kind)
            ages.append(None if prob else (h.total - s if i < n else ("stale", h.total - s)))
    return (h.buf._cursor, n, tuple(ages), h.buf.storage is None)


PERMS = {
    "identity": lambda n: torch.arange(n),
    "reverse": lambda n: torch.arange(n - 1, -1, -1),
    "rotate": lambda n: torch.roll(torch.arange(n), 1),
}


def ops_single(h: H):
    # a python-number observation stream is either vectorised (tensor storage) or not (non-tensor storage);
    # one buffer never sees both forms, so the two forms are separate configurations
    ops = []
    if h.kind != "scalar_single":
        ops += [{"op": "add", "w": w, "single": False} for w in range(1, h.cap + 1)]
    if h.kind != "scalar":
        ops.append({"op": "add", "w": 1, "single": True})
    n = len(h.buf)
    for b in range(1, n + 1):
        for perm in PERMS:
            ops.append({"op": "sample", "b": b, "perm": perm})
        for sd in (0, 1):
            ops.append({"op": "sample", "b": b, "seed": sd})
    if n:
        ops.append({"op": "clear"})
    return ops


def _check_batch(h, batch, b, p, key_prefix, path, cfg):
    """a sample is a duplicate-free subset of the stored rows"""
    if batch.shape[0] != b:
        p.viol(f"{key_prefix}/sample/batch-size", f"sample({b}) returned {batch.shape[0]} rows", {**cfg, "path": path})
        return None
    sers = []
    for i in range(b):
        s, prob = decode_row(batch[i], h.kind)
        if prob:
            p.viol(f"{key_prefix}/sample/row-corrupt", f"sampled row: {prob}", {**cfg, "path": path})
            return None
        sers.append(s)
    if not set(sers) <= set(h.ref):
        p.viol(f"{key_prefix}/sample/not-stored", f"sample returned transitions {sers} not in stored set {list(h.ref)}", {**cfg, "path": path})
    if len(set(sers)) != len(sers):
        p.viol(f"{key_prefix}/sample/duplicate", f"sample returned duplicates {sers}", {**cfg, "path": path})
    return sers


def _do_sample(h, op):
    if "perm" in op:
        called = []

        def fake(n, *a, **k):
            called.append(n)
            return PERMS[op["perm"]](n)

        with patched(torch, "randperm", fake):
            batch = h.buf.sample(op["b"])
        return batch, bool(called)
    with seeded(op["seed"]):
        return h.buf.sample(op["b"]), True


def make_apply_single(p: Partial, cfg):
    kp = f"ReplayBuffer/{cfg['kind']}"

    def apply(h: H, op, path):
        p.evaluations += 1
        before = canon_single(h)
        # a batch handed out in this state must survive the op (and a full overwrite afterwards)
        held = held_copy = None
        if len(h.buf):
            held, _ = _do_sample(h, {"b": len(h.buf), "perm": "identity"})
            held_copy = held.clone()
        if op["op"] == "add":
            w = op["w"]
            serials = list(range(h.total, h.total + w))
            td = make_td(serials, h.kind, op["single"])
            wrapped = h.buf._cursor + w > h.cap
            overwrote = len(h.buf) + w > h.cap
            try:
                h.buf.add(td)
            except Exception as e:  # the implementation must accept every width <= capacity
                p.viol(f"{kp}/add/exception/{type(e).__name__}", f"add(width={w}) raised {e!r}", {**cfg, "path": path})
                return None
            h.total += w
            h.ref.extend(serials)
            if wrapped or overwrote:
                p.nt([cfg["cap"], cfg["kind"], before[0], before[1], w, "wrap" if wrapped else "overwrite"])
        elif op["op"] == "sample":
            batch, consumed = _do_sample(h, op)
            if "perm" in op and not consumed:
                p.extra["scripted_randperm_not_consumed"] += 1
            _check_batch(h, batch, op["b"], p, kp, path, cfg)
        elif op["op"] == "clear":
            h.buf.clear()
            h.ref.clear()
        # --- oracle on the post state
        if len(h.buf) != len(h.ref):
            p.viol(f"{kp}/{op['op']}/len", f"len(buffer)={len(h.buf)} reference={len(h.ref)} after {op}", {**cfg, "path": path},
                   observed=len(h.buf), expected=len(h.ref))
            return None
        stored, prob = _stored_serials(h)
        if prob:
            p.viol(f"{kp}/{op['op']}/row-integrity", f"after {op}: {prob}", {**cfg, "path": path})
            return None
        if sorted(stored) != sorted(h.ref):
            p.viol(f"{kp}/{op['op']}/content", f"after {op}: stored transitions {sorted(stored)} != last-min(N,added) {sorted(h.ref)}",
                   {**cfg, "path": path}, observed=sorted(stored), expected=sorted(h.ref))
            return None
        if held is not None:
            def same(a, b):
                return all(torch.equal(a[k], b[k]) for k in a.keys(True, True))
            if not same(held, held_copy):
                p.viol(f"{kp}/{op['op']}/handed-out-batch-mutated", f"batch sampled before {op} changed afterwards", {**cfg, "path": path})
            elif op["op"] == "add":
                # overwrite every row once more: an aliasing batch would change now at the latest
                h2 = copy.deepcopy(h)
                held2, _ = _do_sample(h2, {"b": len(h2.buf), "perm": "reverse"})
                held2_copy = held2.clone()
                if h2.kind == "scalar_single":
                    for s_ in range(h2.total, h2.total + h2.cap):
                        h2.buf.add(make_td([s_], h2.kind, True))
                else:
                    h2.buf.add(make_td(list(range(h2.total, h2.total + h2.cap)), h2.kind))
                if not same(held2, held2_copy):
                    p.viol(f"{kp}/add/handed-out-batch-mutated", "batch changed by a later full overwrite", {**cfg, "path": path})
        p.out([cfg["cap"], cfg["kind"], len(h.buf), sorted(h.total - s for s in stored)])
        p.dg(canon_single(h))
        return h

    return apply


# ---------------------------------------------------------------------------- multi-agent harness
AGENTS = ["agent_0", "agent_1"]
MA_FIELDS = ["state", "action", "reward", "next_state", "done"]
MA_CODE = {"state": 1, "action": 2, "reward": 4, "next_state": 3}


class HM:
    def __init__(self, cap, kind):
        self.cap, self.kind = cap, kind
        self.buf = MultiAgentReplayBuffer(cap, MA_FIELDS, AGENTS)
        self.total = 0
        self.ref = collections.deque(maxlen=cap)


def _ma_val(serials, field, agent_i, kind, vect):
    """per-agent value; agent index is folded into 'sub' (2*agent + part)"""
    def mk(sub, shape):
        a = _arr(serials, field, sub, shape)
        return a if vect else a[0]
    shp = _shape(kind)
    if kind == "dict":
        return {"a": mk(4 * agent_i + 0, shp[0]), "b": mk(4 * agent_i + 1, shp[1])}
    if kind == "tuple":
        return (mk(4 * agent_i + 0, shp[0]), mk(4 * agent_i + 1, shp[1]))
    return mk(4 * agent_i, shp[0])


def ma_args(serials, kind, vect, order="fwd"):
    """order="rev": the per-field dicts list the agents in different key orders (reward/done reversed) - a dict is
    looked up by agent id, so key order must not matter"""
    out = _ma_args(serials, kind, vect)
    if order == "rev":
        out = tuple(dict(reversed(list(d.items()))) if j in (1, 2, 4) else d for j, d in enumerate(out))
    return out


def _ma_args(serials, kind, vect):
    st = {a: _ma_val(serials, 1, i, kind, vect) for i, a in enumerate(AGENTS)}
    ns = {a: _ma_val(serials, 3, i, kind, vect) for i, a in enumerate(AGENTS)}
    def sc(field, i):
        a = _arr(serials, field, 4 * i, ())
        return a if vect else float(a[0])
    ac = {a: (_arr(serials, 2, 4 * i, (2,)) if vect else _arr(serials, 2, 4 * i, (2,))[0]) for i, a in enumerate(AGENTS)}
    rw = {a: sc(4, i) for i, a in enumerate(AGENTS)}
    dn = {a: (np.array([(s + i) % 2 for s in serials], dtype=bool) if vect else bool((serials[0] + i) % 2)) for i, a in enumerate(AGENTS)}
    return st, ac, rw, ns, dn


def _ma_decode_value(v, field, agent_i, kind, sub_parts):
    """v: per-agent stored value (array / dict / tuple) of ONE transition -> serial, problem"""
    sers = []
    if kind == "dict" and sub_parts:
        parts = [(v["a"], 0), (v["b"], 1)]
    elif kind == "tuple" and sub_parts:
        parts = [(v[0], 0), (v[1], 1)]
    else:
        parts = [(v, 0)]
    for arr, sub in parts:
        t = torch.as_tensor(np.asarray(arr, dtype=np.float32))
        if t.ndim == 0:
            t = t.reshape(1)
        s, ok = _decode_tensor(t, field, 4 * agent_i + sub)
        if not ok:
            return None, "content corrupted"
        sers.append(s)
    if len(set(sers)) != 1:
        return None, f"sub-observations from different transitions {sers}"
    return sers[0], None


def ma_decode_experience(e, kind):
    sers = []
    for fname in ("state", "action", "reward", "next_state"):
        val = getattr(e, fname)
        if sorted(val.keys()) != sorted(AGENTS):
            return None, f"{fname}: agents {sorted(val.keys())}"
        for i, a in enumerate(AGENTS):
            s, prob = _ma_decode_value(val[a], MA_CODE[fname], i, kind, fname in ("state", "next_state"))
            if prob:
                return None, f"{fname}[{a}]: {prob}"
            sers.append(s)
    if len(set(sers)) != 1:
        return None, f"fields/agents of one stored experience belong to different transitions {sers}"
    s = sers[0]
    for i, a in enumerate(AGENTS):
        if bool(np.asarray(e.done[a]).reshape(-1)[0]) != bool((s + i) % 2):
            return None, f"done[{a}] does not belong to transition {s}"
    return s, None


def canon_multi(h: HM):
    ages = []
    for e in h.buf.memory:
        s, prob = ma_decode_experience(e, h.kind)
        # the key order of the stored dicts is part of the state: it must not matter, which is what is being checked
        ages.append(None if prob else (h.total - s, next(iter(e.reward)) != AGENTS[0]))
    return (len(h.buf), tuple(ages))


def ops_multi(h: HM):
    ops = [{"op": "save", "w": 1, "vect": False}, {"op": "save", "w": 1, "vect": False, "order": "rev"}]
    ops += [{"op": "save", "w": w, "vect": True} for w in (1, 2, 3)]
    ops += [{"op": "save", "w": 2, "vect": True, "order": "rev"}]
    n = len(h.buf)
    for b in range(1, n + 1):
        for pick in ("first", "last", "seed0"):
            ops.append({"op": "sample", "b": b, "pick": pick})
    return ops


def make_apply_multi(p: Partial, cfg):
    kp = f"MultiAgentReplayBuffer/{cfg['kind']}"

    def apply(h: HM, op, path):
        p.evaluations += 1
        before = canon_multi(h)
        if op["op"] == "save":
            w = op["w"]
            serials = list(range(h.total, h.total + w))
            args = ma_args(serials, h.kind, op["vect"], op.get("order", "fwd"))
            try:
                h.buf.save_to_memory(*args, is_vectorised=op["vect"])
            except Exception as e:
                p.viol(f"{kp}/save/exception/{type(e).__name__}", f"save_to_memory(w={w},vect={op['vect']}) raised {e!r}", {**cfg, "path": path})
                return None
            h.total += w
            h.ref.extend(serials)
            if before[0] + w > h.cap:
                p.nt([cfg["cap"], cfg["kind"], before[0], w, op["vect"]])
        else:
            b = op["b"]
            if op["pick"] == "seed0":
                with seeded(0):
                    out = h.buf.sample(b)
                picked = None
            else:
                def fake(pop, k):
                    lst = list(pop)
                    return lst[:k] if op["pick"] == "first" else lst[-k:][::-1]
                with patched(pyrandom, "sample", fake):
                    out = h.buf.sample(b)
                picked = (list(h.ref)[:b] if op["pick"] == "first" else list(h.ref)[-b:][::-1])
            # decode the sampled batch: tuple(field -> {agent: tensor(b,...)})
            if len(out) != len(MA_FIELDS):
                p.viol(f"{kp}/sample/arity", f"sample returned {len(out)} fields", {**cfg, "path": path})
                return None
            got = []
            for r in range(b):
                sers = []
                bad = None
                for fname, val in zip(MA_FIELDS, out):
                    if fname == "done":
                        continue
                    for i, a in enumerate(AGENTS):
                        v = val[a]
                        if isinstance(v, dict):
                            row = {k: x[r].numpy() for k, x in v.items()}
                        elif isinstance(v, tuple):
                            row = tuple(x[r].numpy() for x in v)
                        else:
                            if v.shape[0] != b:
                                bad = f"{fname}[{a}] batch dim {tuple(v.shape)} for batch {b}"
                                break
                            row = v[r].numpy()
                        s, prob = _ma_decode_value(row, MA_CODE[fname], i, h.kind, fname in ("state", "next_state"))
                        if prob:
                            bad = f"{fname}[{a}] row {r}: {prob}"
                            break
                        sers.append(s)
                    if bad:
                        break
                if bad is None and len(set(sers)) != 1:
                    bad = f"row {r} mixes transitions {sers}"
                if bad is None:
                    s = sers[0]
                    for i, a in enumerate(AGENTS):
                        if bool(out[4][a][r].reshape(-1)[0]) != bool((s + i) % 2):
                            bad = f"row {r}: done[{a}] not of transition {s}"
                if bad:
                    p.viol(f"{kp}/sample/row-integrity", bad, {**cfg, "path": path})
                    return None
                got.append(sers[0])
            if not set(got) <= set(h.ref):
                p.viol(f"{kp}/sample/not-stored", f"sampled {got} not within stored {list(h.ref)}", {**cfg, "path": path})
            if len(set(got)) != len(got):
                p.viol(f"{kp}/sample/duplicate", f"sampled duplicates {got}", {**cfg, "path": path})
            if picked is not None and got != picked:
                p.viol(f"{kp}/sample/wrong-rows", f"sampled {got}, the scripted draw selected {picked}", {**cfg, "path": path})
        if len(h.buf) != len(h.ref):
            p.viol(f"{kp}/{op['op']}/len", f"len={len(h.buf)} reference={len(h.ref)}", {**cfg, "path": path})
            return None
        stored = []
        for e in h.buf.memory:
            s, prob = ma_decode_experience(e, h.kind)
            if prob:
                p.viol(f"{kp}/{op['op']}/row-integrity", f"after {op}: {prob}", {**cfg, "path": path})
                return None
            stored.append(s)
        if stored != list(h.ref):
            p.viol(f"{kp}/{op['op']}/content", f"stored {stored} != reference {list(h.ref)}", {**cfg, "path": path},
                   observed=stored, expected=list(h.ref))
            return None
        p.out([cfg["cap"], cfg["kind"], "ma", len(h.buf), [h.total - s for s in stored]])
        p.dg(canon_multi(h))
        return h

    return apply


def run_task(task):
    p = Partial()
    cfg = {k: task[k] for k in ("buf", "cap", "kind")}
    path_only = task.get("path")
    if task["buf"] == "single":
        deepest = explore(H(task["cap"], task["kind"]), ops_single, make_apply_single(p, cfg), canon_single, p, path_only=path_only)
    else:
        deepest = explore(HM(task["cap"], task["kind"]), ops_multi, make_apply_multi(p, cfg), canon_multi, p, path_only=path_only)
    p.sample({"config": cfg, "deepest_bfs_path": path_only or deepest})
    return p
