"""C04 — mutations reuse learned weights; an unchanged architecture computes the same function.

Same graph as C03 (mcx.fixtures.archgraph, the exploration is executed again by this check); OracleC04 judges
every edge: before the mutation every parameter AND buffer of the clone is overwritten with a deterministic,
non-constant, sign-changing pattern value = f(tensor name, multi-index).
"""
from __future__ import annotations

from ..fixtures import archgraph as ag

LEVEL = "model_checking"
RULE = (
    "explicit-state BFS over the clone-and-mutate graph of C03 (same alphabet: every advertised method, the stated "
    "explicit-argument choices, EVERY answer of every internal np.random draw); on every edge all parameters and "
    "buffers are first overwritten with a recognisable pattern, then: every same-named parameter / BatchNorm buffer "
    "must be bit-equal to the pattern on the index range common to the old and new shape; if neither the architecture "
    "description nor any parameter shape changed, outputs on 3 probe batches must be bit-equal in train and eval mode; "
    "clone() of the result must reproduce its outputs on the probes. Non-trivial = distinct (spec, source architecture, "
    "target architecture, method) edges on which at least one tensor changed shape or appeared/disappeared; outcome = "
    "distinct (owning module class, who recreated it, tensor kind, same-shape/resized, kept/lost) and no-op/clone verdicts."
)
ASSUMPTIONS = [
    "'weight' = every parameter plus the BatchNorm running statistics; the factorised-noise buffers of NoisyLinear are resampled by design and are not weights (for the no-op comparison the old noise is copied back first)",
    "value preservation is demanded only on the common index range of the old and new shape, whatever that range means semantically (e.g. stacked LSTM gates, concatenated latent features)",
    "explicit integer arguments carry the types of the library's own returned mutation dicts (np.int64 sizes/indices, python int kernel sizes)",
    "torch's generator is pinned per edge (fresh-unit initialisation and action sampling are not quantified over); stochastic heads are compared under the same generator state",
    "train-mode probes use batch sizes 2 and 3 only when the network contains BatchNorm",
    "forward exceptions of a mutated network are C03's business; C04 only counts them",
]


def bounds(tier):
    b = ag.bounds(tier)
    b["pattern"] = "value = base(name) + sum_k idx_k * w_k, sign flipped where sum(idx) % 3 == 2, running_var/log_std positive; integer buffers = 3 + hash(name) % 5"
    return b


def tasks(tier, seed):
    return ag.tasks(tier)


def run_task(task):
    return ag.run(task, ag.OracleC04)
