"""E1: explicit-state breadth-first exploration over a real object.

A state is a live (deep-copyable) harness object; `canon` maps it to a hashable canonical key.
Every transition is executed on a *copy of the real object* and judged by the oracle inside
`apply`. BFS runs to closure (no new canonical state) unless `max_states`/`max_depth` fires,
in which case the cap is recorded and the evidence is marked non-exhaustive.
"""
from __future__ import annotations

import collections
import copy


def explore(init, ops_fn, apply_fn, canon_fn, p, max_states=200000, max_depth=None, copier=copy.deepcopy,
            path_only=None):
    """
    init      : initial harness state
    ops_fn    : state -> list of JSON-able ops enabled in that state
    apply_fn  : (state_copy, op, path) -> state_copy after op (oracle runs inside, records into p)
                may return None to signal "edge failed, do not continue from here"
    canon_fn  : state -> hashable
    path_only : if given (replay), execute just that op list with the oracle and return
    """
    if path_only is not None:
        st = copier(init)
        path = []
        for op in path_only:
            path.append(op)
            st = apply_fn(st, op, list(path))
            p.transitions += 1
            if st is None:
                break
        p.traces += 1
        return
    seen = {canon_fn(init)}
    t0 = p.transitions
    cut = False
    frontier = collections.deque([(init, [])])
    depth_reached = 0
    deepest = []
    while frontier:
        st, path = frontier.popleft()
        if len(path) > depth_reached:
            deepest = path
        depth_reached = max(depth_reached, len(path))
        if max_depth is not None and len(path) >= max_depth:
            cut = True  # a stated depth bound, not a cap: the space "all paths <= max_depth" is covered
            continue
        for op in ops_fn(st):
            nxt = apply_fn(copier(st), op, path + [op])
            p.transitions += 1
            if nxt is None:
                continue
            k = canon_fn(nxt)
            if k not in seen:
                if len(seen) >= max_states:
                    if p.closed:
                        p.caps.append(f"max_states={max_states}")
                    p.closed = False
                    continue
                seen.add(k)
                frontier.append((nxt, path + [op]))
    p.states += len(seen)
    p.traces += p.transitions - t0  # every transition is an execution of the implementation
    p.extra["max_depth_reached"] = max(p.extra.get("max_depth_reached", 0), depth_reached)
    p.extra["graphs_closed" if not cut else "graphs_depth_bounded"] += 1
    return deepest
