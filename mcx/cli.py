"""./check <Cxx> [--tier quick|thorough] [--replay file]"""
from __future__ import annotations

import argparse
import importlib
import json
import os
import sys
import time

from . import core


def main(argv=None):
    ap = argparse.ArgumentParser()
    ap.add_argument("prop")
    ap.add_argument("--tier", default=os.environ.get("VERIF_TIER", "quick"), choices=["quick", "thorough"])
    ap.add_argument("--replay")
    ap.add_argument("--finding", help="re-execute the failing input recorded for this key in known_findings.json")
    ap.add_argument("--no-evidence", action="store_true")
    ap.add_argument("--only", help="substring filter on task descriptors (debugging; evidence marked non-exhaustive)")
    a = ap.parse_args(argv)
    prop = a.prop.upper()
    seed = int(os.environ.get("VERIF_SEED", "0") or 0)
    t0 = time.time()

    import torch

    torch.set_num_threads(1)
    import agilerl

    repo = os.path.realpath(os.environ.get("VERIF_REPO", "/repo")).rstrip("/") + "/"
    if not os.path.realpath(agilerl.__file__).startswith(repo):
        print(f"HARNESS-ERROR: agilerl imported from {agilerl.__file__}, not {repo}", flush=True)
        return 2
    try:
        mod = importlib.import_module(f"mcx.props.{prop.lower()}")
    except Exception:
        import traceback

        traceback.print_exc()
        print(f"HARNESS-ERROR: cannot import check module for {prop}")
        return 2

    findings = [f for f in core.load_findings() if f["property"] == prop]
    open_keys = {f["key"]: f for f in findings if f["status"] == "open"}

    if a.finding:
        f0 = next((f for f in findings if f["key"] == a.finding and f.get("replay_task")), None)
        if f0 is None:
            print(f"no open finding with key {a.finding!r} and a recorded input for {prop}")
            return 2
        os.makedirs(os.path.join(core.VERIF, "replays", prop), exist_ok=True)
        a.replay = os.path.join(core.VERIF, "replays", prop, "finding-" + core.jhash(a.finding) + ".json")
        with open(a.replay, "w") as f:
            json.dump({"property": prop, "key": f0["key"], "what": f0["what"], "task": f0["replay_task"]}, f, indent=1, default=str)
    if a.replay:
        with open(a.replay) as f:
            rp = json.load(f)
        m = core.run_history(mod, rp["history"], rp["task"]) if rp.get("history") else core.run_tasks(mod, [rp["task"]], procs=1)
        if m.harness_errors:
            print("HARNESS-ERROR:", m.harness_errors[0])
            return 2
        keys = sorted({v["key"] for v in m.violations})
        print(f"replay {a.replay}: recorded key={rp['key']} reproduced keys={keys}")
        for v in m.violations[:5]:
            print("  ", v["key"], "::", v["what"])
        if rp["key"] in keys:
            if rp["key"] in open_keys:
                print(f"KNOWN-FINDING: property={prop} {open_keys[rp['key']]['what']}")
                return 0
            print(f"VIOLATION property={prop} replay={a.replay}")
            return 1
        print("replay: recorded violation not reproduced on the current tree")
        return 0

    tasks = mod.tasks(a.tier, seed)
    if a.only:
        tasks = [t for t in tasks if a.only in json.dumps(t)]
    merged = core.run_tasks(mod, tasks)
    if merged.harness_errors and not merged.violations:
        for e in merged.harness_errors[:5]:
            print("HARNESS-ERROR:", e)
        return 2
    if a.only:
        merged.caps.append(f"--only {a.only}")

    # determinism obligation: first and last task re-executed, digests must agree
    probe = [tasks[0], tasks[-1]] if tasks else []
    if probe and not os.environ.get("VERIF_SKIP_DET"):
        d1 = core.run_tasks(mod, probe, procs=1 if len(probe) == 1 else 2, order_by_cost=False)
        d2 = core.run_tasks(mod, probe, procs=1 if len(probe) == 1 else 2, order_by_cost=False)
        if sorted(d1.digests) != sorted(d2.digests) or d1.harness_errors or d2.harness_errors:
            print("HARNESS-ERROR: non-deterministic harness (first/last task digests differ between two runs)")
            return 2

    # classify violations
    by_key = {}
    for v in merged.violations:
        by_key.setdefault(v["key"], []).append(v)
    new, known, flaky, widened = [], [], [], 0
    for key, vs in sorted(by_key.items()):
        v = vs[0]
        # determinism obligation: a violation must reproduce from a fresh object
        r = core.run_tasks(mod, [v["replay"]], procs=1)
        if r.harness_errors or key not in {x["key"] for x in r.violations}:
            # Context-dependent? The minimal replay is one point of the task that reported the violation. A library that keeps
            # state across independent calls (module-level caches, identity-keyed memo tables) fails only after the calls that
            # preceded the point. Widen the context step by step, each time twice in a freshly forked worker:
            #   (1) the whole task that reported it; (2) the tasks that worker had executed before it, then the task.
            hist, whole = v.get("_history"), v.get("_task")
            used = None
            widened += 1
            if whole is not None and not r.harness_errors and widened <= 3:      # bounded: each widening re-runs whole tasks
                for ctx_hist, label in (([], "the whole task"), (hist or [], f"the {len(hist or [])} tasks the worker had run before + the task")):
                    rr = [core.run_history(mod, ctx_hist, whole) for _ in range(2)]
                    if all(not x.harness_errors and key in {y["key"] for y in x.violations} for x in rr):
                        used = (ctx_hist, label)
                        break
                    if not hist:
                        break
            if used is None:
                flaky.append((key, r.harness_errors[:1]))
                continue
            v["replay"] = whole
            v["_history_used"] = used[0]
            v["what"] += (f" [does not fail when this point is executed alone; reproduced twice in fresh processes with {used[1]}: "
                          "the library keeps state across independent calls]")
        path = core.write_replay(prop, v, seed)
        if key in open_keys:
            known.append((key, open_keys[key], path))
        else:
            new.append((key, v, path))
    if merged.harness_errors:
        # a broken library can also derail the harness after the point where a violation was established: the reproducible
        # violations below stand; without one the run is a harness failure
        for e in merged.harness_errors[:5]:
            print("HARNESS-ERROR" + (" (reported next to reproducible violations)" if new else "") + ":", str(e)[:600])
        if not new:
            return 2
        merged.caps.append(f"{len(merged.harness_errors)} tasks aborted with a harness error")
    if flaky and not new:
        # nothing reproducible to show: the harness cannot tell a process-dependent defect from its own nondeterminism
        print(f"HARNESS-ERROR: violation {flaky[0][0]} did not reproduce on re-execution: {flaky[0][1]}")
        return 2
    for key, err in flaky:
        print(f"  note: {key} was observed in the run but did not reproduce on re-execution (alone, with its whole task, with the worker's history); "
              "not reported as a violation of its own - the reproducible violation(s) below stand")
    for key, f, path in known:
        print(f"KNOWN-FINDING: property={prop} {f['what']} [key={key} replay={os.path.relpath(path, core.VERIF)}]")
    for key, v, path in new:
        print(f"  violation key={key}: {v['what']}")
        print(f"VIOLATION property={prop} replay={path}")
    stale = [k for k in open_keys if k not in by_key]
    for k in stale:
        print(f"note: open known finding {k} was not observed in this run (tier={a.tier})")

    wall = time.time() - t0
    if not a.no_evidence:
        core.write_evidence(prop, mod, a.tier, seed, merged, wall, len(new), len(known))
    print(
        f"{prop} tier={a.tier} seed={seed}: tasks={len(tasks)} evaluations={merged.evaluations} states={merged.states} "
        f"transitions={merged.transitions} traces={merged.traces} nontrivial={len(merged.nontrivial)} "
        f"outcomes={len(merged.outcomes)} exhaustive={merged.closed and not merged.caps} "
        f"violations(new)={len(new)} known={len(known)} wall={wall:.1f}s"
    )
    return 1 if new else 0


if __name__ == "__main__":
    sys.exit(main())
